"""C06 replays / bounded stand-in on the real metric functions."""
import random, itertools
from fractions import Fraction
import numpy as np
from spec import metrics as SM


def _close(a, b):
    if b is None:
        return True  # quotient undefined: nothing demanded
    return abs(float(a) - float(b)) <= 1e-9 * max(1.0, abs(float(b)))


def _val(s):
    if s is None:
        return 0
    s = str(s)
    if s in ("True", "true"):
        return 1
    if s in ("False", "false"):
        return 0
    s = s.replace(" ", "")
    if s.startswith("(-"):
        return -int(s[2:-1])
    try:
        return int(s)
    except ValueError:
        return 0


def _call(kind, ref, pred, r=None, p=None, inner=False):
    from panoptica.metrics import Metric
    if inner:
        from panoptica.metrics import _compute_dice_coefficient, _compute_iou, _compute_relative_volume_difference
        f = {"DSC": _compute_dice_coefficient, "IOU": _compute_iou, "RVD": _compute_relative_volume_difference}[kind]
        return f(ref, pred)
    if r is None:
        return Metric[kind](ref, pred)
    return Metric[kind](ref, pred, r, p)


def _spec(kind, X, Y):
    return SM.metric(kind, X, Y, 1)


def metric(params):
    kind, mode, dtype = params["kind"], params["mode"], params["dtype"]
    vox = params["voxels"]
    n = max(1, len(vox))
    if mode in ("bool", "binary"):
        ref = np.array([_val(v.get("Rm")) for v in vox] or [0], dtype=bool if mode == "bool" else dtype)
        pred = np.array([_val(v.get("Pm")) for v in vox] or [0], dtype=bool if mode == "bool" else dtype)
        X, Y = SM.vox(ref), SM.vox(pred)
        args = (None, None)
    else:
        info = np.iinfo(dtype)
        clip = lambda x: int(min(max(x, info.min), info.max))
        ref = np.array([clip(_val(v.get("R"))) for v in vox] or [0], dtype=dtype)
        pred = np.array([clip(_val(v.get("P"))) for v in vox] or [0], dtype=dtype)
        if mode == "label":
            X, Y = SM.vox(ref != 0), SM.vox(pred != 0)
            args = (None, None)
        else:
            r = params["r"]
            if mode == "sel-int":
                ps = [params["p"]]
                parg = params["p"]
            elif mode == "sel-list":
                ps = [params["p"], params["p2"]]
                parg = list(ps)
            else:
                ps = sorted({clip(_val(v.get("P"))) for v in vox if _val(v.get("S_pred(P)")) == 1})
                parg = list(ps) if ps else [info.max]
                ps = parg
            X, Y = SM.vox(ref == r), SM.vox(np.isin(pred, ps))
            args = (r, parg)
    before = (ref.copy(), pred.copy())
    want = _spec(kind, X, Y)
    bad = []
    try:
        got = _call(kind, ref, pred, args[0], args[1], inner=params.get("inner", False))
        if not _close(got, want):
            bad.append(f"{kind}={got} expected {want}")
    except ZeroDivisionError as e:
        if want is not None:
            bad.append(f"raised {e} although the quotient is defined ({want})")
    except Exception as e:
        bad.append(f"raised {type(e).__name__}: {e}"[:160])
    if not (np.array_equal(before[0], ref) and np.array_equal(before[1], pred)):
        bad.append("caller array modified")
    return {"violated": bool(bad), "problems": bad, "ref": ref.tolist(), "pred": pred.tolist(), "args": [str(a) for a in args]}


def bounded(params):
    """all pairs of small label arrays x labels x selection modes against the set formulas."""
    from panoptica.metrics import Metric
    tier, seed = params.get("tier", "quick"), int(params.get("seed", 0))
    rng = random.Random(seed)
    shapes = [(4,), (2, 2)] if tier == "quick" else [(5,), (2, 3), (2, 2, 2)]
    failures, evals, nontriv = [], 0, 0
    for shape in shapes:
        n = int(np.prod(shape))
        all_arrs = list(itertools.product(range(3), repeat=n))
        pairs = [(a, b) for a in all_arrs for b in all_arrs]
        if tier == "quick" or len(pairs) > 6000:
            rng.shuffle(pairs)
            pairs = pairs[: (400 if tier == "quick" else 6000)]
        for a, b in pairs:
            for dtype in ("uint8", "int32") if tier != "quick" else ("uint8",):
                ref = np.array(a, dtype=dtype).reshape(shape)
                pred = np.array(b, dtype=dtype).reshape(shape)
                cases = [("sel", 1, 1), ("sel", 1, [1, 2]), ("sel", 2, [2]), ("sel", 1, 3), ("nosel", None, None),
                         # labels that do not occur because they do not fit the array's dtype select nothing
                         ("sel", 1, 257), ("sel", 1, [2, 257]), ("sel", 2, -255)]
                for kind in ("DSC", "IOU", "RVD"):
                    for mode, r, p in cases:
                        evals += 1
                        if mode == "sel":
                            X = SM.vox(ref == r)
                            Y = SM.vox(np.isin(pred.astype(np.int64), p if isinstance(p, list) else [p]))
                            rr, pp = ref, pred
                        else:
                            rr, pp = (ref != 0), (pred != 0)
                            X, Y = SM.vox(rr), SM.vox(pp)
                        want = SM.metric(kind, X, Y, ref.ndim)
                        if X and Y:
                            nontriv += 1
                        try:
                            got = Metric[kind](rr, pp, r, p) if mode == "sel" else Metric[kind](rr, pp)
                            ok = _close(got, want)
                            if ok and kind in ("DSC", "IOU") and want is not None:
                                sym = Metric[kind](pp, rr, None, None) if mode != "sel" else None
                                if sym is not None and not _close(sym, want):
                                    ok = False
                        except ZeroDivisionError:
                            ok = want is None
                        except Exception as e:
                            ok = False
                            got = f"raised {type(e).__name__}: {e}"[:120]
                        if not ok and len(failures) < 5:
                            failures.append({"input": {"ref": ref.tolist(), "pred": pred.tolist(), "kind": kind, "r": r, "p": p, "dtype": dtype},
                                             "problems": [f"{kind}={got} expected {want}"], "replay_kind": "c06.e2e"})
    ll = longlists({})
    evals += 1
    for pb in ll["problems"][:2]:
        failures.append({"input": {"case": "long prediction-label list"}, "problems": [pb], "replay_kind": "c06.longlists"})
    return {"evaluations": evals, "distinct_nontrivial": nontriv, "failures": failures,
            "rule": "pairs of label arrays over {0,1,2} of shape (4,),(2,2) [thorough: (5,),(2,3),(2,2,2), two dtypes] x {DSC,IOU,RVD} x {no selection, int label, label list, absent label}; non-trivial = both selected sets non-empty",
            "bound": "<= 8 voxels, 3 labels; quick 400 seeded pairs per shape"}


def cldice(params):
    """clDice glue on canned 2-D / 3-D inputs against the statement's formula computed with the same (assumed) skeletons."""
    from panoptica.metrics import Metric
    from skimage.morphology import skeletonize, skeletonize_3d
    bad = []
    rng = np.random.RandomState(3)
    cases = []
    a = np.zeros((9, 9), bool); a[2:7, 1:8] = True
    b = np.zeros((9, 9), bool); b[3:8, 2:9] = True
    cases.append((a, b))
    c = np.zeros((7, 7, 9), bool); c[2:5, 2:5, 1:8] = True
    d = np.zeros((7, 7, 9), bool); d[2:5, 3:6, 2:9] = True
    cases += [(c, d), (c, c)]
    for X, Y in cases:
        sk = skeletonize if X.ndim == 2 else skeletonize_3d
        SX, SY = sk(X) > 0, sk(Y) > 0
        if SX.sum() == 0 or SY.sum() == 0:
            continue
        tprec = (Y & SX).sum() / SX.sum()
        tsens = (X & SY).sum() / SY.sum()
        if tprec + tsens == 0:
            continue
        want = 2 * tprec * tsens / (tprec + tsens)
        for form in ("bool", "labels"):
            if form == "bool":
                got = Metric.clDSC(X, Y)
            else:
                got = Metric.clDSC(X.astype(np.uint8) * 3, Y.astype(np.uint8) * 5, 3, 5)
            if not abs(got - want) <= 1e-9:
                bad.append(f"clDice {X.ndim}-D ({form}) = {got}, harmonic mean of skeleton coverage = {want}")
    return {"violated": bool(bad), "problems": bad}


def longlists(params):
    """label selection with a LONG list of prediction labels (one reference matched to many fragments), incl. a far-away absent label
    and float-typed label maps: the selected voxels must be exactly those whose label is in the list"""
    rng = np.random.RandomState(2)
    bad = []
    for kind in (params.get("kind", "DSC"), "IOU"):
        for dt in (np.uint16, np.int32, np.float64):
            for n_lab in (8, 30, 60):
                arr = np.zeros((6, 40), dt)
                ref = np.zeros((6, 40), dt)
                ref[1:5, 2:38] = 1
                for l in range(2, 2 + n_lab):
                    c = (l * 7) % 36
                    arr[rng.randint(0, 6), c:c + 2] = l
                arr[0, 0] = 3000  # a label that is NOT in the list
                arr[5, 39] = 1
                labels = list(range(2, 2 + n_lab)) + [100000]
                X, Y = SM.vox(ref == 1), SM.vox(np.isin(arr, labels))
                want = _spec(kind, X, Y)
                try:
                    got = _call(kind, ref, arr, 1, labels)
                except Exception as e:
                    bad.append(f"{kind} {np.dtype(dt).name} {n_lab} labels: raised {type(e).__name__}: {e}"[:160])
                    continue
                if not _close(got, want):
                    bad.append(f"{kind} on {np.dtype(dt).name} maps with a list of {len(labels)} prediction labels: {got} expected {want}")
    return {"violated": bool(bad), "problems": bad[:4]}
