"""C14 replays / bounded stand-in on the real merge matcher."""
from fractions import Fraction
import random
import numpy as np
from .util import serial_pools, canonical_label_arrays
from spec import metrics as SM

WC = "merge test ignores the metric direction (ASSD): a merge that worsens the score is accepted"


def _run_stubbed(metric, thr, pairs, delta_sign):
    """real _match_instances; candidate scorer stubbed by contract; the combined score of a merge is
    stubbed to be (seed score of that reference) moved by delta in the given direction:
    delta_sign=+1 strictly better in the metric's preferred direction, 0 equal, -1 strictly worse."""
    import panoptica.instance_matcher as IM
    from panoptica.metrics import Metric
    from panoptica.utils.processing_pair import UnmatchedInstancePair
    dec = SM.DECREASING[metric]
    fl = [(float(s), (r, p)) for s, r, p in pairs]
    cur = {}
    calls = []
    orig = IM._calc_matching_metric_of_overlapping_labels
    IM._calc_matching_metric_of_overlapping_labels = lambda *a, **k: list(fl)
    m = IM.MaximizeMergeMatching(matching_metric=Metric[metric], matching_threshold=float(thr))
    state = {}

    def stub(pred_labels, new_pred_label, ref_label, pair):
        base = state["score_of_ref"](ref_label)
        d = 0.125 * delta_sign * (-1 if dec else 1)
        v = base + d
        calls.append((ref_label, new_pred_label, base, v))
        state.setdefault("last", {})[ref_label] = v
        return v
    # book-kept score = seed score (first accepted single candidate) or last accepted merge value
    def score_of_ref(r):
        if r in state.get("accepted", {}):
            return state["accepted"][r]
        for s, (rr, pp) in fl:
            if rr == r and SM.beats(metric, s, float(thr)):
                return s
        return 0.0
    state["score_of_ref"] = score_of_ref
    m.new_combination_score = stub
    exc, lm = None, None
    try:
        lm = dict(m._match_instances(UnmatchedInstancePair(np.zeros(1, np.uint8), np.zeros(1, np.uint8))).labelmap)
    except Exception as e:
        exc = f"{type(e).__name__}: {str(e)[:80]}"
    finally:
        IM._calc_matching_metric_of_overlapping_labels = orig
    return lm, exc, calls


def merge(params):
    metric = params["metric"]
    thr = Fraction(params["thr"])
    model_pairs = [(Fraction(s), int(r), int(p)) for s, r, p in params.get("pairs", [])]
    dec = SM.DECREASING[metric]
    s1 = float(thr)
    canon = [(s1, 1, 1), (s1 + (0.25 if dec else -0.25) if False else s1, 1, 2)]
    bad = []
    for name, pairs in (("model", model_pairs), ("canonical", [(Fraction(s1), 1, 1), (Fraction(s1), 1, 2)])):
        if not pairs:
            continue
        for sign, label in ((-1, "strictly worse"), (0, "equal")):
            lm, exc, calls = _run_stubbed(metric, thr, pairs, sign)
            if exc:
                bad.append(f"{name}: raised {exc}")
                continue
            for (r, p, base, v) in calls:
                if lm.get(p) == r:
                    bad.append(f"{name}: prediction {p} merged into reference {r} although the combined score {v} is {label} than before ({base}) for {metric}")
        lm, exc, calls = _run_stubbed(metric, thr, pairs, +1)
        if exc:
            bad.append(f"{name}: raised {exc}")
    return {"violated": bool(bad), "problems": bad[:6], "witness_class": WC if any("merged into" in b for b in bad) and dec else None}


def _combined(metric, ref, pred, r, ps):
    X = set(map(tuple, np.argwhere(ref == r)))
    Y = set(map(tuple, np.argwhere(np.isin(pred, list(ps)))))
    return SM.metric(metric, X, Y, ref.ndim)


def check_merge_result(metric, thr, pred, ref, lm):
    bad = []
    P, Rr = SM.instances(pred), SM.instances(ref)
    by_ref = {}
    for p, r in lm.items():
        by_ref.setdefault(r, []).append(p)
    for r, ps in by_ref.items():
        singles = [float(SM.metric(metric, Rr[r], P[p], ref.ndim)) for p in ps if Rr[r] & P[p]]
        if len(singles) != len(ps):
            bad.append(f"reference {r}: assigned prediction does not overlap it")
        if not any(SM.beats(metric, s, thr) for s in singles):
            bad.append(f"reference {r} matched although no single assigned prediction meets the threshold")
            continue
        final = float(_combined(metric, ref, pred, r, ps))
        # best single candidate among all overlapping predictions of r that ended up with r or unassigned
        cands = [float(SM.metric(metric, Rr[r], P[p], ref.ndim)) for p in P if Rr[r] & P[p] and lm.get(p, r) == r]
        best = min(cands) if SM.DECREASING[metric] else max(cands)
        if not SM.better_eq(metric, final + (0 if True else 0), best - 1e-12 if not SM.DECREASING[metric] else best + 1e-12):
            bad.append(f"reference {r}: final combined {metric} {final} is worse than its best single candidate {best}")
        if not SM.beats(metric, final, thr):
            bad.append(f"reference {r}: final combined score {final} misses the threshold {thr}")
    return bad


def bounded(params):
    serial_pools()
    from panoptica.instance_matcher import MaximizeMergeMatching
    from panoptica.metrics import Metric
    from panoptica.utils.processing_pair import UnmatchedInstancePair
    tier, seed = params.get("tier", "quick"), int(params.get("seed", 0))
    rng = random.Random(seed)
    L = 7
    preds = canonical_label_arrays(L, 3)
    refs = [a for a in canonical_label_arrays(L, 2)]
    pairs = [(a, b) for a in preds for b in refs if any(a) and any(b)]
    rng.shuffle(pairs)
    pairs = pairs[: (150 if tier == "quick" else 3000)]
    thr_by = {"IOU": [0.3, 0.5], "DSC": [0.5, 0.7], "ASSD": [0.5, 1.0, 2.0]}
    failures, evals, nontriv = [], 0, 0
    shared = {}  # one matcher object per configuration, REUSED for every pair (as an evaluator does across subjects): no state may carry over
    for a, b in pairs:
        pa, ra = np.array(a, np.uint8), np.array(b, np.uint8)
        for metric in ("IOU", "DSC", "ASSD"):
            for thr in thr_by[metric]:
                evals += 1
                try:
                    mt_ = shared.setdefault((metric, thr), MaximizeMergeMatching(Metric[metric], thr))
                    lm = dict(mt_._match_instances(UnmatchedInstancePair(pa.copy(), ra.copy())).labelmap)
                    bad = check_merge_result(metric, thr, pa, ra, lm)
                    lm_fresh = dict(MaximizeMergeMatching(Metric[metric], thr)._match_instances(UnmatchedInstancePair(pa.copy(), ra.copy())).labelmap)
                    if lm != lm_fresh:
                        bad.append(f"a reused matcher object gives {lm}, a fresh one {lm_fresh}: the result depends on earlier calls")
                    if len(set(lm.values())) < len(lm):
                        nontriv += 1
                except Exception as e:
                    bad = [f"raised {type(e).__name__}: {e}"[:160]]
                    lm = None
                if bad and len(failures) < 5:
                    failures.append({"input": {"pred": list(a), "ref": list(b), "metric": metric, "thr": thr}, "problems": bad, "labelmap": lm,
                                     "witness_class": WC if metric == "ASSD" and any("worse than" in x for x in bad) else None, "replay_kind": "c14.e2e"})
    return {"evaluations": evals, "distinct_nontrivial": nontriv, "failures": failures,
            "rule": "seeded 1-D instance-map pairs (length 7, pred <=3 labels, ref <=2 labels, canonical) x {IOU,DSC,ASSD} x thresholds through the real merge matcher; non-trivial = at least one merge happened",
            "bound": "length 7; quick 150 pairs, thorough 3000"}


def bounded_fn(params):
    """Function-level bounded check: the real MaximizeMergeMatching._match_instances with its two callee
    contracts stubbed (candidate scorer -> given best-first list; combined score -> a table over prediction
    subsets), enumerated exhaustively over a small score grid.  The oracle tracks the *true* combined score of
    each reference and checks the statement: every merge strictly improves it, final >= seed, final meets thr."""
    import itertools
    import panoptica.instance_matcher as IM
    from panoptica.metrics import Metric
    from panoptica.utils.processing_pair import UnmatchedInstancePair
    tier = params.get("tier", "quick")
    grid = [0.25, 0.5, 0.75] if tier == "quick" else [0.2, 0.4, 0.6, 0.8]
    failures, evals, nontriv = [], 0, 0
    pair = UnmatchedInstancePair(np.zeros(1, np.uint8), np.zeros(1, np.uint8))
    subsets = [frozenset(s) for k in (2, 3) for s in itertools.combinations((1, 2, 3), k)]
    orig = IM._calc_matching_metric_of_overlapping_labels
    try:
        for metric in ("IOU", "ASSD"):
            dec = SM.DECREASING[metric]
            for singles in itertools.product(grid, repeat=3):
                order = sorted(range(3), key=lambda i: singles[i], reverse=not dec)
                cand = [(singles[i], (1, i + 1)) for i in order]
                for cs_vals in itertools.product(grid, repeat=len(subsets)):
                    cs = dict(zip(subsets, cs_vals))
                    for thr in grid[:2] + [grid[-1]]:
                        evals += 1
                        IM._calc_matching_metric_of_overlapping_labels = lambda *a, **k: list(cand)
                        m = IM.MaximizeMergeMatching(Metric[metric], thr)
                        m.new_combination_score = lambda pls, npl, rl, pr: cs[frozenset(list(pls) + [npl])]
                        try:
                            lm = dict(m._match_instances(pair).labelmap)
                        except Exception as e:
                            lm = None
                            bad = [f"raised {type(e).__name__}: {e}"[:100]]
                        if lm is not None:
                            bad = []
                            ps = frozenset(lm)
                            if ps:
                                nontriv += 1 if len(ps) > 1 else 0
                                true = singles[next(iter(ps)) - 1] if len(ps) == 1 else cs[ps]
                                if not any(SM.beats(metric, singles[p - 1], thr) for p in ps):
                                    bad.append("matched although no single assigned prediction meets the threshold")
                                # replay the merge order: seed = first candidate in order that is in ps, then each later one
                                seq = [p for (_, (_, p)) in cand if p in ps]
                                cur = singles[seq[0] - 1]
                                acc = {seq[0]}
                                for p in seq[1:]:
                                    new = cs[frozenset(acc | {p})]
                                    if not (new < cur if dec else new > cur):
                                        bad.append(f"prediction {p} merged although the combined score {new} is not strictly better than {cur}")
                                    cur, acc = new, acc | {p}
                                if not SM.better_eq(metric, true, singles[seq[0] - 1]):
                                    bad.append(f"final score {true} worse than the seeding candidate {singles[seq[0] - 1]}")
                                if not SM.beats(metric, true, thr):
                                    bad.append(f"final score {true} misses the threshold {thr}")
                        if bad and len(failures) < 4:
                            failures.append({"input": {"metric": metric, "singles": singles, "combined": {str(sorted(k)): v for k, v in cs.items()}, "thr": thr},
                                             "problems": bad[:3], "labelmap": lm, "replay_kind": "c14.fn",
                                             "witness_class": WC if dec and any("not strictly better" in b for b in bad) and False else None})
                        if len(failures) >= 4:
                            break
                    if len(failures) >= 4:
                        break
                if len(failures) >= 4:
                    break
    finally:
        IM._calc_matching_metric_of_overlapping_labels = orig
    return {"evaluations": evals, "distinct_nontrivial": nontriv, "failures": failures, "exhaustive": True,
            "rule": "one reference, three candidate predictions: all single scores and all combined scores of prediction subsets over a score grid x thresholds x {IOU, ASSD}; real _match_instances with stubbed callee contracts; non-trivial = a merge happened",
            "bound": f"3 predictions, grid {grid}"}


def reuse(params):
    """one matcher object used for several pairs, also from two threads at once, gives what fresh matchers give"""
    serial_pools()
    import threading
    from panoptica.instance_matcher import MaximizeMergeMatching
    from panoptica.metrics import Metric
    from panoptica.utils.processing_pair import UnmatchedInstancePair
    bad = []
    pairs = [(np.array([1, 1, 2, 2, 0, 3, 0, 0], np.uint8), np.array([1, 1, 1, 1, 0, 2, 2, 0], np.uint8)),
             (np.array([1, 0, 0, 2, 2, 2, 0, 0], np.uint8), np.array([1, 1, 1, 1, 0, 0, 0, 0], np.uint8)),
             (np.array([0, 1, 1, 1, 2, 0, 0, 0], np.uint8), np.array([0, 1, 1, 1, 1, 0, 0, 0], np.uint8))]
    for metric, thr in (("IOU", 0.3), ("DSC", 0.5), ("ASSD", 1.0)):
        fresh = [dict(MaximizeMergeMatching(Metric[metric], thr)._match_instances(UnmatchedInstancePair(p.copy(), r.copy())).labelmap) for p, r in pairs]
        shared = MaximizeMergeMatching(Metric[metric], thr)
        seq = [dict(shared._match_instances(UnmatchedInstancePair(p.copy(), r.copy())).labelmap) for p, r in pairs]
        if seq != fresh:
            bad.append(f"{metric}: a reused matcher gives {seq}, fresh matchers {fresh}")
        before = dict(vars(shared))
        res = {}

        def work(i):
            for _ in range(30):
                res[i] = dict(shared._match_instances(UnmatchedInstancePair(pairs[i][0].copy(), pairs[i][1].copy())).labelmap)
                if res[i] != fresh[i]:
                    break
        ts = [threading.Thread(target=work, args=(i,)) for i in range(len(pairs))]
        [t.start() for t in ts]; [t.join() for t in ts]
        for i in range(len(pairs)):
            if res.get(i) != fresh[i]:
                bad.append(f"{metric}: two threads sharing one matcher: pair {i} gives {res.get(i)}, a fresh matcher {fresh[i]}")
        if set(vars(shared)) != set(before):
            bad.append(f"{metric}: matching added attributes {sorted(set(vars(shared)) - set(before))} to the matcher object")
    return {"violated": bool(bad), "problems": bad[:3]}
