"""C15 replays / bounded stand-in: purity of evaluation on the real evaluator."""
import os, random, tempfile, itertools
import numpy as np
from .util import serial_pools
from .c12 import _resdict

WC_D3 = "per-call save_group_times=True on an evaluator built with save_group_times=False raises UnboundLocalError(start_time)"
WC_D4 = "aggregator appends computation_time to the evaluator's cached metric-key list"


def _mk(input_type, grouped, **ctor):
    from panoptica import Panoptica_Evaluator, InputType, NaiveThresholdMatching, ConnectedComponentsInstanceApproximator
    from panoptica.utils.segmentation_class import SegmentationClassGroups
    from panoptica.utils.label_group import LabelGroup
    from panoptica.metrics import Metric
    from panoptica.utils.label_group import LabelMergeGroup
    if grouped == "merge":
        groups = SegmentationClassGroups({"all": LabelMergeGroup([1, 2, 3, 4])})
    else:
        groups = SegmentationClassGroups({"a": LabelGroup([1, 2, 3]), "b": LabelGroup([4], single_instance=True)}) if grouped else None
    return Panoptica_Evaluator(expected_input=InputType[input_type], instance_approximator=ConnectedComponentsInstanceApproximator(),
                               instance_matcher=NaiveThresholdMatching(), segmentation_class_groups=groups,
                               instance_metrics=[Metric.DSC, Metric.IOU, Metric.ASSD, Metric.RVD], global_metrics=[Metric.DSC], **ctor)


PRED = np.array([0, 1, 1, 2, 2, 0, 3, 3, 4, 4, 0, 0], np.uint8)
REF = np.array([0, 1, 1, 1, 2, 0, 0, 3, 4, 0, 4, 0], np.uint8)


def _metric_values(res):
    """every metric value by attribute access (lazy metrics are computed on demand, so this does not depend on result_all)"""
    out = {}
    for k in res._evaluation_metrics:
        try:
            v = getattr(res, k)
        except Exception as e:
            v = f"<{type(e).__name__}>"
        out[k] = None if v is None else (("nan" if float(v) != float(v) else round(float(v), 9)) if isinstance(v, (int, float, np.integer, np.floating)) else str(v))
    return out


def _results(ev, pred, ref, **kw):
    out = ev.evaluate(pred, ref, **kw)
    return {g: _metric_values(r[0]) for g, r in out.items()}


def options(params):
    serial_pools()
    it, grouped = params["input_type"], params["grouped"]
    bad = []
    base = _results(_mk(it, grouped), PRED.copy(), REF.copy(), verbose=False)
    p, r = PRED.copy(), REF.copy()
    wc = None
    try:
        ev = _mk(it, grouped, **params["ctor"])
        got = _results(ev, p, r, **{k: v for k, v in params["call"].items()})
        if got != base:
            bad.append("reported metrics depend on logging/timing options: " + str({g: {k: (base[g].get(k), got[g].get(k)) for k in base[g] if base[g].get(k) != got[g].get(k)} for g in base})[:300])
    except Exception as e:
        bad.append(f"raised {type(e).__name__}: {e}"[:200])
        if isinstance(e, UnboundLocalError):
            wc = WC_D3
    if not (np.array_equal(p, PRED) and np.array_equal(r, REF)):
        bad.append("caller array modified")
    return {"violated": bool(bad), "problems": bad, "witness_class": wc}


def keys(params):
    serial_pools()
    from panoptica import Panoptica_Aggregator
    bad = []
    ev = _mk("MATCHED_INSTANCE", False)
    before = list(ev.resulting_metric_keys)
    with tempfile.TemporaryDirectory() as d:
        Panoptica_Aggregator(ev, os.path.join(d, "out.tsv"), log_times=True)
        after = list(ev.resulting_metric_keys)
        if after != before:
            bad.append(f"resulting_metric_keys changed through use: gained {[k for k in after if k not in before]}")
        ev.resulting_metric_keys.append("junk")
        if list(ev.resulting_metric_keys) != before:
            bad.append("mutating the returned key list changes the evaluator's advertised keys")
    # the advertised keys do not depend on what the evaluator was used for BEFORE they were first asked for
    ref_keys = list(_mk("MATCHED_INSTANCE", False).resulting_metric_keys)
    a = np.array([0, 1, 1, 2, 2, 0], np.uint8)
    for first in ({"result_all": False}, {"empty_pred": True}, {}):
        ev2 = _mk("MATCHED_INSTANCE", False)
        try:
            ev2.evaluate(np.zeros_like(a) if first.get("empty_pred") else a.copy(), a.copy(), result_all=first.get("result_all", True), verbose=False)
        except Exception as e:
            bad.append(f"evaluate raised {type(e).__name__}: {e}"[:120])
        k2 = list(ev2.resulting_metric_keys)
        if k2 != ref_keys:
            bad.append(f"resulting_metric_keys depends on the first call ({first}): {len(k2)} keys instead of {len(ref_keys)}; missing {[k for k in ref_keys if k not in k2][:5]}")
    # the advertised keys are the keys of the evaluator's OWN results, whatever other evaluators exist in the process
    from panoptica import Panoptica_Evaluator, InputType
    from panoptica.metrics import Metric
    evs = [Panoptica_Evaluator(expected_input=InputType.MATCHED_INSTANCE, instance_metrics=im, global_metrics=gm)
           for im, gm in (([Metric.DSC, Metric.IOU], [Metric.DSC]), ([Metric.DSC], [Metric.IOU, Metric.DSC]), ([Metric.DSC], [Metric.DSC]))]
    adv = [list(e_.resulting_metric_keys) for e_ in evs]
    for e_, k_ in zip(evs, adv):
        own = list(e_.evaluate(a.copy(), a.copy(), verbose=False)["ungrouped"][0].to_dict().keys())
        if sorted(own) != sorted(k_):
            bad.append(f"an evaluator advertises {len(k_)} keys but its own result has {len(own)}: differing {sorted(set(own) ^ set(k_))[:4]} (keys shared with another evaluator?)")
    wc = WC_D4 if bad and all("gained" in b or "mutating" in b for b in bad) else None
    return {"violated": bool(bad), "problems": bad[:4], "witness_class": wc}


def bounded(params):
    """histories: shared evaluators, interleaved construction of evaluators/aggregators, all option combinations, real Pool vs serial."""
    tier, seed = params.get("tier", "quick"), int(params.get("seed", 0))
    rng = random.Random(seed)
    failures, evals, nontriv = [], 0, 0
    from panoptica import Panoptica_Aggregator
    inputs = [(PRED, REF), (REF, PRED), (np.zeros(12, np.uint8), REF), (np.array([0, 1, 1, 1, 1, 0, 2, 2, 0, 0, 3, 3], np.uint8), np.array([0, 1, 1, 0, 1, 1, 2, 2, 2, 0, 0, 3], np.uint8))]
    # 1. real Pool vs serial shim
    import importlib
    import panoptica._functionals as F, panoptica.instance_evaluator as E
    real_pools = (F.Pool, E.Pool)
    pool_res = {}
    for it in ("UNMATCHED_INSTANCE", "MATCHED_INSTANCE"):
        pool_res[it] = _results(_mk(it, False), PRED.copy(), REF.copy(), verbose=False)
        evals += 1
    serial_pools()
    for it in ("UNMATCHED_INSTANCE", "MATCHED_INSTANCE"):
        s = _results(_mk(it, False), PRED.copy(), REF.copy(), verbose=False)
        evals += 1
        if s != pool_res[it]:
            failures.append({"input": {"input_type": it}, "problems": ["results differ between worker processes and serial execution"], "replay_kind": "c15.pool"})
    # 2. fresh-evaluator baselines
    base = {}
    for it in ("SEMANTIC", "UNMATCHED_INSTANCE", "MATCHED_INSTANCE"):
        for grouped in (False, True, "merge"):
            for i, (p, r) in enumerate(inputs):
                base[(it, grouped, i)] = _results(_mk(it, grouped), p.copy(), r.copy(), verbose=False)
    # 3. histories on shared evaluators
    flag_vals = [None, True, False]
    n_hist = 6 if tier == "quick" else 40
    for h in range(n_hist):
        it = rng.choice(["SEMANTIC", "UNMATCHED_INSTANCE", "MATCHED_INSTANCE"])
        grouped = rng.choice([False, True, "merge"])
        ctor = {"save_group_times": rng.random() < 0.5, "log_times": rng.random() < 0.3, "verbose": False}
        ev = _mk(it, grouped, **ctor)
        keys0 = list(ev.resulting_metric_keys)
        with tempfile.TemporaryDirectory() as d:
            cfg0 = os.path.join(d, "cfg0.yaml"); ev.save_to_config(cfg0); cfg_text0 = open(cfg0).read()
            for step in range(5 if tier == "quick" else 8):
                act = rng.choice(["eval", "eval", "eval", "new_eval", "aggregator"])
                if act == "new_eval":
                    _mk(rng.choice(["SEMANTIC", "MATCHED_INSTANCE"]), rng.random() < 0.5)
                    continue
                if act == "aggregator":
                    try:
                        Panoptica_Aggregator(ev, os.path.join(d, f"agg{step}.tsv"), log_times=rng.random() < 0.7)
                    except Exception as e:
                        failures.append({"input": {"history": h, "step": step}, "problems": [f"aggregator construction raised {type(e).__name__}: {e}"[:160]], "replay_kind": "c15.history"})
                    continue
                i = rng.randrange(len(inputs))
                p, r = inputs[i][0].copy(), inputs[i][1].copy()
                call = {"result_all": rng.random() < 0.7, "save_group_times": rng.choice(flag_vals), "log_times": rng.choice([None, False]), "verbose": False}
                evals += 1
                nontriv += 1
                bad, wc = [], None
                try:
                    got = _results(ev, p, r, **call)
                    if got != base[(it, grouped, i)]:
                        bad.append("result differs from a fresh evaluator's result (history/option dependence)")
                except Exception as e:
                    bad.append(f"raised {type(e).__name__}: {e}"[:160])
                    if isinstance(e, UnboundLocalError):
                        wc = WC_D3
                if not (np.array_equal(p, inputs[i][0]) and np.array_equal(r, inputs[i][1])):
                    bad.append("caller array modified")
                if bad and len(failures) < 6:
                    failures.append({"input": {"input_type": it, "grouped": grouped, "ctor": ctor, "call": call, "input_index": i}, "problems": bad, "witness_class": wc, "replay_kind": "c15.options"})
            if list(ev.resulting_metric_keys) != keys0 and len(failures) < 8:
                failures.append({"input": {"history": h}, "problems": ["resulting_metric_keys changed through use"], "witness_class": WC_D4, "replay_kind": "c15.keys"})
            cfg1 = os.path.join(d, "cfg1.yaml"); ev.save_to_config(cfg1)
            if open(cfg1).read() != cfg_text0 and len(failures) < 8:
                failures.append({"input": {"history": h}, "problems": ["saved configuration changed through use"], "replay_kind": "c15.history"})
    # more matched instances than CPU cores, and not a multiple of the core count: real worker pool vs serial map
    import os as _os
    n_inst = 2 * (_os.cpu_count() or 4) + 3
    big_p = np.zeros(3 * n_inst + 2, np.uint16); big_r = np.zeros_like(big_p)
    for i_ in range(n_inst):
        big_p[3 * i_ + 1: 3 * i_ + 3] = i_ + 1
        big_r[3 * i_ + 1: 3 * i_ + 2 + (i_ % 2)] = i_ + 1
    F.Pool, E.Pool = real_pools
    try:
        with_pool = _results(_mk("MATCHED_INSTANCE", False), big_p.copy(), big_r.copy())
    except Exception as e_:
        with_pool = {"raised": f"{type(e_).__name__}: {e_}"[:120]}
    serial_pools()
    serial = _results(_mk("MATCHED_INSTANCE", False), big_p.copy(), big_r.copy())
    evals += 1
    ser_u = serial.get("ungrouped", {})
    if ser_u.get("tp") != n_inst and len(failures) < 8:
        failures.append({"input": {"instances": n_inst, "cores": _os.cpu_count()}, "problems": [f"{n_inst} matched instances (every label present in both maps) but tp={ser_u.get('tp')}, fn={ser_u.get('fn')}"], "replay_kind": "c15.options"})
    if with_pool != serial and len(failures) < 8:
        failures.append({"input": {"instances": n_inst, "cores": _os.cpu_count()}, "problems": [f"{n_inst} matched instances: the worker pool gives a different result than the serial map: " + str({k: (serial.get(k), with_pool.get(k)) for k in serial if serial.get(k) != with_pool.get(k)})[:300]], "replay_kind": "c15.options"})
    kr = keys({})
    evals += 1
    for pb in kr["problems"][:2]:
        failures.append({"input": {"case": "advertised metric keys"}, "problems": [pb], "witness_class": kr.get("witness_class"), "replay_kind": "c15.keys"})
    F.Pool, E.Pool = real_pools
    return {"evaluations": evals, "distinct_nontrivial": nontriv, "failures": failures[:6],
            "rule": "seeded histories of evaluate() calls on shared evaluators interleaved with construction of evaluators and aggregators, random per-call/constructor options, 4 inputs x 3 input types x grouped/ungrouped; every result compared with a fresh evaluator's; keys and saved config compared before/after; real Pool vs serial shim",
            "bound": "6 histories x 5 steps (quick), 40 x 8 (thorough)"}


def ctor(params):
    """constructing an evaluator with a decision metric must not change what default-configured evaluators compute or advertise"""
    serial_pools()
    from panoptica import Panoptica_Evaluator
    from panoptica.metrics import Metric
    bad = []
    ev0 = Panoptica_Evaluator()
    keys0 = list(ev0.resulting_metric_keys)
    dm = params.get("decision_metric") or "clDSC"
    for name in ([dm] if dm else []) + ["clDSC", "RVD"]:
        Panoptica_Evaluator(decision_metric=Metric[name], decision_threshold=0.5)
    keys1 = list(Panoptica_Evaluator().resulting_metric_keys)
    if keys1 != keys0:
        bad.append(f"a default evaluator built afterwards advertises different keys: {sorted(set(keys1) ^ set(keys0))}")
    return {"violated": bool(bad), "problems": bad}
