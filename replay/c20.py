"""C20 replays / bounded stand-in: summaries of result tables through the real loader."""
import os, math, random, tempfile, itertools
import numpy as np


def _write(path, groups, metrics, rows):
    import csv
    with open(path, "w", newline="", encoding="utf8") as f:
        w = csv.writer(f, delimiter="\t", lineterminator="\n")
        w.writerow(["subject_name"] + [f"{g}-{m}" for g in groups for m in metrics])
        for name, cells in rows:
            w.writerow([name] + cells)


def _close(a, b):
    return abs(a - b) <= 1e-9 * max(1.0, abs(a), abs(b))


def check_table(groups, metrics, rows):
    from panoptica.panoptica_statistics import Panoptica_Statistic
    bad = []
    with tempfile.TemporaryDirectory() as d:
        p = os.path.join(d, "t.tsv")
        _write(p, groups, metrics, rows)
        st = Panoptica_Statistic.from_file(p)
    col = {}
    ci = 0
    for g in groups:
        for m in metrics:
            vals = []
            for name, cells in rows:
                c = cells[ci]
                v = None
                if c != "":
                    f = float(c)
                    if not (math.isnan(f) or math.isinf(f)):
                        v = f
                vals.append(v)
            col[(g, m)] = vals
            ci += 1
    avgs = {}
    for (g, m), vals in col.items():
        fin = [v for v in vals if v is not None]
        if st.get(g, m, remove_nones=True) != fin:
            bad.append(f"get({g},{m},remove_nones) = {st.get(g, m, remove_nones=True)} expected {fin}")
        if not fin:
            continue
        s = st.get_summary(g, m)
        mean = sum(fin) / len(fin)
        std = math.sqrt(sum((x - mean) ** 2 for x in fin) / len(fin))
        avgs[(g, m)] = mean
        if not (_close(s.avg, mean) and _close(s.std, std) and s.min == min(fin) and s.max == max(fin)):
            bad.append(f"summary({g},{m}) = {s.avg, s.std, s.min, s.max} expected {mean, std, min(fin), max(fin)}")
    for i, (name, cells) in enumerate(rows):
        one = st.get_one_subject(name)
        for (g, m), vals in col.items():
            if [r[0] for r in rows].index(name) == i and one[g][m] != vals[i]:
                bad.append(f"get_one_subject({name})[{g}][{m}] = {one[g][m]} expected {vals[i]}")
    if all((g, m) in avgs for g in groups for m in metrics):
        sd, sd0 = st.get_summary_dict(), st.get_summary_dict(include_across_group=False)
        if sorted(sd.keys()) != sorted(list(groups) + ["across_groups"]) or sorted(sd0.keys()) != sorted(groups):
            bad.append(f"get_summary_dict keys {sorted(sd.keys())} / {sorted(sd0.keys())}")
        else:
            for (g, m), vals in col.items():
                fin = [v for v in vals if v is not None]
                s = sd[g][m]
                if not (_close(s.avg, avgs[(g, m)]) and s.min == min(fin) and s.max == max(fin)):
                    bad.append(f"get_summary_dict()[{g}][{m}] = {s.avg, s.min, s.max}, expected the summary of this group and metric {avgs[(g, m)], min(fin), max(fin)}")
        ac = st.get_summary_across_groups()
        for m in metrics:
            xs = [avgs[(g, m)] for g in groups]
            mean = sum(xs) / len(xs)
            std = math.sqrt(sum((x - mean) ** 2 for x in xs) / len(xs))
            if not (_close(ac[m].avg, mean) and _close(ac[m].std, std) and _close(ac[m].min, min(xs)) and _close(ac[m].max, max(xs))):
                bad.append(f"across groups {m}: {ac[m].avg, ac[m].std, ac[m].min, ac[m].max} expected {mean, std, min(xs), max(xs)}")
    return bad


def _random_table(rng, ng, nm, ns):
    groups = [f"g{i}" for i in range(ng)]
    metrics = [f"m{i}" for i in range(nm)]
    rows = []
    for s in range(ns):
        cells = []
        for _ in range(ng * nm):
            r = rng.random()
            cells.append("" if r < 0.2 else rng.choice(["nan", "nan", "NaN", "-nan"]) if r < 0.3 else rng.choice(["inf", "inf", "Infinity", "+inf", "1e999"]) if r < 0.37 else rng.choice(["-inf", "-Infinity", "-1e999"]) if r < 0.4 else repr(rng.choice([2.5e-05, 3e+16, -1.25e-07, 1e22, 7.0])) if r < 0.5 else repr(round(rng.uniform(-2, 5), 3)))
        rows.append((f"subj{s}", cells))
    return groups, metrics, rows


def e2e(params):
    rng = random.Random(7)
    bad = []
    for _ in range(25):
        g, m, rows = _random_table(rng, rng.randint(1, 3), rng.randint(1, 3), rng.randint(1, 6))
        try:
            b = check_table(g, m, rows)
            # order of subjects is irrelevant for the summaries
            rows2 = list(rows); rng.shuffle(rows2)
            b += check_table(g, m, rows2)
        except Exception as e:
            b = [f"raised {type(e).__name__}: {e}"[:160]]
        if b:
            bad.append({"rows": rows, "problems": b[:3]})
    return {"violated": bool(bad), "problems": bad[:3]}


def bounded(params):
    tier, seed = params.get("tier", "quick"), int(params.get("seed", 0))
    rng = random.Random(seed)
    failures, evals, nontriv = [], 0, 0
    n = 60 if tier == "quick" else 800
    for _ in range(n):
        g, m, rows = _random_table(rng, rng.randint(1, 3), rng.randint(1, 3), rng.randint(1, 7))
        evals += 1
        nontriv += 1 if any(c not in ("", "nan", "inf") for _, cells in rows for c in cells) else 0
        try:
            bad = check_table(g, m, rows)
        except Exception as e:
            bad = [f"raised {type(e).__name__}: {e}"[:160]]
        if bad and len(failures) < 5:
            failures.append({"input": {"groups": g, "metrics": m, "rows": rows}, "problems": bad[:3], "replay_kind": "c20.e2e"})
    # numerically delicate columns: values large against their spread, and a constant that is not a binary fraction (a summary must
    # still be the statistic of the recorded values -- numpy's two-pass np.std is, a one-pass E[x^2]-E[x]^2 is not)
    for cells in (["100000000.0", "100000001.0", "100000002.0"], ["0.7", "0.7", "0.7", "0.7"], ["1e8", "100000000.5", "", "100000001.0"], ["12345678.9", "12345678.9"]):
        rows = [(f"s{i}", [c, "1.0"]) for i, c in enumerate(cells)]
        evals += 1
        nontriv += 1
        try:
            bad = check_table(["g"], ["ma", "mb"], rows)
        except Exception as e:
            bad = [f"raised {type(e).__name__}: {e}"[:160]]
        if bad and len(failures) < 5:
            failures.append({"input": {"groups": ["g"], "metrics": ["ma", "mb"], "rows": rows}, "problems": bad[:3], "replay_kind": "c20.e2e"})
    fr = frame({})
    evals += 1
    for pb in fr["problems"][:2]:
        failures.append({"input": {"case": "read-only queries"}, "problems": [pb], "replay_kind": "c20.frame"})
    return {"evaluations": evals, "distinct_nontrivial": nontriv, "failures": failures,
            "rule": "seeded random tables (1-3 groups, 1-3 metrics, 1-7 subjects, cells missing/nan/inf/finite) written as .tsv and loaded with from_file; get/summary/per-subject/across-groups compared with directly computed statistics; non-trivial = at least one finite value",
            "bound": "<= 3x3x7 tables; quick 60"}


def frame(params):
    """queries are read-only: every answer is the same before and after any other query (incl. get_across_groups, summaries, printing)"""
    import io, contextlib
    from panoptica.panoptica_statistics import Panoptica_Statistic
    bad = []
    groups, metrics = ["ga", "gb", "gc"], ["m1", "m2"]
    rows = [("s0", ["3.0", "1.0", "0.5", "", "9.0", "2.0"]), ("s1", ["1.0", "", "0.25", "4.0", "7.0", "nan"]), ("s2", ["2.0", "5.0", "0.75", "6.0", "8.0", "1.5"])]
    with tempfile.TemporaryDirectory() as d:
        p = os.path.join(d, "t.tsv")
        _write(p, groups, metrics, rows)

        def snapshot(st):
            return {"get": {(g, m, rn): list(st.get(g, m, remove_nones=rn)) for g in groups for m in metrics for rn in (False, True)},
                    "one": {s: st.get_one_subject(s) for s in ("s0", "s1", "s2")}}
        queries = {
            "get_across_groups": lambda st: [st.get_across_groups(m) for m in metrics],
            "get_summary": lambda st: [st.get_summary(g, m) for g in groups for m in metrics],
            "get_summary_dict": lambda st: st.get_summary_dict(),
            "get_summary_across_groups": lambda st: st.get_summary_across_groups(),
            "print_summary": lambda st: st.print_summary(),
        }
        for qn, q in queries.items():
            st = Panoptica_Statistic.from_file(p)
            before = snapshot(st)
            try:
                with contextlib.redirect_stdout(io.StringIO()):
                    q(st)
                    q(st)
            except Exception as e:
                bad.append(f"{qn} raised {type(e).__name__}: {e}"[:160])
                continue
            after = snapshot(st)
            if repr(after) != repr(before):
                diff = [k for k in before["get"] if repr(before["get"][k]) != repr(after["get"][k])] + [k for k in before["one"] if repr(before["one"][k]) != repr(after["one"][k])]
                bad.append(f"after {qn}() the stored table answers differently for {diff[:3]}: e.g. {repr(after['get'].get(diff[0], after['one'].get(diff[0])))[:120]}")
    return {"violated": bool(bad), "problems": bad[:4]}
