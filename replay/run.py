"""Replay / bounded-check dispatcher. Runs under /venv/bin/python (which has
the editable install of /repo, i.e. always imports the working tree).
usage: python -m replay.run <kind>  < json-params  ; prints one JSON line."""
import sys, json, importlib, os, traceback, io, contextlib

def main():
    kind = sys.argv[1]
    params = json.load(sys.stdin)
    modname, _, fn = kind.partition(".")
    buf = io.StringIO()
    try:
        mod = importlib.import_module(f"replay.{modname}")
        with contextlib.redirect_stdout(buf):
            res = getattr(mod, fn or "run")(params)
    except Exception:
        res = {"error": True, "stderr": traceback.format_exc()[-3000:]}
    sys.__stdout__.write(json.dumps(res, default=str) + "\n")

if __name__ == "__main__":
    main()
