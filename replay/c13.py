"""C13 replays / bounded stand-in: global binary metrics on the real PanopticaResult / evaluator."""
import math, random, itertools
import numpy as np
from .util import serial_pools
from .c08 import _handler, ECR_ORDER, ECR_VALUE, same, SCEN
from .c06 import _val
from spec import metrics as SM

WC = "global metrics: emptiness flags passed as instance counts (empty prediction gets the EMPTY_REF value, both empty the NORMAL value)"


def expected(metric, pred, ref, cfg):
    X, Y = SM.vox(ref != 0), SM.vox(pred != 0)
    if not X and not Y:
        return "edge", ECR_VALUE[ECR_ORDER[cfg["NO_INSTANCES"]]]
    if not Y:
        return "edge", ECR_VALUE[ECR_ORDER[cfg["EMPTY_PRED"]]]
    if not X:
        return "edge", ECR_VALUE[ECR_ORDER[cfg["EMPTY_REF"]]]
    return "metric", SM.metric(metric, X, Y, ref.ndim)


def check(metric, pred, ref, cfg, std=1):
    from panoptica.panoptica_result import PanopticaResult
    from panoptica.metrics import Metric
    bad = []
    p0, r0 = pred.copy(), ref.copy()
    try:
        res = PanopticaResult(reference_arr=ref, prediction_arr=pred, num_pred_instances=0, num_ref_instances=0, tp=0, list_metrics={},
                              edge_case_handler=_handler([metric], cfg, std), global_metrics=[Metric[metric]])
        got = getattr(res, f"global_bin_{metric.lower()}")
        kind, want = expected(metric, pred, ref, cfg)
        if kind == "edge":
            if not same(got, want):
                bad.append(f"global_bin_{metric.lower()}={got!r} expected handler value {want!r}")
        elif want is not None and not (abs(float(got) - float(want)) <= 1e-9 * max(1, abs(float(want)))):
            bad.append(f"global_bin_{metric.lower()}={got!r} expected {float(want)!r}")
    except Exception as e:
        bad.append(f"raised {type(e).__name__}: {e}"[:160])
    if not (np.array_equal(p0, pred) and np.array_equal(r0, ref)):
        bad.append("caller array modified")
    return bad


def run_global(params):
    metric, dtype, vox = params["metric"], params["dtype"], params["voxels"]
    info = np.iinfo(dtype)
    clip = lambda x: int(min(max(x, info.min), info.max))
    ref = np.array([clip(_val(v.get("R"))) for v in vox] or [0], dtype=dtype).reshape(-1, 1)
    pred = np.array([clip(_val(v.get("P"))) for v in vox] or [0], dtype=dtype).reshape(-1, 1)
    if metric == "clDSC" and ref.size < 4:
        ref = np.pad(ref, ((0, 3), (0, 2)))
        pred = np.pad(pred, ((0, 3), (0, 2)))
    if metric == "clDSC":
        return {"violated": False, "note": "clDice not replayed (skeleton)"}
    bad = check(metric, pred, ref, params["cfg"], params.get("std", 1))
    return {"violated": bool(bad), "problems": bad, "witness_class": WC if any("handler value" in b for b in bad) else None,
            "pred": pred.ravel().tolist(), "ref": ref.ravel().tolist()}


globals()["global"] = run_global


def bounded(params):
    serial_pools()
    tier, seed = params.get("tier", "quick"), int(params.get("seed", 0))
    rng = random.Random(seed)
    arrs = list(itertools.product(range(3), repeat=4))
    pairs = [(a, b) for a in arrs for b in arrs]
    rng.shuffle(pairs)
    pairs = pairs[: (120 if tier == "quick" else 2500)]
    pairs += [((0, 0, 0, 0), (0, 0, 0, 0)), ((0, 0, 0, 0), (1, 1, 0, 2)), ((2, 1, 0, 0), (0, 0, 0, 0))]
    failures, evals, nontriv = [], 0, 0
    for a, b in pairs:
        for metric in ("DSC", "IOU", "RVD", "ASSD"):
            cfg = {s: (SCEN.index(s) + len(metric)) % 5 for s in SCEN}
            pred, ref = np.array(a, np.uint8).reshape(2, 2), np.array(b, np.uint8).reshape(2, 2)
            evals += 1
            if any(a) and any(b):
                nontriv += 1
            bad = check(metric, pred, ref, cfg)
            if bad and len(failures) < 5:
                failures.append({"input": {"pred": list(a), "ref": list(b), "metric": metric, "cfg": cfg}, "problems": bad,
                                 "witness_class": WC if any("handler value" in x for x in bad) else None, "replay_kind": "c13.e2e"})
    return {"evaluations": evals, "distinct_nontrivial": nontriv, "failures": failures,
            "rule": "2x2 label arrays over {0,1,2} (quick 120 seeded pairs + the three empty scenarios) x {DSC,IOU,RVD,ASSD} with a handler row that distinguishes the scenarios; non-trivial = both foregrounds non-empty",
            "bound": "4 voxels"}
