"""C04 replays / bounded stand-in: relabelling after matching on the real code."""
import random, itertools
import numpy as np
from .util import serial_pools, canonical_label_arrays

WC = "lookup table typed by the input array: fresh label wraps (e.g. uint8 reference label 255 + unmatched prediction)"


def check_relabel(pred, ref, labelmap, out_pred, out_ref):
    """statement clauses; labelmap: dict pred->ref as produced by the matcher."""
    bad = []
    if not np.array_equal(out_ref.astype(np.int64), ref.astype(np.int64)):
        bad.append("reference map changed")
    if not np.array_equal(out_pred != 0, pred != 0):
        bad.append("prediction foreground changed")
    ref_labels = set(np.unique(ref[ref != 0]).tolist())
    new_of = {}
    for p in np.unique(pred[pred != 0]).tolist():
        vals = np.unique(out_pred[pred == p]).tolist()
        if len(vals) != 1:
            bad.append(f"prediction {p} split into labels {vals}")
            continue
        new_of[p] = vals[0]
        if p in labelmap:
            if vals[0] != labelmap[p]:
                bad.append(f"matched prediction {p} carries label {vals[0]}, not its reference label {labelmap[p]}")
        else:
            if vals[0] in ref_labels:
                bad.append(f"unmatched prediction {p} received reference label {vals[0]}")
    for p, q in itertools.combinations(sorted(new_of), 2):
        merged = new_of[p] == new_of[q]
        allowed = p in labelmap and q in labelmap and labelmap[p] == labelmap[q]
        if merged and not allowed:
            bad.append(f"predictions {p} and {q} were merged into label {new_of[p]}")
    return bad


def _run(pred, ref, labelmap):
    from panoptica.instance_matcher import map_instance_labels
    from panoptica.utils.instancelabelmap import InstanceLabelMap
    from panoptica.utils.processing_pair import UnmatchedInstancePair
    lm = InstanceLabelMap()
    for p, r in labelmap.items():
        lm.add_labelmap_entry(int(p), int(r))
    p0, r0 = pred.copy(), ref.copy()
    out = map_instance_labels(UnmatchedInstancePair(pred, ref), lm)
    bad = check_relabel(p0, r0, labelmap, out.prediction_arr, out.reference_arr)
    if not (np.array_equal(p0, pred) and np.array_equal(r0, ref)):
        bad.append("caller array modified")
    return bad


def relabel(params):
    dtype = params["dtype"]
    hi = int(np.iinfo(dtype).max)
    hi = min(hi, 2 ** 24 - 1)
    bad = []
    cases = []
    # reference labels near the dtype maximum / non-consecutive, several unmatched predictions
    for top in (hi, hi - 1, 5, 300 if hi >= 300 else 4):
        ref = np.zeros(16, dtype); ref[0:3] = top; ref[4:6] = 2
        pred = np.zeros(16, dtype); pred[0:3] = 1; pred[8:10] = 7 if hi >= 7 else 3; pred[12:14] = 3; pred[4:6] = 5
        cases.append((pred, ref, {1: top, 5: 2}))
        cases.append((pred, ref, {1: top}))
        cases.append((pred, ref, {1: top, 3: top}))
    # exhaustive over label NAMES (the routine depends on the arrays only through their label sets): every pair of label sets
    # within {1..4} (at most 3 labels a side) and every label map from prediction labels to reference labels, injective or not
    small = []
    names = [1, 2, 3, 4]
    for np_ in range(1, 4):
        for ps in itertools.combinations(names, np_):
            for nr_ in range(1, 4):
                for rs in itertools.combinations(names, nr_):
                    for img in itertools.product([None] + list(rs), repeat=len(ps)):
                        lm = {p: r for p, r in zip(ps, img) if r is not None}
                        pred = np.zeros(10, dtype); ref = np.zeros(10, dtype)
                        for p in ps:
                            pred[2 * p: 2 * p + 2] = p
                        for r in rs:
                            ref[2 * r - 1: 2 * r + 1] = r
                        small.append((pred, ref, lm))
    if dtype != "uint8":
        random.Random(4).shuffle(small)
        small = small[:1500]
        # the same family with LARGE label names in a small array (sparse label space)
        ren = {1: 700, 2: 900, 3: 901, 4: 65000}
        for pred, ref, lm in small[:400]:
            p2, r2 = pred.astype(dtype), ref.astype(dtype)
            for k, v in ren.items():
                p2[pred == k] = v
                r2[ref == k] = v
            cases.append((p2, r2, {ren[p]: ren[r] for p, r in lm.items()}))
    cases += small
    for pred, ref, lm in cases:
        if len(bad) >= 3:
            break
        try:
            b = _run(pred.copy(), ref.copy(), lm)
        except Exception as e:
            b = [f"raised {type(e).__name__}: {e}"[:160]]
        if b:
            bad.append({"pred": pred.tolist(), "ref": ref.tolist(), "labelmap": lm, "problems": b[:3]})
    wrap_like = any("vanish" in str(x) or "foreground changed" in str(x) or "merged" in str(x) for x in bad)
    return {"violated": bool(bad), "problems": bad[:3], "witness_class": None,
            "note": "searched a family of label maps with reference labels near the dtype maximum and non-consecutive labels"}


def large_labels(params):
    """sparse, very large labels where a prediction id coincides with a reference id that another prediction is mapped to: the returned
    pair must carry exactly the matcher's assignment (a relabelling applied entry after entry to its own output would chain)"""
    serial_pools()
    from panoptica.instance_matcher import NaiveThresholdMatching, MaximizeMergeMatching
    from panoptica.utils.processing_pair import UnmatchedInstancePair
    failures, evals = [], 0
    for big in (3_000_000, 5_000_000):
        for dt_ in ("uint32", "uint64"):
            ref = np.array([1, 1, 1, 1, 0, big, big, big, big, 0, 0, 0], dt_)
            pred = np.array([2, 2, 2, 2, 0, 1, 1, 1, 0, 0, big, 0], dt_)
            for mt_name in ("naive", "many", "merge"):
                mt = {"naive": NaiveThresholdMatching(), "many": NaiveThresholdMatching(matching_threshold=0.2, allow_many_to_one=True), "merge": MaximizeMergeMatching()}[mt_name]
                evals += 1
                try:
                    lm = dict(mt._match_instances(UnmatchedInstancePair(pred.copy(), ref.copy())).labelmap)
                    out = mt.match_instances(UnmatchedInstancePair(pred.copy(), ref.copy()))
                    bad = check_relabel(pred, ref, lm, out.prediction_arr, out.reference_arr)
                except Exception as e:
                    bad = [f"raised {type(e).__name__}: {e}"[:160]]
                if bad and len(failures) < 5:
                    failures.append({"input": {"pred": pred.tolist(), "ref": ref.tolist(), "matcher": mt_name, "dtype": dt_}, "problems": bad[:3], "replay_kind": "c04.e2e"})
    return {"violated": bool(failures), "problems": [f["problems"] for f in failures][:3], "failures": failures, "evaluations": evals}


def bounded(params):
    serial_pools()
    from panoptica.instance_matcher import NaiveThresholdMatching, MaximizeMergeMatching
    from panoptica.utils.processing_pair import UnmatchedInstancePair
    tier, seed = params.get("tier", "quick"), int(params.get("seed", 0))
    rng = random.Random(seed)
    arrs = canonical_label_arrays(6, 3)
    pairs = [(a, b) for a in arrs for b in arrs if any(a) and any(b)]
    rng.shuffle(pairs)
    pairs = pairs[: (200 if tier == "quick" else 4000)]
    failures, evals, nontriv = [], 0, 0
    renames = [lambda x: x, lambda x: {0: 0, 1: 4, 2: 9, 3: 2}[x], lambda x: {0: 0, 1: 254, 2: 255, 3: 7}[x]]
    for a, b in pairs:
        for ren_i, ren in enumerate(renames):
            for mt_name in ("naive", "many", "merge"):
                pred = np.array(a, np.uint8)
                ref = np.array([ren(x) for x in b], np.uint8)
                mt = {"naive": NaiveThresholdMatching(), "many": NaiveThresholdMatching(matching_threshold=0.2, allow_many_to_one=True), "merge": MaximizeMergeMatching()}[mt_name]
                evals += 1
                try:
                    pair = UnmatchedInstancePair(pred.copy(), ref.copy())
                    lm = dict(mt._match_instances(pair).labelmap)
                    out = mt.match_instances(UnmatchedInstancePair(pred.copy(), ref.copy()))
                    bad = check_relabel(pred, ref, lm, out.prediction_arr, out.reference_arr)
                    if len(lm) < len(set(a) - {0}):
                        nontriv += 1
                except Exception as e:
                    bad = [f"raised {type(e).__name__}: {e}"[:160]]
                if bad and len(failures) < 5:
                    failures.append({"input": {"pred": pred.tolist(), "ref": ref.tolist(), "matcher": mt_name}, "problems": bad[:3], "replay_kind": "c04.e2e"})
    ll = large_labels({})
    evals += ll["evaluations"]
    failures += ll["failures"][: max(0, 5 - len(failures))]
    from . import c09 as _c09
    for dt_ in ("uint8", "uint16", "uint32"):
        for res, kind in ((relabel({"dtype": dt_}), "c04.relabel"), (_c09.maplabels({"dtype": dt_}), "c09.maplabels")):
            evals += 1
            for pb in res["problems"][:1]:
                failures.append({"input": {"dtype": dt_, "case": pb}, "problems": [str(pb)[:300]], "replay_kind": kind, "witness_class": res.get("witness_class")})
    return {"evaluations": evals, "distinct_nontrivial": nontriv, "failures": failures,
            "rule": "seeded 1-D instance-map pairs (length 6, <=3 labels) x reference relabelling {identity, non-consecutive, near 255} x {naive, many-to-one, merge}; non-trivial = at least one unmatched prediction",
            "bound": "length 6; quick 200 pairs"}


def copy(params):
    """copy() of a pair class on a few asymmetric label maps."""
    import numpy as np
    import panoptica.utils.processing_pair as PPm
    cls = getattr(PPm, params.get("cls", "UnmatchedInstancePair"))
    bad = []
    scenes = [(np.array([[1, 1, 0, 2], [0, 0, 0, 2], [3, 0, 0, 0]], np.uint8), np.array([[1, 1, 0, 0], [0, 0, 0, 0], [0, 0, 2, 2]], np.uint8)),
              (np.array([5, 5, 0, 7, 7, 9], np.uint16), np.array([5, 0, 0, 7, 7, 0], np.uint16)),
              (np.array([[[1, 0], [2, 2]], [[0, 0], [3, 3]]], np.uint32), np.array([[[1, 1], [0, 0]], [[0, 0], [0, 3]]], np.uint32))]
    for P, R in scenes:
        try:
            o = cls(P.copy(), R.copy())
            c = o.copy()
            if c is o or type(c) is not type(o):
                bad.append(f"copy is not a distinct {cls.__name__}")
                continue
            for a, src in (("prediction_arr", P), ("reference_arr", R)):
                x = getattr(c, a)
                if x.dtype != src.dtype or x.shape != src.shape or not np.array_equal(x, src):
                    bad.append(f"{a} of the copy differs from the original ({x.tolist()} vs {src.tolist()})")
            for a in ("n_prediction_instance", "n_reference_instance", "matched_instances", "missed_reference_labels", "missed_prediction_labels"):
                if hasattr(o, a) and list(np.atleast_1d(getattr(c, a))) != list(np.atleast_1d(getattr(o, a))):
                    bad.append(f"{a}: copy has {getattr(c, a)}, original {getattr(o, a)}")
        except Exception as e:
            bad.append(f"raised {type(e).__name__}: {e}"[:200])
    return {"violated": bool(bad), "problems": bad[:8]}
