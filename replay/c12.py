"""C12 replays / bounded stand-in: class groups on the real evaluator."""
import random, itertools
import numpy as np
from .util import serial_pools


def _resdict(res):
    d = res.to_dict()
    out = {}
    for k, v in d.items():
        if k == "computation_time":
            continue
        out[k] = None if v is None else (("nan" if float(v) != float(v) else round(float(v), 9)) if isinstance(v, (int, float, np.integer, np.floating)) else str(v))
    return out


def _mk_eval(input_type, groups=None, **kw):
    from panoptica import Panoptica_Evaluator, InputType, NaiveThresholdMatching, ConnectedComponentsInstanceApproximator
    from panoptica.metrics import Metric
    return Panoptica_Evaluator(expected_input=InputType[input_type], instance_approximator=ConnectedComponentsInstanceApproximator(),
                               instance_matcher=NaiveThresholdMatching(), segmentation_class_groups=groups,
                               instance_metrics=[Metric.DSC, Metric.IOU, Metric.RVD], global_metrics=[Metric.DSC, Metric.IOU], **kw)


def compare_grouped(pred, ref, input_type, group_defs, decision=None):
    """grouped result per group == ungrouped result on the arrays restricted to the group's labels"""
    from panoptica.utils.segmentation_class import SegmentationClassGroups
    from panoptica.utils.label_group import LabelGroup, LabelMergeGroup
    from panoptica import InputType
    bad = []
    groups = {}
    for name, (labels, kind) in group_defs.items():
        groups[name] = LabelMergeGroup(labels) if kind == "merge" else LabelGroup(labels, single_instance=(kind == "single"))
    dkw = {} if decision is None else {"decision_metric": decision[0], "decision_threshold": decision[1]}
    ev = _mk_eval(input_type, SegmentationClassGroups(groups), **dkw)
    p0, r0 = pred.copy(), ref.copy()
    got = ev.evaluate(pred, ref, verbose=False)
    if not (np.array_equal(p0, pred) and np.array_equal(r0, ref)):
        bad.append("caller array modified")
    for name, (labels, kind) in group_defs.items():
        rp = np.where(np.isin(pred, labels), pred, 0).astype(pred.dtype)
        rr = np.where(np.isin(ref, labels), ref, 0).astype(ref.dtype)
        if kind == "merge":
            rp, rr = (rp != 0).astype(pred.dtype), (rr != 0).astype(ref.dtype)
        if kind == "single" and input_type != "MATCHED_INSTANCE":
            skw = {} if decision is None else {"decision_metric": decision[0], "decision_threshold": 0.0}
            want = _resdict(_mk_eval("MATCHED_INSTANCE", None, **skw).evaluate(rp, rr, verbose=False)["ungrouped"][0])
        else:
            want = _resdict(_mk_eval(input_type, None, **dkw).evaluate(rp, rr, verbose=False)["ungrouped"][0])
        g = _resdict(got[name.lower()][0])
        if g != want:
            diff = {k: (want.get(k), g.get(k)) for k in set(g) | set(want) if g.get(k) != want.get(k)}
            bad.append(f"group {name}: {str(diff)[:300]}")
    return bad


def undefined(params):
    """a non-zero label that belongs to no group must be rejected with an error, for either array"""
    from panoptica.utils.segmentation_class import SegmentationClassGroups
    from panoptica.utils.label_group import LabelGroup
    bad = []
    groups = SegmentationClassGroups({"a": LabelGroup([1, 2]), "b": LabelGroup([5])})
    for it in ("SEMANTIC", "UNMATCHED_INSTANCE", "MATCHED_INSTANCE"):
        for which in ("pred", "ref"):
            pred = np.array([0, 1, 1, 2, 0, 5, 0, 0], np.uint8)
            ref = np.array([0, 1, 1, 2, 0, 5, 0, 0], np.uint8)
            (pred if which == "pred" else ref)[7] = 3
            cases = [(pred, ref)]
            # the undefined label hidden under a larger, defined label of the other array
            p2 = np.array([0, 1, 1, 2, 0, 5, 0, 0], np.uint8); r2 = p2.copy()
            (p2 if which == "pred" else r2)[1] = 3
            (r2 if which == "pred" else p2)[1] = 5
            cases.append((p2, r2))
            for pred, ref in cases[1:]:
                try:
                    _mk_eval(it, groups).evaluate(pred, ref, verbose=False)
                    bad.append(f"{it}: undefined label 3 in {which} (covered by a defined label in the other array) was silently accepted")
                except AssertionError:
                    pass
                except Exception as e:
                    bad.append(f"{it}: unexpected {type(e).__name__}: {e}"[:160])
            pred, ref = cases[0]
            try:
                _mk_eval(it, groups).evaluate(pred, ref, verbose=False)
                bad.append(f"{it}: undefined label 3 in {which} was silently accepted")
            except AssertionError:
                pass
            except Exception as e:
                bad.append(f"{it}: unexpected {type(e).__name__}: {e}"[:160])
        try:
            _mk_eval(it, groups).evaluate(np.array([0, 1, 1, 2, 0, 5, 0, 0], np.uint8), np.array([0, 1, 1, 2, 0, 5, 0, 0], np.uint8), verbose=False)
        except Exception as e:
            bad.append(f"{it}: fully defined input rejected: {type(e).__name__}: {e}"[:160])
        # signed maps: a negative value (e.g. an "ignore" region marked -1) is an undefined label like any other
        if it == "SEMANTIC":
            for which in ("pred", "ref"):
                ok_ = np.array([0, 1, 1, 2, 0, 5, 0, 0], np.int16)
                neg = ok_.copy(); neg[6] = -1
                pred, ref = (neg, ok_) if which == "pred" else (ok_, neg)
                try:
                    _mk_eval(it, groups).evaluate(pred.copy(), ref.copy(), verbose=False)
                    bad.append(f"{it}: undefined negative label -1 in {which} was silently accepted")
                except AssertionError:
                    pass
                except Exception as e:
                    bad.append(f"{it}: negative label: unexpected {type(e).__name__}: {e}"[:160])
        # densely labelled maps (no background voxel at all): the smallest label is an ordinary label and must be checked too
        g2 = SegmentationClassGroups({"b": LabelGroup([2, 5])})
        for which in ("pred", "ref"):
            dense_bad = np.array([1, 1, 2, 2, 5, 5], np.uint8)   # label 1 is undefined in g2
            dense_ok = np.array([2, 2, 2, 5, 5, 5], np.uint8)
            pred, ref = (dense_bad, dense_ok) if which == "pred" else (dense_ok, dense_bad)
            try:
                _mk_eval(it, g2).evaluate(pred.copy(), ref.copy(), verbose=False)
                bad.append(f"{it}: undefined label 1 in a {which} map without background was silently accepted")
            except AssertionError:
                pass
            except Exception as e:
                bad.append(f"{it}: unexpected {type(e).__name__}: {e}"[:160])
        try:
            _mk_eval(it, g2).evaluate(np.array([2, 2, 2, 5, 5, 5], np.uint8), np.array([2, 2, 5, 5, 5, 5], np.uint8), verbose=False)
        except Exception as e:
            bad.append(f"{it}: fully defined dense input rejected: {type(e).__name__}: {e}"[:160])
    return {"violated": bool(bad), "problems": bad}


def extract(params):
    from panoptica.utils.label_group import LabelGroup, LabelMergeGroup
    bad = []
    a = np.array([[0, 1, 2], [3, 4, 2], [7, 0, 1]], np.uint16)
    a0 = a.copy()
    for g, want in ((LabelGroup([2, 4]), np.where(np.isin(a, [2, 4]), a, 0)), (LabelMergeGroup([2, 4]), np.isin(a, [2, 4]).astype(a.dtype)), (LabelGroup(7, single_instance=True), np.where(a == 7, a, 0))):
        got = g(a)
        if not np.array_equal(got, want):
            bad.append(f"{g}: {got.tolist()} expected {want.tolist()}")
        if got is a or not np.array_equal(a, a0):
            bad.append(f"{g}: caller array modified / not a fresh array")
    # label sets vs array dtypes: group labels are plain integers; a label outside the range of the array's dtype matches nothing
    import itertools
    pool = [1, 2, 4, 255, 256, 257, 258, 65537, 65538]
    for dt in (np.uint8, np.uint16, np.int32):
        vals = [v for v in (0, 1, 2, 3, 4, 7, 255, 256, 258, 65535) if v <= np.iinfo(dt).max]
        arr = np.array(vals, dt)
        for k in (1, 2):
            for labs in itertools.combinations(pool, k):
                wide = arr.astype(np.int64)
                keep = np.isin(wide, list(labs))
                for g, want in ((LabelGroup(list(labs)), np.where(keep, wide, 0)), (LabelMergeGroup(list(labs)), keep.astype(np.int64))):
                    try:
                        got = g(arr.copy()).astype(np.int64)
                    except Exception as e:
                        bad.append(f"{g} on {np.dtype(dt).name}: raised {type(e).__name__}: {e}"[:160])
                        continue
                    if not np.array_equal(got, want):
                        bad.append(f"{g} on {np.dtype(dt).name} array {vals}: {got.tolist()} expected {want.tolist()}")
                if len(bad) > 4:
                    break
    return {"violated": bool(bad), "problems": bad[:5]}


def e2e(params):
    serial_pools()
    bad = []
    pred = np.array([0, 1, 1, 2, 2, 0, 5, 5, 6, 0, 9, 9, 0, 0], np.uint8)
    ref = np.array([0, 1, 1, 1, 2, 0, 5, 6, 6, 0, 9, 0, 9, 0], np.uint8)
    defs = {"Plain": ([1, 2], "plain"), "merged": ([5, 6], "merge"), "one": ([9], "single")}
    from panoptica.metrics import Metric
    defs2 = {"one": ([9], "single"), "Plain": ([1, 2], "plain"), "merged": ([5, 6], "merge")}
    # group labels beyond the uint8 range of the arrays (257 = 1 mod 256, 265 = 9 mod 256): they match no voxel
    defs3 = {"Plain": ([1, 2], "plain"), "merged": ([5, 6, 257], "merge"), "one": ([9], "single"), "far": ([265, 300], "plain")}
    for it in ("SEMANTIC", "UNMATCHED_INSTANCE", "MATCHED_INSTANCE"):
        for dd, dec in ((defs, None), (defs2, (Metric.IOU, 0.8)), (defs2, (Metric.DSC, 0.9)), (defs3, None)):
            try:
                bad += [f"{it}: {b}" for b in compare_grouped(pred.copy(), ref.copy(), it, dd, dec)]
            except Exception as e:
                bad.append(f"{it}: raised {type(e).__name__}: {e}"[:200])
    # a single-instance group whose label is present on ONE side only (prediction and reference must not be exchanged: fp vs fn)
    p1 = np.array([0, 1, 1, 2, 2, 0, 9, 9, 9, 0], np.uint8)
    r1 = np.array([0, 1, 1, 1, 2, 0, 0, 0, 0, 0], np.uint8)
    for it in ("SEMANTIC", "UNMATCHED_INSTANCE", "MATCHED_INSTANCE"):
        for pp_, rr_ in ((p1, r1), (r1, p1)):
            try:
                bad += [f"{it} (single-instance label on one side): {b}" for b in compare_grouped(pp_.copy(), rr_.copy(), it, {"Plain": ([1, 2], "plain"), "one": ([9], "single")}, None)]
            except Exception as e:
                bad.append(f"{it}: raised {type(e).__name__}: {e}"[:200])
    u = undefined({})
    bad += u["problems"]
    return {"violated": bool(bad), "problems": bad[:6]}


def bounded(params):
    serial_pools()
    tier, seed = params.get("tier", "quick"), int(params.get("seed", 0))
    rng = random.Random(seed)
    failures, evals, nontriv = [], 0, 0
    labels = [0, 1, 2, 5, 6, 9]
    n = 24 if tier == "quick" else 300
    for _ in range(n):
        L = 10
        pred = np.array([rng.choice(labels) for _ in range(L)], np.uint8)
        ref = np.array([rng.choice(labels) for _ in range(L)], np.uint8)
        for i in range(1, L):   # make runs so that instances are not single voxels
            if rng.random() < 0.5:
                pred[i] = pred[i - 1]
            if rng.random() < 0.5:
                ref[i] = ref[i - 1]
        parts = rng.choice([
            {"c": ([9], "single"), "a": ([1, 2], "plain"), "b": ([5, 6], "merge")},
            {"A": ([1, 5], "merge"), "b": ([2, 6, 9], "plain")},
            {"x": ([1], "single"), "y": ([2, 5, 6, 9], "plain")},
        ])
        for it in ("SEMANTIC", "UNMATCHED_INSTANCE", "MATCHED_INSTANCE"):
            evals += 1
            try:
                from panoptica.metrics import Metric
                dec = rng.choice([None, (Metric.IOU, 0.8), (Metric.IOU, 0.5)])
                bad = compare_grouped(pred.copy(), ref.copy(), it, parts, dec)
                nontriv += 1 if pred.any() and ref.any() else 0
            except Exception as e:
                bad = [f"raised {type(e).__name__}: {e}"[:200]]
            if bad and len(failures) < 5:
                failures.append({"input": {"pred": pred.tolist(), "ref": ref.tolist(), "input_type": it, "groups": {k: list(v) for k, v in parts.items()}}, "problems": bad[:3], "replay_kind": "c12.e2e"})
    u = undefined({})
    if u["violated"]:
        failures.append({"input": "undefined-label probe", "problems": u["problems"][:3], "replay_kind": "c12.undefined"})
    return {"evaluations": evals, "distinct_nontrivial": nontriv, "failures": failures,
            "rule": "seeded 1-D label maps over {0,1,2,5,6,9} x 3 partitions into plain/merge/single-instance groups x 3 input types: grouped result vs ungrouped result on the restricted arrays; plus the undefined-label probe on both arrays",
            "bound": "length 10; quick 24 draws"}


def ctor(params):
    from panoptica.utils.label_group import LabelGroup, LabelMergeGroup
    bad = []
    for cls in (LabelGroup, LabelMergeGroup):
        for labels, flag in (([7], False), ([7], True), ([1, 2], False)):
            g = cls(list(labels), single_instance=flag)
            if g.single_instance is not flag or sorted(g.value_labels) != sorted(labels):
                bad.append(f"{cls.__name__}({labels}, single_instance={flag}) reports single_instance={g.single_instance}, value_labels={g.value_labels}")
    return {"violated": bool(bad), "problems": bad}
