"""C19: shipped-config parsing (tag trees via ruamel), real save -> load -> save round trips, probe inputs."""
import os, glob, tempfile, itertools, random
import numpy as np
from .util import serial_pools


def _tree(node):
    from ruamel.yaml.nodes import ScalarNode, SequenceNode, MappingNode
    tag = node.tag if isinstance(node.tag, str) else str(node.tag)
    t = tag if tag.startswith("!") and not tag.startswith("!!") else None
    if isinstance(node, ScalarNode):
        v = node.value
        if t is None:
            if tag.endswith(":null") or v in ("null", "~", ""):
                v = None
            elif tag.endswith(":bool"):
                v = v.lower() == "true"
            elif tag.endswith(":int"):
                v = int(v)
            elif tag.endswith(":float"):
                v = float(v)
        return {"kind": "scalar", "tag": t, "value": v}
    if isinstance(node, SequenceNode):
        return {"kind": "seq", "tag": t, "value": [_tree(x) for x in node.value]}
    if isinstance(node, MappingNode):
        return {"kind": "map", "tag": t, "value": [[_tree(k), _tree(v)] for k, v in node.value]}
    return {"kind": "other"}


def parse_configs(params):
    from ruamel.yaml import YAML
    import panoptica
    d = os.path.join(os.path.dirname(panoptica.__file__), "configs")
    out = {}
    for f in sorted(glob.glob(os.path.join(d, "*.yaml"))):
        y = YAML(typ="safe")
        with open(f) as fh:
            out[os.path.basename(f)] = _tree(y.compose(fh))
    return {"configs": out}


def shipped(params):
    from panoptica import Panoptica_Evaluator
    from panoptica.utils.segmentation_class import SegmentationClassGroups
    import panoptica
    bad = []
    d = os.path.join(os.path.dirname(panoptica.__file__), "configs")
    for f in sorted(glob.glob(os.path.join(d, "*.yaml"))):
        cls = SegmentationClassGroups if os.path.basename(f).startswith("SegmentationClassGroups") else Panoptica_Evaluator
        try:
            obj = cls.load_from_config(f)
            with tempfile.TemporaryDirectory() as t:
                p1, p2 = os.path.join(t, "a.yaml"), os.path.join(t, "b.yaml")
                obj.save_to_config(p1)
                cls.load_from_config(p1).save_to_config(p2)
                if open(p1).read() != open(p2).read():
                    bad.append(f"{os.path.basename(f)}: saving the loaded object does not reproduce the file")
        except Exception as e:
            bad.append(f"{os.path.basename(f)}: {type(e).__name__}: {e}"[:200])
    return {"violated": bool(bad), "problems": bad}


PROBE_P = np.array([0, 1, 1, 1, 0, 2, 2, 0, 3, 3, 3, 0, 0, 5, 5, 0], np.uint8)
PROBE_R = np.array([0, 1, 1, 0, 0, 2, 2, 2, 0, 3, 3, 0, 5, 5, 0, 0], np.uint8)


def _options(rng):
    from panoptica import InputType, NaiveThresholdMatching, ConnectedComponentsInstanceApproximator
    from panoptica.instance_matcher import MaximizeMergeMatching
    from panoptica.instance_approximator import CCABackend
    from panoptica.metrics import Metric
    from panoptica.utils.edge_case_handling import EdgeCaseHandler, MetricZeroTPEdgeCaseHandling, EdgeCaseResult
    from panoptica.utils.segmentation_class import SegmentationClassGroups
    from panoptica.utils.label_group import LabelGroup, LabelMergeGroup
    E = list(EdgeCaseResult)
    mm = rng.choice([Metric.IOU, Metric.DSC, Metric.ASSD])
    matcher = rng.choice([NaiveThresholdMatching(mm, rng.choice([0.3, 0.5, 0.7]) if mm != Metric.ASSD else 1.5, rng.random() < 0.5),
                          MaximizeMergeMatching(mm, 0.4 if mm != Metric.ASSD else 2.0)])
    handler = EdgeCaseHandler({m: MetricZeroTPEdgeCaseHandling(no_instances_result=rng.choice(E), empty_prediction_result=rng.choice(E),
                                                               empty_reference_result=rng.choice(E), normal=rng.choice(E)) for m in Metric}, empty_list_std=rng.choice(E))
    groups = rng.choice([None, SegmentationClassGroups({"Ab": LabelGroup([1, 2]), "m": LabelMergeGroup([3, 5])}),
                         SegmentationClassGroups({"one": LabelGroup(1, single_instance=True), "rest": LabelGroup([2, 3, 5])})])
    dm = rng.choice([None, Metric.IOU, Metric.DSC])
    return dict(expected_input=rng.choice([InputType.SEMANTIC, InputType.UNMATCHED_INSTANCE, InputType.MATCHED_INSTANCE]),
                instance_approximator=ConnectedComponentsInstanceApproximator(rng.choice([None, CCABackend.cc3d, CCABackend.scipy])),
                instance_matcher=matcher, edge_case_handler=handler, segmentation_class_groups=groups,
                instance_metrics=rng.choice([[Metric.DSC, Metric.IOU], [Metric.DSC, Metric.IOU, Metric.ASSD, Metric.RVD]]),
                global_metrics=rng.choice([[], [Metric.DSC], [Metric.IOU, Metric.RVD]]), decision_metric=dm,
                decision_threshold=None if dm is None else rng.choice([0.0, 0.5, 0.8]),
                save_group_times=rng.random() < 0.5, log_times=rng.random() < 0.3, verbose=False)


def _deep(o, depth=0):
    """comparable structure of an object's state"""
    from enum import Enum
    if isinstance(o, Enum):
        return ("enum", type(o).__name__, o.name)
    if isinstance(o, (int, float, str, bool, type(None))):
        return o
    if isinstance(o, (list, tuple)):
        return [_deep(x, depth + 1) for x in o]
    if isinstance(o, (set, frozenset)):
        return sorted(_deep(x, depth + 1) for x in o)
    if isinstance(o, dict):
        return sorted(((str(_deep(k, depth + 1)), _deep(v, depth + 1)) for k, v in o.items()), key=lambda kv: kv[0])
    if hasattr(o, "__dict__") and depth < 6:
        return (type(o).__name__, sorted((k, _deep(v, depth + 1)) for k, v in vars(o).items() if k not in ("_default_result",)))
    return repr(o)


def components(params):
    """every configurable class with every parameter away from its default: save -> load must give an object with identical state"""
    from panoptica import NaiveThresholdMatching, ConnectedComponentsInstanceApproximator, Panoptica_Evaluator, InputType
    from panoptica.instance_matcher import MaximizeMergeMatching
    from panoptica.instance_approximator import CCABackend
    from panoptica.metrics import Metric
    from panoptica.utils.edge_case_handling import EdgeCaseHandler, MetricZeroTPEdgeCaseHandling, EdgeCaseResult
    from panoptica.utils.segmentation_class import SegmentationClassGroups
    from panoptica.utils.label_group import LabelGroup, LabelMergeGroup
    R = EdgeCaseResult
    mz = MetricZeroTPEdgeCaseHandling(no_instances_result=R.ONE, empty_prediction_result=R.INF, empty_reference_result=R.NONE, normal=R.NAN)
    handler = EdgeCaseHandler({Metric.DSC: mz, Metric.RVD: MetricZeroTPEdgeCaseHandling(default_result=R.ONE, normal=R.ZERO)}, empty_list_std=R.ZERO)
    groups = SegmentationClassGroups({"Aa": LabelGroup([4, 2]), "mm": LabelMergeGroup([7, 9]), "s": LabelGroup(11, single_instance=True)})
    objs = [NaiveThresholdMatching(Metric.ASSD, 1.25, True), MaximizeMergeMatching(Metric.DSC, 0.35), ConnectedComponentsInstanceApproximator(CCABackend.scipy),
            ConnectedComponentsInstanceApproximator(CCABackend.cc3d), mz, handler, LabelGroup([4, 2]), LabelMergeGroup([7, 9]), LabelGroup(11, single_instance=True), groups,
            Panoptica_Evaluator(InputType.SEMANTIC, ConnectedComponentsInstanceApproximator(CCABackend.cc3d), MaximizeMergeMatching(Metric.DSC, 0.35), handler, groups,
                                [Metric.DSC, Metric.RVD], [Metric.IOU, Metric.RVD], Metric.DSC, 0.8, True, True, True),
            Panoptica_Evaluator(InputType.UNMATCHED_INSTANCE, None, NaiveThresholdMatching(Metric.ASSD, 1.25, True), None, None, [Metric.ASSD], [], None, None, False, False, False)]
    bad = []
    with tempfile.TemporaryDirectory() as d:
        for i, o in enumerate(objs):
            p = os.path.join(d, f"o{i}.yaml")
            try:
                o.save_to_config(p)
                o2 = type(o).load_from_config(p)
                if _deep(o) != _deep(o2):
                    a, b = _deep(o), _deep(o2)
                    bad.append(f"{type(o).__name__}: loaded object differs from the saved one: {str(a)[:150]} vs {str(b)[:150]}")
            except Exception as e:
                bad.append(f"{type(o).__name__}: {type(e).__name__}: {e}"[:200])
    return {"violated": bool(bad), "problems": bad[:4]}


def labelorder(params):
    """save -> load -> save reproduces the same file for label groups with arbitrary (large, unordered) label values"""
    from panoptica.utils.label_group import LabelGroup, LabelMergeGroup
    from panoptica.utils.segmentation_class import SegmentationClassGroups
    rng = random.Random(11)
    bad = []
    cases = [[199, 239, 68, 280], [3, 1, 2], [1000, 8, 520, 264, 16], [65537, 4097, 129, 33, 9]]
    cases += [rng.sample(range(1, 5000), rng.randint(2, 9)) for _ in range(60)]
    with tempfile.TemporaryDirectory() as d:
        for labels in cases:
            for cls in (LabelGroup, LabelMergeGroup):
                p1, p2 = os.path.join(d, "a.yaml"), os.path.join(d, "b.yaml")
                g = cls(list(labels))
                g.save_to_config(p1)
                g2 = cls.load_from_config(p1)
                g2.save_to_config(p2)
                if open(p1).read() != open(p2).read():
                    bad.append(f"{cls.__name__}({labels}): saved as {g.value_labels}, the re-saved loaded object writes {g2.value_labels}")
                    break
            if len(bad) >= 2:
                break
        if not bad:
            scg = SegmentationClassGroups({"a": LabelGroup([199, 239, 68, 280]), "b": LabelMergeGroup([1000, 8, 520, 264, 16])})
            p1, p2 = os.path.join(d, "a.yaml"), os.path.join(d, "b.yaml")
            scg.save_to_config(p1)
            SegmentationClassGroups.load_from_config(p1).save_to_config(p2)
            if open(p1).read() != open(p2).read():
                bad.append("SegmentationClassGroups with large label sets: re-saving the loaded object gives a different file")
    wc = "label groups keep list(set(labels)) order, which is not stable under reloading" if bad else None
    return {"violated": bool(bad), "problems": bad[:3], "witness_class": wc}


def byname(params):
    """loading by name returns what is stored under that name NOW, as a fresh object every time (the package's config directory is
    redirected to a temporary directory for this run)"""
    import panoptica.utils.config as C
    import panoptica.utils.filepath as FP
    from pathlib import Path
    from panoptica import NaiveThresholdMatching
    from panoptica.metrics import Metric
    bad = []
    with tempfile.TemporaryDirectory() as d:
        saved = (C.config_by_name, C.config_dir_by_name, FP.config_dir_by_name, FP.config_by_name)
        cd = lambda name: (Path(d), name if name.endswith(".yaml") else name + ".yaml")
        cb = lambda name: Path(d).joinpath(cd(name)[1])
        C.config_dir_by_name = FP.config_dir_by_name = cd
        C.config_by_name = FP.config_by_name = cb
        try:
            a = NaiveThresholdMatching(matching_metric=Metric.DSC, matching_threshold=0.25)
            b = NaiveThresholdMatching(matching_metric=Metric.IOU, matching_threshold=0.75, allow_many_to_one=True)
            a.save_to_config_by_name("probe_matcher")
            la = NaiveThresholdMatching.load_from_config_name("probe_matcher")
            b.save_to_config_by_name("probe_matcher")
            lb = NaiveThresholdMatching.load_from_config_name("probe_matcher")
            lb2 = NaiveThresholdMatching.load_from_config_name("probe_matcher")
            ra, rb, rlb = NaiveThresholdMatching._yaml_repr(a), NaiveThresholdMatching._yaml_repr(b), NaiveThresholdMatching._yaml_repr(lb)
            if NaiveThresholdMatching._yaml_repr(la) != ra:
                bad.append(f"loaded {NaiveThresholdMatching._yaml_repr(la)} after saving {ra}")
            if rlb != rb:
                bad.append(f"after saving a NEW configuration under the same name, loading returned the old one: {rlb} instead of {rb}")
            if lb is lb2 or lb is la:
                bad.append("two loads of one name return the same object (shared mutable configuration)")
        except Exception as e:
            bad.append(f"raised {type(e).__name__}: {e}"[:200])
        finally:
            C.config_by_name, C.config_dir_by_name, FP.config_dir_by_name, FP.config_by_name = saved
    # the shipped configurations: every load is a fresh object
    from panoptica import Panoptica_Evaluator
    try:
        names = sorted(p.stem for p in Path(C.__file__).parent.parent.joinpath("configs").glob("panoptica_evaluator_*.yaml"))
        if names:
            e1, e2 = Panoptica_Evaluator.load_from_config_name(names[0]), Panoptica_Evaluator.load_from_config_name(names[0])
            if e1 is e2:
                bad.append(f"loading the shipped configuration {names[0]} twice returns one shared object")
    except Exception as e:
        bad.append(f"shipped by name: {type(e).__name__}: {e}"[:200])
    return {"violated": bool(bad), "problems": bad[:3]}


def roundtrip(params):
    return bounded(dict(params, tier="quick"))


def bounded(params):
    serial_pools()
    from panoptica import Panoptica_Evaluator
    from .c15 import _metric_values
    tier, seed = params.get("tier", "quick"), int(params.get("seed", 0))
    rng = random.Random(seed)
    failures, evals, nontriv = [], 0, 0
    sh = shipped({})
    evals += 1
    cp = components({})
    evals += 1
    if cp["violated"]:
        failures.append({"input": "every class with non-default parameters", "problems": cp["problems"][:3], "replay_kind": "c19.components"})
    if sh["violated"]:
        failures.append({"input": "shipped configurations", "problems": sh["problems"][:3], "replay_kind": "c19.shipped"})
    lo = labelorder({})
    evals += 1
    if lo["violated"]:
        failures.append({"input": "label groups with large unordered labels", "problems": lo["problems"][:3], "witness_class": lo.get("witness_class"), "replay_kind": "c19.labelorder"})
    bn = byname({})
    evals += 1
    if bn["violated"]:
        failures.append({"input": "save / load by name", "problems": bn["problems"][:3], "replay_kind": "c19.byname"})
    for i in range(12 if tier == "quick" else 150):
        opts = _options(rng)
        if opts["decision_metric"] is not None and opts["decision_metric"] not in opts["instance_metrics"]:
            opts["instance_metrics"] = opts["instance_metrics"] + [opts["decision_metric"]]
        evals += 1
        bad = []
        try:
            ev = Panoptica_Evaluator(**opts)
            with tempfile.TemporaryDirectory() as d:
                p1, p2 = os.path.join(d, "a.yaml"), os.path.join(d, "b.yaml")
                ev.save_to_config(p1)
                ev2 = Panoptica_Evaluator.load_from_config(p1)
                ev2.save_to_config(p2)
                if open(p1).read() != open(p2).read():
                    bad.append("saving the loaded evaluator does not reproduce the file")
                for comp_name in ("instance_matcher", "edge_case_handler", "instance_approximator", "segmentation_class_groups"):
                    comp = opts[comp_name]
                    if comp is None:
                        continue
                    c1, c2 = os.path.join(d, "c1.yaml"), os.path.join(d, "c2.yaml")
                    comp.save_to_config(c1)
                    type(comp).load_from_config(c1).save_to_config(c2)
                    if open(c1).read() != open(c2).read():
                        bad.append(f"component {comp_name}: save -> load -> save differs")
            r1 = {g: _metric_values(r[0]) for g, r in ev.evaluate(PROBE_P.copy(), PROBE_R.copy(), verbose=False).items()}
            r2 = {g: _metric_values(r[0]) for g, r in ev2.evaluate(PROBE_P.copy(), PROBE_R.copy(), verbose=False).items()}
            nontriv += 1
            if r1 != r2:
                diff = {g: {k: (r1[g].get(k), r2.get(g, {}).get(k)) for k in r1[g] if r1[g].get(k) != r2.get(g, {}).get(k)} for g in r1}
                bad.append("the loaded evaluator produces different results: " + str(diff)[:300])
        except Exception as e:
            bad.append(f"raised {type(e).__name__}: {e}"[:200])
        if bad and len(failures) < 5:
            failures.append({"input": {k: str(v)[:80] for k, v in opts.items()}, "problems": bad[:3], "replay_kind": "c19.roundtrip"})
    return {"evaluations": evals, "distinct_nontrivial": nontriv, "failures": failures,
            "rule": "seeded evaluator configurations with every option varied away from its default (input type, backend, matcher kind/options, per-metric edge-case settings, class groups of every kind, metric selections, decision metric/threshold, timing flags): real save -> load -> save (evaluator and each component on its own) must reproduce the file and the loaded evaluator must give identical results on a probe input; plus the shipped configurations",
            "bound": "12 configurations (quick), 150 (thorough); one 1-D probe pair"}
