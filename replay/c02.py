"""C02 replays / bounded stand-in on the real result bookkeeping."""
import math, random
from fractions import Fraction
import numpy as np
from .util import serial_pools, canonical_label_arrays
from spec import metrics as SM

SQ_ATTR = {"IOU": "sq", "DSC": "sq_dsc", "ASSD": "sq_assd", "RVD": "sq_rvd", "clDSC": "sq_cldsc"}
PQ_ATTR = {"IOU": "pq", "DSC": "pq_dsc", "clDSC": "pq_cldsc"}


def close(a, b, tol=1e-9):
    if a is None or b is None:
        return a is None and b is None
    if isinstance(a, float) and math.isnan(a):
        return isinstance(b, float) and math.isnan(b)
    try:
        return abs(a - b) <= tol * max(1.0, abs(a), abs(b))
    except Exception:
        return False


def check_result(res, npred, nref, lists, tol=1e-9):
    """statement clauses on a PanopticaResult whose lists are `lists` (metric name -> list)."""
    bad = []
    tp = res.tp
    if tp + res.fp != npred:
        bad.append(f"tp+fp={tp + res.fp} != n_pred={npred}")
    if tp + res.fn != nref:
        bad.append(f"tp+fn={tp + res.fn} != n_ref={nref}")
    from panoptica.metrics import Metric, MetricMode
    for m, L in lists.items():
        try:
            got = res.get_list_metric(Metric[m], MetricMode.ALL)
        except Exception as e:
            bad.append(f"list {m}: {e}")
            continue
        if len(got) != tp:
            bad.append(f"len(list {m})={len(got)} != tp={tp}")
    if tp > 0:
        rq = tp / (tp + res.fp / 2 + res.fn / 2)
        if not close(res.rq, rq, tol):
            bad.append(f"rq={res.rq} expected {rq}")
        for m, L in lists.items():
            got = res.get_list_metric(Metric[m], MetricMode.ALL)
            if len(got) == 0:
                continue
            mean = sum(got) / len(got)
            std = math.sqrt(sum((x - mean) ** 2 for x in got) / len(got))
            if not close(getattr(res, SQ_ATTR[m]), mean, tol):
                bad.append(f"{SQ_ATTR[m]}={getattr(res, SQ_ATTR[m])} expected mean {mean}")
            if not close(getattr(res, SQ_ATTR[m] + '_std'), std, 1e-7):
                bad.append(f"{SQ_ATTR[m]}_std={getattr(res, SQ_ATTR[m] + '_std')} expected population std {std}")
            if m in PQ_ATTR and not close(getattr(res, PQ_ATTR[m]), mean * rq, tol):
                bad.append(f"{PQ_ATTR[m]}={getattr(res, PQ_ATTR[m])} expected {mean * rq}")
            if m in ("IOU", "DSC") and not (-tol <= mean <= 1 + tol):
                bad.append(f"{SQ_ATTR[m]} out of [0,1]")
        if not (0 < res.rq <= 1 + tol):
            bad.append("rq out of (0,1]")
        if "IOU" in lists and "DSC" in lists and len(res.get_list_metric(Metric.IOU, MetricMode.ALL)) == tp:
            if res.sq_dsc + tol < res.sq:
                bad.append("sq_dsc < sq")
    return bad


def result(params):
    from panoptica.panoptica_result import PanopticaResult
    from panoptica.utils.edge_case_handling import EdgeCaseHandler
    from panoptica.metrics import Metric
    tp, npred, nref = params["tp"], params["npred"], params["nref"]
    lists = {m: [float(Fraction(x)) for x in L] for m, L in params["lists"].items()}
    try:
        res = PanopticaResult(reference_arr=None, prediction_arr=None, num_pred_instances=npred, num_ref_instances=nref, tp=tp,
                              list_metrics={Metric[m]: list(L) for m, L in lists.items()}, edge_case_handler=EdgeCaseHandler())
        bad = check_result(res, npred, nref, {m: L for m, L in lists.items() if m not in ("IOU", "DSC") or True})
        # directly constructed: ranges only hold for overlap scores in [0,1]; drop range clauses for arbitrary reals
        bad = [b for b in bad if "out of" not in b and "sq_dsc < sq" not in b]
    except Exception as e:
        bad = [f"raised {type(e).__name__}: {e}"[:200]]
    return {"violated": bool(bad), "problems": bad}


def todict(params):
    """calculate_all + to_dict against attribute-by-attribute reads of an identical result."""
    from panoptica.panoptica_result import PanopticaResult
    from panoptica.utils.edge_case_handling import EdgeCaseHandler
    from panoptica.metrics import Metric
    tp, npred, nref = params["tp"], params["npred"], params["nref"]
    lists = {m: [float(Fraction(x)) for x in L] for m, L in params["lists"].items()}
    mkres = lambda: PanopticaResult(reference_arr=None, prediction_arr=None, num_pred_instances=npred, num_ref_instances=nref, tp=tp,
                                    list_metrics={Metric[m]: list(L) for m, L in lists.items()}, edge_case_handler=EdgeCaseHandler())
    bad = []
    try:
        res, twin = mkres(), mkres()
        direct = {}
        for k in list(twin._evaluation_metrics.keys()):
            try:
                direct[k] = getattr(twin, k)
            except Exception as e:
                direct[k] = e
        res.calculate_all()
        d = res.to_dict()
        for k, v in direct.items():
            if isinstance(v, Exception):
                if k in d:
                    bad.append(f"{k} exported although its calculation raises")
            elif k not in d:
                bad.append(f"{k} missing from to_dict although it is computable ({v})")
            elif not (close(d[k], v) or d[k] == v):
                bad.append(f"{k}: exported {d[k]} but the attribute is {v}")
        for k in d:
            if k not in direct:
                bad.append(f"unknown key {k}")
    except Exception as e:
        bad = [f"raised {type(e).__name__}: {e}"[:200]]
    return {"violated": bool(bad), "problems": bad[:8]}


def eval(params):
    """evaluate_matched_instance with _evaluate_instance stubbed by its contract."""
    serial_pools()
    import panoptica.instance_evaluator as IE
    from panoptica.metrics import Metric
    from panoptica.utils.processing_pair import MatchedInstancePair
    n, mets, dec = params["n"], params["metrics"], params["decision"]
    thr = float(Fraction(params["thr"]))
    vals = {m: [float(Fraction(x)) for x in params["vals"][m]] for m in mets}
    arr = np.arange(1, n + 1, dtype=np.uint8) if n else np.zeros(1, np.uint8)
    orig = IE._evaluate_instance
    IE._evaluate_instance = lambda ref, pred, ref_idx, eval_metrics: {mm: vals[mm.name][int(ref_idx) - 1] for mm in eval_metrics}
    bad = []
    try:
        pair = MatchedInstancePair(arr.copy(), arr.copy())
        out = IE.evaluate_matched_instance(pair, eval_metrics=[Metric[m] for m in mets], decision_metric=Metric[dec] if dec else None,
                                           decision_threshold=thr if dec else None)
        passing = [i for i in range(n) if dec is None or SM.beats(dec, vals[dec][i], thr)]
        if out.tp != len(passing):
            bad.append(f"tp={out.tp} but {len(passing)} instance(s) meet the decision threshold")
        for m in mets:
            L = out.list_metrics[Metric[m]]
            if len(L) != out.tp:
                bad.append(f"len(list {m})={len(L)} != tp={out.tp}")
            if list(L) != [vals[m][i] for i in passing]:
                bad.append(f"list {m} is not the values of the passing instances in order")
    except Exception as e:
        bad.append(f"raised {type(e).__name__}: {e}"[:200])
    finally:
        IE._evaluate_instance = orig
    wc = "decision threshold: tp counts instances that fail the threshold" if any(b.startswith("tp=") or b.startswith("len(list") for b in bad) else None
    return {"violated": bool(bad), "problems": bad, "witness_class": wc}


def bounded(params):
    """End to end: small 1-D matched / unmatched inputs x decision metric/threshold;
    checks the statement's bookkeeping clauses on the real result."""
    serial_pools()
    from panoptica import Panoptica_Evaluator, InputType, NaiveThresholdMatching
    from panoptica.instance_matcher import MaximizeMergeMatching
    from panoptica.metrics import Metric
    tier, seed = params.get("tier", "quick"), int(params.get("seed", 0))
    rng = random.Random(seed)
    arrs = canonical_label_arrays(5, 2)
    pairs = [(a, b) for a in arrs for b in arrs]
    rng.shuffle(pairs)
    pairs = pairs[: (60 if tier == "quick" else 500)]
    configs = []
    for it in ("MATCHED_INSTANCE", "UNMATCHED_INSTANCE"):
        for dm, dts in ((None, [None]), ("IOU", [0.0, 0.5, 0.75]), ("DSC", [0.5, 0.8]), ("ASSD", [0.0, 0.5])):
            for dt in dts:
                for matcher in ("naive", "many", "merge") if it == "UNMATCHED_INSTANCE" else ("none",):
                    configs.append((it, dm, dt, matcher))
    failures, evals, nontriv = [], 0, 0
    mets = ["DSC", "IOU", "ASSD", "RVD"]
    for a, b in pairs:
        for it, dm, dt, matcher in configs:
            pa, ra = np.array(a, np.uint8), np.array(b, np.uint8)
            mt = {"naive": NaiveThresholdMatching(), "many": NaiveThresholdMatching(matching_threshold=0.3, allow_many_to_one=True),
                  "merge": MaximizeMergeMatching(), "none": None}[matcher]
            evals += 1
            try:
                ev = Panoptica_Evaluator(expected_input=InputType[it], instance_matcher=mt, instance_metrics=[Metric[m] for m in mets],
                                         global_metrics=[], decision_metric=Metric[dm] if dm else None, decision_threshold=dt)
                res = ev.evaluate(pa, ra, verbose=False)["ungrouped"][0]
                bad = check_result(res, res.num_pred_instances, res.num_ref_instances, {m: None for m in mets})
                if res.tp > 0:
                    nontriv += 1
            except Exception as e:
                bad = [f"raised {type(e).__name__}: {e}"[:200]]
            if bad and len(failures) < 5:
                wc = "decision threshold: tp counts instances that fail the threshold" if dm and any(b.startswith("len(list") for b in bad) else None
                failures.append({"input": {"pred": list(a), "ref": list(b), "input_type": it, "decision_metric": dm, "decision_threshold": dt, "matcher": matcher},
                                 "problems": bad, "witness_class": wc, "replay_kind": "c02.e2e"})
    mc = matched_ctor({})
    evals += 1
    for pb in mc["problems"][:2]:
        failures.append({"input": {"case": "MatchedInstancePair label bookkeeping"}, "problems": [pb], "replay_kind": "c02.matched_ctor"})
    fr = frame({})
    evals += 1
    for pb in fr["problems"][:2]:
        failures.append({"input": {"case": "evaluate_matched_instance frame"}, "problems": [pb], "replay_kind": "c02.frame"})
    return {"evaluations": evals, "distinct_nontrivial": nontriv, "failures": failures,
            "rule": "seeded 1-D label-map pairs (length 5, <=2 labels, canonical) x input type x matcher x decision metric/threshold through the real evaluator; non-trivial = tp > 0",
            "bound": "length 5, 2 labels; quick 60 pairs, thorough 500"}


def frame(params):
    """evaluate_matched_instance / the evaluator must not change the metric list they are configured with (nor the shared default)"""
    serial_pools()
    import inspect
    from panoptica import Panoptica_Evaluator, InputType
    from panoptica.instance_evaluator import evaluate_matched_instance
    from panoptica.utils.processing_pair import MatchedInstancePair
    from panoptica.metrics import Metric
    import panoptica.panoptica_evaluator as PE
    bad = []
    a = np.array([0, 1, 1, 2, 2, 0], np.uint8)
    for dec, names in (("ASSD", ["DSC", "IOU"]), ("IOU", ["DSC", "IOU"]), ("clDSC", ["DSC"]), (None, ["DSC"])):
        mets = [Metric[m] for m in names]
        before = list(mets)
        try:
            evaluate_matched_instance(MatchedInstancePair(a.copy(), a.copy()), eval_metrics=mets, decision_metric=None if dec is None else Metric[dec],
                                      decision_threshold=None if dec is None else 0.5)
            if dec is not None and dec not in names:
                bad.append(f"decision metric {dec} outside the evaluated metrics {names} was accepted")
        except AssertionError:
            pass
        except Exception as e:
            bad.append(f"raised {type(e).__name__}: {e}"[:160])
        if mets != before:
            bad.append(f"eval_metrics changed from {[m.name for m in before]} to {[m.name for m in mets]} (decision metric {dec})")
    d0 = [list(p.default) for p in inspect.signature(Panoptica_Evaluator.__init__).parameters.values() if isinstance(p.default, list)]
    d1 = [list(p.default) for p in inspect.signature(PE.panoptic_evaluate).parameters.values() if isinstance(p.default, list)]
    for dec in ("clDSC", "RVD"):
        try:
            ev = Panoptica_Evaluator(expected_input=InputType.MATCHED_INSTANCE, decision_metric=Metric[dec], decision_threshold=0.5)
            ev.evaluate(a.copy(), a.copy(), verbose=False)
        except Exception:
            pass
    if d0 != [list(p.default) for p in inspect.signature(Panoptica_Evaluator.__init__).parameters.values() if isinstance(p.default, list)] or \
            d1 != [list(p.default) for p in inspect.signature(PE.panoptic_evaluate).parameters.values() if isinstance(p.default, list)]:
        bad.append("a shared mutable default argument (metric list) was modified by use")
    return {"violated": bool(bad), "problems": bad[:4]}


def matched_ctor(params):
    """MatchedInstancePair label bookkeeping on all pairs of label subsets of {1,2,3,4}"""
    import itertools
    from panoptica.utils.processing_pair import MatchedInstancePair
    bad = []
    names = [1, 2, 3, 4]
    subsets = [c for k in range(0, 4) for c in itertools.combinations(names, k)]
    for ps in subsets:
        for rs in subsets:
            pred, ref = np.zeros(10, np.uint8), np.zeros(10, np.uint8)
            for l in ps:
                pred[2 * l: 2 * l + 2] = l
            for l in rs:
                ref[2 * l - 1: 2 * l + 1] = l
            try:
                mp = MatchedInstancePair(pred, ref)
                got = (sorted(int(x) for x in mp.matched_instances), sorted(int(x) for x in mp.missed_prediction_labels), sorted(int(x) for x in mp.missed_reference_labels))
            except Exception as e:
                bad.append(f"pred labels {ps}, ref labels {rs}: raised {type(e).__name__}: {e}"[:160])
                continue
            want = (sorted(set(ps) & set(rs)), sorted(set(ps) - set(rs)), sorted(set(rs) - set(ps)))
            if got != want:
                bad.append(f"pred labels {ps}, ref labels {rs}: (matched, missed pred, missed ref) = {got}, expected {want}")
            if len(bad) > 3:
                break
    return {"violated": bool(bad), "problems": bad[:4]}
