"""Helpers for replays on the real code (run under /venv/bin/python)."""
import itertools, random
import numpy as np


class SerialPool:
    """Serial stand-in for multiprocessing.Pool (same starmap contract)."""
    def __init__(self, *a, **k):
        pass
    def __enter__(self):
        return self
    def __exit__(self, *a):
        return False
    def starmap(self, f, xs):
        return [f(*x) for x in xs]
    def map(self, f, xs):
        return [f(x) for x in xs]
    def close(self):
        pass
    def join(self):
        pass


def serial_pools():
    import panoptica._functionals as F
    import panoptica.instance_evaluator as E
    F.Pool = SerialPool
    E.Pool = SerialPool


def canonical_label_arrays(length, nlabels):
    """all 1-D label arrays of given length whose labels 1..k appear in order
    of first occurrence (canonical representatives up to renaming)."""
    out = []
    def rec(prefix, used):
        if len(prefix) == length:
            out.append(tuple(prefix))
            return
        for l in range(0, min(used + 1, nlabels) + 1):
            rec(prefix + [l], max(used, l))
    rec([], 0)
    return out


def frac(x):
    from fractions import Fraction
    return Fraction(x)
