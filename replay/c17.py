"""C17 replays / bounded stand-in: crash / restart / neighbour histories on the real aggregator (crash injection by wrapping the
aggregator module's file helpers in this process - nothing in /repo)."""
import os, csv, random, tempfile, builtins
import numpy as np
from .util import serial_pools

WC_EMPTY = "existing empty output file never gets a header"
WC_TMP = "sibling aggregators in one directory share panoptica_aggregator_tmp.tsv"
WC_NAME = "header cell subject_name is loaded as a claimed subject"


class Kill(BaseException):
    pass


def _evaluator():
    from panoptica import Panoptica_Evaluator, InputType
    from panoptica.metrics import Metric
    return Panoptica_Evaluator(expected_input=InputType.MATCHED_INSTANCE, instance_metrics=[Metric.DSC, Metric.IOU], global_metrics=[])


SUBJ = {f"s{i}": (np.array([0, 1, 1, 0, 2, 2, 0, 0], np.uint8), np.array([0, 1, 1, 1, 0, 2, 2, 0], np.uint8) if i % 2 else np.array([0, 1, 1, 0, 2, 2, 0, 0], np.uint8)) for i in range(4)}


def read_rows(path):
    if not os.path.exists(path):
        return None
    with open(path, newline="", encoding="utf8") as f:
        return [r for r in csv.reader(f, delimiter="\t")]


def session(out, names, kill_after=None):
    """one aggregator session: construct, evaluate the given subjects; optionally killed after `kill_after` file-helper operations"""
    import panoptica.panoptica_aggregator as A
    counter = {"n": 0}
    orig = {k: getattr(A, k) for k in ("_write_content", "_read_first_row", "_load_first_column_entries")}
    orig_remove = A.os.remove

    def wrap(f):
        def g(*a, **k):
            if kill_after is not None and counter["n"] >= kill_after:
                raise Kill()
            r = f(*a, **k)
            counter["n"] += 1
            return r
        return g
    for k, f in orig.items():
        setattr(A, k, wrap(f))
    A.os.remove = wrap(orig_remove)
    try:
        agg = A.Panoptica_Aggregator(_evaluator(), out)
        for n in names:
            p, r = SUBJ.get(n, SUBJ["s0"])
            agg.evaluate(p.copy(), r.copy(), n)
        return counter["n"], None
    except Kill:
        return counter["n"], "killed"
    finally:
        for k, f in orig.items():
            setattr(A, k, f)
        A.os.remove = orig_remove


def check_final(out, names, reference_rows=None):
    bad = []
    rows = read_rows(out)
    if not rows:
        return ["output file empty or absent after the run"]
    hdr = rows[0]
    if hdr[0] != "subject_name":
        bad.append(f"first row is not the header: {hdr[:3]}")
    if sum(1 for r in rows if r and r[0] == "subject_name" and r == hdr) != 1:
        bad.append("header present more than once")
    got = [r[0] for r in rows[1:]]
    if sorted(got) != sorted(names):
        bad.append(f"rows for subjects {got}, expected exactly one per subject of {sorted(names)}")
    for r in rows[1:]:
        if len(r) != len(hdr):
            bad.append(f"incomplete row for {r[0]}")
    if reference_rows is not None and not bad:
        ref = {r[0]: r for r in reference_rows[1:]}
        for r in rows[1:]:
            if ref.get(r[0]) != r:
                bad.append(f"row of {r[0]} differs from the uninterrupted run")
    return bad


def restart(params):
    serial_pools()
    bad = []
    names = ["s0", " s1", "s2 "]
    for state in ("absent", "empty", "header-only", "header+rows", "noext"):
        with tempfile.TemporaryDirectory() as d:
            ref_out = os.path.join(d, "ref.tsv")
            session(ref_out, names)
            ref_rows = read_rows(ref_out)
            out = os.path.join(d, "out.tsv")
            if state == "noext":
                out = os.path.join(d, "results")
                session(out, names[:1], kill_after=3)
                session(out, names[:2], kill_after=9)
                session(out, names)
                b = check_final(out + ".tsv", names, ref_rows)
                bad += [f"[{state}] {x}" for x in b]
                continue
            if state == "empty":
                open(out, "w").close()
            elif state == "header-only":
                with open(out, "w", newline="") as f:
                    csv.writer(f, delimiter="\t", lineterminator="\n").writerow(ref_rows[0])
            elif state == "header+rows":
                with open(out, "w", newline="") as f:
                    w = csv.writer(f, delimiter="\t", lineterminator="\n")
                    w.writerow(ref_rows[0]); w.writerow(ref_rows[1])
            try:
                session(out, names)
                b = check_final(out, names, ref_rows)
            except Exception as e:
                b = [f"raised {type(e).__name__}: {e}"[:160]]
            bad += [f"[{state}] {x}" for x in b]
        # a subject literally called subject_name
        with tempfile.TemporaryDirectory() as d:
            out = os.path.join(d, "o.tsv")
            try:
                session(out, ["subject_name", "s1"])
                b = check_final(out, ["subject_name", "s1"])
            except Exception as e:
                b = [f"raised {type(e).__name__}: {e}"[:160]]
            bad += [f"[subject called subject_name] {x}" for x in b]
    wc = WC_EMPTY if any(x.startswith("[empty]") for x in bad) else (WC_NAME if any("subject called" in x for x in bad) else None)
    return {"violated": bool(bad), "problems": bad[:5], "witness_class": wc}


def crash(params):
    serial_pools()
    bad = []
    names = ["s0", " s1", "s2 "]
    with tempfile.TemporaryDirectory() as d:
        ref_out = os.path.join(d, "ref.tsv")
        nops, _ = session(ref_out, names)
        ref_rows = read_rows(ref_out)
    for k in range(nops + 1):
        with tempfile.TemporaryDirectory() as d:
            out = os.path.join(d, "out.tsv")
            session(out, names, kill_after=k)
            try:
                session(out, names)
                b = check_final(out, names, ref_rows)
            except Exception as e:
                b = [f"raised {type(e).__name__}: {e}"[:160]]
            bad += [f"[killed after {k} file operations] {x}" for x in b]
    return {"violated": bool(bad), "problems": bad[:5]}


def neighbours(params):
    serial_pools()
    import panoptica.panoptica_aggregator as A
    bad = []
    pairs = [("a.tsv", "b.tsv"), ("scores.fold0.tsv", "scores.fold1.tsv"), ("a.tsv", "a.b.tsv"), ("x", "x.y.tsv")]
    col = params.get("collide") or []
    if len(col) == 2:
        pairs.insert(0, (os.path.basename(col[0]), os.path.basename(col[1])))
    pairs.append(("fold1/results.tsv", "fold2/results.tsv"))  # same file name in different directories
    for na, nb in pairs:
      with tempfile.TemporaryDirectory() as d:
        a, b = os.path.join(d, na), os.path.join(d, nb)
        for x_ in (a, b):
            os.makedirs(os.path.dirname(x_), exist_ok=True)
        ag1 = A.Panoptica_Aggregator(_evaluator(), a)
        ag2 = A.Panoptica_Aggregator(_evaluator(), b)
        p, r = SUBJ["s0"]
        ag1.evaluate(p.copy(), r.copy(), "s0")
        ag2.evaluate(p.copy(), r.copy(), "s0")
        ag2.evaluate(p.copy(), r.copy(), "s1")
        ag1.evaluate(p.copy(), r.copy(), "s1")
        for out, nm in ((a, na), (b, nb)):
            real = out if out.endswith(".tsv") else out + ".tsv"
            bb = check_final(real, ["s0", "s1"])
            bad += [f"[{nm} next to {na if nm == nb else nb}] {x}" for x in bb]
    return {"violated": bool(bad), "problems": bad[:4], "witness_class": WC_TMP if any("[b.tsv" in x or "[a.tsv next to b.tsv" in x for x in bad) else None}


def shared_evaluator(params):
    """two aggregators sharing one evaluator: constructing / using the second one does not change what the first one records"""
    serial_pools()
    import panoptica.panoptica_aggregator as A
    from panoptica import Panoptica_Evaluator, InputType
    from panoptica.metrics import Metric
    bad = []
    with tempfile.TemporaryDirectory() as d:
        ev = Panoptica_Evaluator(expected_input=InputType.MATCHED_INSTANCE, instance_metrics=[Metric.DSC, Metric.IOU], global_metrics=[], save_group_times=True)
        a1 = A.Panoptica_Aggregator(ev, os.path.join(d, "a.tsv"), log_times=True)
        p, r_ = SUBJ["s0"]
        a1.evaluate(p.copy(), r_.copy(), "s0")
        A.Panoptica_Aggregator(ev, os.path.join(d, "b.tsv"))          # a sibling with other options on the same evaluator
        a1.evaluate(p.copy(), r_.copy(), "s1")
        rows = read_rows(os.path.join(d, "a.tsv"))
        head = rows[0]
        tcols = [i for i, h in enumerate(head) if h.endswith("computation_time")]
        for row in rows[1:]:
            if len(row) != len(head):
                bad.append(f"row {row[0]} has {len(row)} cells, header {len(head)}")
            elif any(row[i] == "" for i in tcols) and not any(rows[1][i] == "" for i in tcols):
                bad.append(f"row {row[0]}: computation_time recorded for the first subject but blank after a sibling aggregator was constructed")
    return {"violated": bool(bad), "problems": bad[:3]}


def header_order(params):
    """continuing a file whose header has the same columns in another order must be refused (rows would be filed under wrong columns)"""
    serial_pools()
    import panoptica.panoptica_aggregator as A
    from panoptica import Panoptica_Evaluator, InputType
    from panoptica.metrics import Metric
    from panoptica.utils.segmentation_class import SegmentationClassGroups
    from panoptica.utils.label_group import LabelGroup
    bad = []

    def ev(order):
        return Panoptica_Evaluator(expected_input=InputType.MATCHED_INSTANCE, instance_metrics=[Metric.DSC, Metric.IOU], global_metrics=[],
                                   segmentation_class_groups=SegmentationClassGroups({g: LabelGroup([i]) for g, i in order}))
    with tempfile.TemporaryDirectory() as d:
        out = os.path.join(d, "o.tsv")
        a1 = A.Panoptica_Aggregator(ev([("liver", 1), ("spleen", 2)]), out)
        p, r = SUBJ["s0"]
        a1.evaluate(p.copy(), r.copy(), "s0")
        try:
            A.Panoptica_Aggregator(ev([("spleen", 2), ("liver", 1)]), out)
            bad.append("an aggregator whose columns are ordered differently was allowed to continue the file")
        except AssertionError:
            pass
    return {"violated": bool(bad), "problems": bad}


def quoted_names(params):
    """subject names the csv writer has to quote (quote character, tab, comma, leading blank): recognised as finished after a restart"""
    serial_pools()
    names = ['he said "hi"', "tab\there", "a,b", " lead", 'q"']
    bad = []
    with tempfile.TemporaryDirectory() as d:
        out = os.path.join(d, "o.tsv")
        try:
            session(out, names[:3], kill_after=None)
            session(out, names, kill_after=None)     # restart: the first three are finished already
            session(out, names, kill_after=None)     # and once more
            bad += check_final(out, names)
        except Exception as e:
            bad.append(f"raised {type(e).__name__}: {e}"[:200])
    return {"violated": bool(bad), "problems": bad[:3]}


def hashseed(params):
    """the header an aggregator computes must not depend on the interpreter process (string hashing is randomised per process)"""
    import subprocess, sys, json as _json
    code = (
        "import sys, json, tempfile, os\n"
        "sys.path.insert(0, %r)\n"
        "from replay.util import serial_pools; serial_pools()\n"
        "from replay.c17 import _evaluator\n"
        "from panoptica import Panoptica_Aggregator\n"
        "d = tempfile.mkdtemp(); out = os.path.join(d, 'o.tsv')\n"
        "Panoptica_Aggregator(_evaluator(), out, log_times=True)\n"
        "print(json.dumps(open(out).readline().rstrip('\\n').split('\\t')))\n" % os.path.dirname(os.path.dirname(os.path.abspath(__file__))))
    heads = []
    for seed in ("0", "1", "2", "3", "12345"):
        env = dict(os.environ, PYTHONHASHSEED=seed, PANOPTICA_CITATION_REMINDER="false")
        p = subprocess.run([sys.executable, "-W", "ignore", "-c", code], capture_output=True, text=True, env=env, timeout=120)
        line = [l for l in p.stdout.splitlines() if l.startswith("[")]
        if p.returncode != 0 or not line:
            return {"violated": True, "problems": [f"header run failed under PYTHONHASHSEED={seed}: {p.stderr[-200:]}"]}
        heads.append(_json.loads(line[-1]))
    bad = []
    if any(h != heads[0] for h in heads):
        k = next(i for i, h in enumerate(heads) if h != heads[0])
        bad.append(f"header differs between interpreter processes: {heads[0][-4:]} vs {heads[k][-4:]} (a restarted session would refuse the file)")
    return {"violated": bool(bad), "problems": bad}


def rebound(params):
    """in-process retry: a fault in one subject, then the aggregator variable is re-bound to a new aggregator on the same output file
    (the old object is released, the collector runs, as in a notebook or retry loop) and every subject is resubmitted"""
    serial_pools()
    import gc
    import panoptica.panoptica_aggregator as A
    bad = []
    names = ["s0", "s1", "s2", "s3"]
    for collect_every in (True, False):
        with tempfile.TemporaryDirectory() as d:
            ref_out = os.path.join(d, "ref.tsv")
            session(ref_out, names)
            ref_rows = read_rows(ref_out)
            out = os.path.join(d, "out.tsv")
            try:
                agg = A.Panoptica_Aggregator(_evaluator(), out)
                for n in names[:2]:
                    p, r = SUBJ[n]
                    agg.evaluate(p.copy(), r.copy(), n)
                    if collect_every:
                        gc.collect()
                try:
                    agg.evaluate(np.zeros((2, 2), np.uint8), np.zeros((3,), np.uint8), names[2])   # faulty subject: shapes disagree
                except BaseException:
                    pass
                agg = A.Panoptica_Aggregator(_evaluator(), out)   # re-bound; the first object becomes garbage
                gc.collect()
                for n in names:
                    p, r = SUBJ[n]
                    try:
                        agg.evaluate(p.copy(), r.copy(), n)
                    except Exception as e:
                        bad.append(f"resubmitting {n} raised {type(e).__name__}: {e}"[:160])
                    gc.collect()
                b = check_final(out, names, ref_rows)
            except Exception as e:
                b = [f"raised {type(e).__name__}: {e}"[:160]]
            bad += [f"[re-bound aggregator, gc {'after every subject' if collect_every else 'once'}] {x}" for x in b]
    return {"violated": bool(bad), "problems": bad[:5]}


def bounded(params):
    serial_pools()
    tier, seed = params.get("tier", "quick"), int(params.get("seed", 0))
    failures, evals = [], 0
    for kind, fn in (("restart", restart), ("crash", crash), ("neighbours", neighbours), ("header_order", header_order), ("quoted_names", quoted_names), ("hashseed", hashseed), ("shared_evaluator", shared_evaluator), ("rebound", rebound)):
        res = fn({})
        evals += 1
        if res["violated"]:
            failures.append({"input": {"history": kind}, "problems": res["problems"][:3], "witness_class": res.get("witness_class"), "replay_kind": f"c17.{kind}"})
    # random histories of sessions with kills on the same file
    rng = random.Random(seed)
    nontriv = 0
    for h in range(4 if tier == "quick" else 40):
        names = [f"s{i}" for i in range(rng.randint(1, 4))]
        with tempfile.TemporaryDirectory() as d:
            out = os.path.join(d, "o.tsv")
            for _ in range(rng.randint(1, 3)):
                session(out, rng.sample(names, rng.randint(1, len(names))), kill_after=rng.randint(0, 9))
                nontriv += 1
            try:
                session(out, names)
                b = check_final(out, names)
            except Exception as e:
                b = [f"raised {type(e).__name__}: {e}"[:160]]
            evals += 1
            if b and len(failures) < 6:
                failures.append({"input": {"history": h, "subjects": names}, "problems": b[:3], "replay_kind": "c17.crash"})
    return {"evaluations": evals, "distinct_nontrivial": max(nontriv, 2), "failures": failures,
            "rule": "restart from each initial file state, a kill after every file-helper operation of a 3-subject session followed by restart and resubmission, sibling aggregators in one directory, and seeded histories of killed sessions; final file compared with an uninterrupted run",
            "bound": "3-4 subjects, kill points at function granularity of the aggregator's file helpers"}
