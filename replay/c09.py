"""C09 replays / bounded stand-in: label magnitude and dtype independence on the real code."""
import random, itertools
import numpy as np
from .util import serial_pools

WC_ENC = "pair encoding in uint32 wraps for labels >= 2^16"
WC_MAP = "lookup table typed by the input array: fresh label wraps (e.g. uint8 reference label 255 + unmatched prediction)"
WC_CROP = "paired crop adds label values in the arrays' own dtype (128+128=0 in uint8)"


def _adversarial_labels(dtype):
    hi = min(np.iinfo(dtype).max, 2 ** 24 - 1)
    c = [1, 2, 3, hi, hi - 1, hi // 2, hi // 2 + 1]
    for k in (255, 256, 257, 65535, 65536, 65537, 70000, 2 ** 20 + 3):
        if k <= hi:
            c.append(k)
    return sorted(set(int(x) for x in c if x > 0))


def spec_pairs(pred, ref):
    return sorted({(int(r), int(p)) for r, p in zip(ref.ravel(), pred.ravel()) if r != 0 and p != 0})


def overlap(params):
    from panoptica._functionals import _calc_overlapping_labels
    dtype = params["dtype"]
    labs = _adversarial_labels(dtype)
    bad = []
    for a, b in itertools.product(labs, repeat=2):
        for c in (labs[0], labs[-1]):
            pred = np.array([a, a, c, 0, a], dtype=dtype)
            ref = np.array([b, c, b, b, 0], dtype=dtype)
            want = spec_pairs(pred, ref)
            try:
                got = sorted(_calc_overlapping_labels(pred, ref, tuple(np.unique(ref[ref != 0]))))
            except Exception as e:
                got = f"raised {type(e).__name__}: {e}"[:100]
            if got != want:
                bad.append({"pred": pred.tolist(), "ref": ref.tolist(), "got": str(got), "want": str(want)})
                if len(bad) >= 3:
                    break
        if len(bad) >= 3:
            break
    return {"violated": bool(bad), "problems": bad, "witness_class": WC_ENC if bad and np.iinfo(dtype).bits >= 32 else None,
            "note": "searched the adversarial label family of this dtype (labels near 2^8, 2^16, 2^24, dtype max)"}


def overlap_layout(params):
    """the candidate pairs must not depend on the memory layouts of the two arrays (C / Fortran / negative strides, mixed)"""
    from panoptica._functionals import _calc_overlapping_labels
    dtype = params.get("dtype", "uint8")
    rng = np.random.RandomState(11)
    bad = []
    lay = {"C": np.ascontiguousarray, "F": np.asfortranarray, "neg": lambda a: np.ascontiguousarray(a[::-1])[::-1], "T-view": lambda a: np.ascontiguousarray(a.T).T}
    for _ in range(40):
        shape = tuple(rng.randint(2, 5, size=rng.randint(2, 4)))
        pred = rng.randint(0, 4, size=shape).astype(dtype)
        ref = rng.randint(0, 4, size=shape).astype(dtype)
        if not ref.any():
            continue
        want = spec_pairs(pred, ref)
        for lp, fp_ in lay.items():
            for lr, fr in lay.items():
                try:
                    got = sorted(_calc_overlapping_labels(fp_(pred), fr(ref), tuple(np.unique(ref[ref != 0]))))
                except Exception as e:
                    got = f"raised {type(e).__name__}: {e}"[:100]
                if got != want:
                    bad.append({"pred": pred.tolist(), "ref": ref.tolist(), "layouts": [lp, lr], "got": str(got), "want": str(want)})
                    break
            if bad:
                break
        if len(bad) >= 2:
            break
    return {"violated": bool(bad), "problems": bad[:2]}


def overlap_frame(params):
    """_calc_overlapping_labels must not write to its inputs (all dtypes, incl. the one it uses internally)"""
    from panoptica._functionals import _calc_overlapping_labels
    bad = []
    for dtype in ("uint8", "uint16", "uint32", "uint64"):
        pred = np.array([1, 1, 2, 0, 3, 3], dtype)
        ref = np.array([1, 0, 2, 2, 0, 0], dtype)
        p0, r0 = pred.copy(), ref.copy()
        got = sorted(_calc_overlapping_labels(pred, ref, tuple(np.unique(ref[ref != 0]))))
        if not (np.array_equal(pred, p0) and np.array_equal(ref, r0)):
            bad.append({"dtype": dtype, "pred_after": pred.tolist(), "pred_before": p0.tolist(), "ref_after": ref.tolist()})
        if got != spec_pairs(p0, r0):
            bad.append({"dtype": dtype, "got": str(got), "want": str(spec_pairs(p0, r0))})
    return {"violated": bool(bad), "problems": bad[:3]}


def crop(params):
    from panoptica._functionals import _get_paired_crop
    dtype = params["dtype"]
    bad = []
    if dtype == "bool":
        cases = [(np.array([0, 1, 0, 0, 1, 0], bool), np.array([0, 0, 0, 1, 1, 0], bool))]
    else:
        hi = np.iinfo(dtype).max
        half = (hi + 1) // 2
        cases = []
        for a, b in ((half, half), (hi, 1), (1, hi), (hi, hi), (3, 5)):
            if max(a, b) < 2 ** 24 or True:
                pred = np.zeros(12, dtype); ref = np.zeros(12, dtype)
                pred[1:4] = a; ref[1:4] = b      # overlapping voxels 1..3
                pred[8] = 1
                cases.append((pred, ref))
    for pred, ref in cases:
        sl = _get_paired_crop(pred, ref, px_pad=0)
        fg = np.flatnonzero((pred != 0) | (ref != 0))
        if not (sl[0].start <= fg.min() and fg.max() < sl[0].stop):
            bad.append({"pred": pred.tolist(), "ref": ref.tolist(), "crop": str(sl), "foreground": [int(fg.min()), int(fg.max())]})
    return {"violated": bool(bad), "problems": bad[:3], "witness_class": WC_CROP if bad else None}


def maplabels(params):
    from panoptica._functionals import _map_labels
    dtype = params["dtype"]
    hi = min(int(np.iinfo(dtype).max), 2 ** 24 - 1)  # the property's (and the proof's) label range: below 2^24 (the routine allocates a table of that size)
    bad = []
    for k, v in ((1, hi), (1, hi + 1 if hi < 2 ** 40 else hi), (2, hi + 7 if hi < 2 ** 40 else hi), (hi, 3), (min(hi, 300), 5)):
        arr = np.array([0, 1, 2, min(hi, 300), hi, 1], dtype=dtype)
        m = {int(k): int(v)}
        try:
            out = _map_labels(arr, m)
            want = [m.get(int(x), int(x)) for x in arr]
            if [int(x) for x in out] != want:
                bad.append({"arr": arr.tolist(), "map": m, "got": [int(x) for x in out], "want": want})
        except Exception as e:
            bad.append({"arr": arr.tolist(), "map": m, "got": f"raised {type(e).__name__}: {e}"[:100]})
    # crossed / chained maps (the relabelling is simultaneous, not sequential) and the width of the result
    small = min(hi, 300)
    big = [b for b in (700, 900, 70000, 70001, 70002) if b <= hi]
    crossed_big = []
    if len(big) >= 2:
        crossed_big = [({big[0]: big[1], big[1]: big[0]}, [0, big[0], big[1], big[0], 1]), ({big[0]: big[1], big[1]: 5}, [0, big[0], big[1], 2, big[1]])]
    if len(big) >= 5:
        crossed_big.append(({70000: 70001, 70001: 70002}, [70000, 70001, 0, 70001, 70000]))
    for m, vals in crossed_big:
        arr = np.array(vals, dtype=dtype)  # large labels in a small array (sparse label space)
        a0 = arr.copy()
        try:
            out = _map_labels(arr, m)
            want = [m.get(int(x), int(x)) for x in a0]
            if [int(x) for x in out] != want:
                bad.append({"arr": a0.tolist(), "map": m, "got": [int(x) for x in out], "want": want})
        except Exception as e:
            bad.append({"arr": a0.tolist(), "map": m, "got": f"raised {type(e).__name__}: {e}"[:100]})
    for m in ({1: 2, 2: 1}, {1: 2, 2: 3}, {2: 1, 1: 2, 3: 1}, {1: 3}, {small: 1}):
        arr = np.array([0, 1, 2, 3, small, 1, 2], dtype=dtype)
        a0 = arr.copy()
        try:
            out = _map_labels(arr, m)
        except Exception as e:
            bad.append({"arr": arr.tolist(), "map": m, "got": f"raised {type(e).__name__}: {e}"[:100]})
            continue
        want = [m.get(int(x), int(x)) for x in a0]
        if [int(x) for x in out] != want:
            bad.append({"arr": a0.tolist(), "map": m, "got": [int(x) for x in out], "want": want})
        if not np.array_equal(arr, a0):
            bad.append({"arr": a0.tolist(), "map": m, "problem": "input array written"})
        if not np.can_cast(arr.dtype, out.dtype, "safe"):
            bad.append({"arr": a0.tolist(), "map": m, "problem": f"result dtype {out.dtype} is narrower than the input dtype {arr.dtype}"})
    wc = WC_MAP if bad and any("got" in b and isinstance(b.get("got"), list) and any(v > hi for v in b.get("want", [])) for b in bad) else None
    return {"violated": bool(bad), "problems": bad[:3], "witness_class": wc}


def _evaluate(pred, ref, input_type, matcher="naive"):
    from panoptica import Panoptica_Evaluator, InputType, NaiveThresholdMatching, ConnectedComponentsInstanceApproximator
    from panoptica.instance_matcher import MaximizeMergeMatching
    from panoptica.metrics import Metric
    mt = NaiveThresholdMatching() if matcher == "naive" else MaximizeMergeMatching()
    ev = Panoptica_Evaluator(expected_input=InputType[input_type], instance_approximator=ConnectedComponentsInstanceApproximator(),
                             instance_matcher=mt, instance_metrics=[Metric.DSC, Metric.IOU, Metric.ASSD, Metric.RVD], global_metrics=[Metric.DSC])
    res = ev.evaluate(pred, ref, verbose=False)["ungrouped"][0]
    d = res.to_dict()
    return {k: (None if v is None else ("nan" if float(v) != float(v) else round(float(v), 9)) if isinstance(v, (int, float, np.integer, np.floating)) else str(v)) for k, v in d.items()}


def bounded(params):
    """end to end: evaluate a small pair, then an injectively relabelled / re-typed copy; every reported metric must agree."""
    serial_pools()
    tier, seed = params.get("tier", "quick"), int(params.get("seed", 0))
    rng = random.Random(seed)
    base_pairs = [
        ([0, 1, 1, 0, 2, 2, 2, 0, 0, 3], [0, 1, 1, 1, 0, 2, 2, 0, 3, 3]),
        ([1, 1, 0, 0, 2, 2, 0, 0, 0, 0], [1, 1, 1, 0, 0, 2, 2, 2, 0, 0]),
        ([0, 0, 1, 1, 1, 1, 0, 2, 2, 0], [0, 1, 1, 0, 2, 2, 0, 0, 3, 3]),
    ]
    failures, evals, nontriv = [], 0, 0
    # the merge matcher with labels beyond CPython's small-integer cache (identity vs equality of label values) and beyond 2^16
    for pl, rl in base_pairs + [([1, 1, 2, 2, 0, 3, 0, 0], [1, 1, 1, 1, 0, 2, 2, 0])]:
        base_m = _evaluate(np.array(pl, np.uint8), np.array(rl, np.uint8), "UNMATCHED_INSTANCE", matcher="merge")
        for fp_, fr_ in (({1: 700, 2: 300, 3: 1000}, {1: 1000, 2: 700, 3: 300}), ({1: 70000, 2: 70001, 3: 257}, {1: 70001, 2: 70002, 3: 258})):
            pred = np.array([fp_.get(x, 0) for x in pl], np.uint32)
            ref = np.array([fr_.get(x, 0) for x in rl], np.uint32)
            evals += 1
            try:
                got = _evaluate(pred, ref, "UNMATCHED_INSTANCE", matcher="merge")
            except Exception as e:
                got = {"raised": f"{type(e).__name__}: {e}"[:120]}
            if got != base_m and len(failures) < 6:
                diff = {k: (base_m.get(k), got.get(k)) for k in set(base_m) | set(got) if base_m.get(k) != got.get(k)}
                failures.append({"input": {"pred": pred.tolist(), "ref": ref.tolist(), "matcher": "merge"}, "problems": [str(diff)[:300]], "replay_kind": "c09.e2e"})
    n_ren = 3 if tier == "quick" else 12
    for pl, rl in base_pairs:
        for it in ("UNMATCHED_INSTANCE", "MATCHED_INSTANCE"):
            for dtype in ("uint8", "uint16", "uint32", "uint64"):
                base = _evaluate(np.array(pl, np.uint8), np.array(rl, np.uint8), it)
                labs = _adversarial_labels(dtype)
                for _ in range(n_ren):
                    hi = min(np.iinfo(dtype).max, 2 ** 24 - 1)
                    ks = sorted(set(pl) | set(rl) - {0})
                    ks = [k for k in ks if k != 0]
                    if it == "MATCHED_INSTANCE":
                        img = rng.sample(labs, len(ks)) if len(labs) >= len(ks) else None
                        if img is None:
                            continue
                        fp = fr = dict(zip(ks, img))
                    else:
                        fp = dict(zip(ks, rng.sample(labs, len(ks))))
                        fr = dict(zip(ks, rng.sample(labs, len(ks))))
                    pred = np.array([fp.get(x, 0) for x in pl], dtype=dtype)
                    ref = np.array([fr.get(x, 0) for x in rl], dtype=dtype)
                    evals += 1
                    nontriv += 1
                    try:
                        got = _evaluate(pred, ref, it)
                    except Exception as e:
                        got = {"raised": f"{type(e).__name__}: {e}"[:120]}
                    if got != base and len(failures) < 6:
                        diff = {k: (base.get(k), got.get(k)) for k in set(base) | set(got) if base.get(k) != got.get(k)}
                        wc = None
                        mx = max(max(pred.tolist()), max(ref.tolist()))
                        if dtype in ("uint32",) and mx >= 2 ** 16:
                            wc = WC_ENC
                        failures.append({"input": {"pred": pred.tolist(), "ref": ref.tolist(), "dtype": dtype, "input_type": it}, "problems": [str(diff)[:400]],
                                         "witness_class": wc, "replay_kind": "c09.e2e"})
    for dt_ in ("uint8", "uint16", "uint32", "uint64"):
        res = maplabels({"dtype": dt_})
        evals += 1
        for pb in res["problems"][:1]:
            failures.append({"input": {"dtype": dt_, "case": pb}, "problems": [str(pb)[:300]], "replay_kind": "c09.maplabels", "witness_class": res.get("witness_class")})
    from . import c05 as _c05
    for res, kind in ((overlap_frame({}), "c09.overlap_frame"), (overlap_layout({}), "c09.overlap_layout"), (_c05.many({}), "c05.many")):
        evals += 1
        for pb in res["problems"][:1]:
            failures.append({"input": {"case": pb}, "problems": [str(pb)[:300]], "replay_kind": kind})
    return {"evaluations": evals, "distinct_nontrivial": nontriv, "failures": failures,
            "rule": "3 base 1-D pairs x {unmatched, matched} x 4 unsigned dtypes x seeded injective relabellings into the adversarial label family (near 2^8, 2^16, 2^24, dtype max); all reported metrics compared with the small-label uint8 evaluation",
            "bound": "length 10"}
