"""C05: conformance of the CC backends against a flood-fill specification (bounded) and end-to-end approximator checks."""
import itertools, random
import numpy as np
from spec import metrics as SM


def same_partition(lab, comps):
    """lab: labelled array; comps: list of voxel sets.  True iff labels 1..n partition the foreground exactly into comps."""
    n = len(comps)
    labs = sorted(int(x) for x in np.unique(lab) if x != 0)
    if labs != list(range(1, n + 1)):
        return False
    got = {frozenset(map(tuple, np.argwhere(lab == l))) for l in labs}
    return got == {frozenset(c) for c in comps}


def check_approx(arr_p, arr_r, backend):
    from panoptica import ConnectedComponentsInstanceApproximator, SemanticPair
    from panoptica.utils.constants import CCABackend
    bad = []
    be = None if backend is None else CCABackend[backend]
    eff = backend or ("cc3d" if arr_p.ndim >= 3 else "scipy")
    p0, r0 = arr_p.copy(), arr_r.copy()
    out = ConnectedComponentsInstanceApproximator(cca_backend=be).approximate_instances(SemanticPair(arr_p, arr_r))
    for name, src, lab, n in (("prediction", p0, out.prediction_arr, out.n_prediction_instance), ("reference", r0, out.reference_arr, out.n_reference_instance)):
        comps = SM.components(src, full_connectivity=(eff == "cc3d"), per_label=(eff == "cc3d"))
        if not np.array_equal(lab != 0, src != 0):
            bad.append(f"{name}: foreground changed")
        if int(n) != len(comps):
            bad.append(f"{name}: reported {n} instances, flood fill finds {len(comps)} ({eff} connectivity)")
        elif not same_partition(lab, comps):
            bad.append(f"{name}: labels are not exactly the connected components 1..n under {eff} connectivity")
        if not np.issubdtype(lab.dtype, np.unsignedinteger):
            bad.append(f"{name}: dtype {lab.dtype} is not unsigned")
    if not (np.array_equal(p0, arr_p) and np.array_equal(r0, arr_r)):
        bad.append("caller array modified")
    return bad


def e2e(params):
    bad = []
    dtype = params.get("dtype") or "uint8"
    rng = np.random.RandomState(5)
    for shape in ((7,), (4, 4), (3, 3, 3)):
        for _ in range(6):
            a = rng.randint(0, 3, size=shape).astype(dtype)
            b = rng.randint(0, 3, size=shape).astype(dtype)
            for be in (None, "cc3d", "scipy"):
                try:
                    bb = check_approx(a.copy(), b.copy(), be)
                except Exception as e:
                    bb = [f"raised {type(e).__name__}: {e}"[:160]]
                if bb:
                    bad.append({"pred": a.tolist(), "ref": b.tolist(), "backend": be, "problems": bb[:2]})
    if np.issubdtype(np.dtype(dtype), np.signedinteger):
        from panoptica import ConnectedComponentsInstanceApproximator, SemanticPair
        a = np.array([[0, -1], [1, 0]], dtype)
        try:
            ConnectedComponentsInstanceApproximator().approximate_instances(SemanticPair(a, np.abs(a)))
            bad.append({"problems": ["negative label accepted"]})
        except AssertionError:
            pass
    r = many({})  # label values / component counts at the edge of a dtype
    bad += r["problems"]
    return {"violated": bool(bad), "problems": bad[:4]}


def many(params):
    """machine-integer replay: one side with more components than a smaller result dtype can number (> 255, > 65535 is out of the time budget)"""
    bad = []
    for n_many, n_few in ((300, 2), (257, 0), (300, 300), (256, 1), (255, 255), (256, 256)):
        for swap in (False, True):
            a = np.zeros((2 * n_many + 4,), np.uint8)
            a[1:2 * n_many:2] = 1  # n_many single-voxel components
            b = np.zeros_like(a)
            b[1:4 * n_few:4] = 1
            p, r = (b, a) if swap else (a, b)
            for be in (None, "cc3d", "scipy"):
                try:
                    bb = check_approx(p.copy(), r.copy(), be)
                except Exception as e:
                    bb = [f"raised {type(e).__name__}: {e}"[:160]]
                if bb:
                    bad.append({"components": [int(n_many), int(n_few)], "many_side": "reference" if swap else "prediction", "backend": be, "problems": bb[:2]})
                    break
    # semantic label values at the edge of a dtype (re-typing must not change a value): 255 / 256 / 257 in 16- and 32-bit inputs
    for dt in (np.uint16, np.int16, np.int32, np.uint32):
        for top in (255, 256, 257):
          for asym in (0, 1, 2):
            a = np.zeros((12,), dt); a[1:3] = top; a[5] = 1
            b = np.zeros((12,), dt); b[1:2] = 2; b[7:9] = top
            if asym == 1:
                b[b == top] = 3  # only the prediction carries the large label
            elif asym == 2:
                a[a == top] = 3  # only the reference carries it
            for be in (None, "cc3d", "scipy"):
                try:
                    bb = check_approx(a.copy(), b.copy(), be)
                except Exception as e:
                    bb = [f"raised {type(e).__name__}: {e}"[:160]]
                if bb:
                    bad.append({"semantic_label": top, "dtype": np.dtype(dt).name, "backend": be, "large_label_on": ["both", "prediction", "reference"][asym], "problems": bb[:2]})
                    break
    return {"violated": bool(bad), "problems": bad[:3]}


def bounded(params):
    tier, seed = params.get("tier", "quick"), int(params.get("seed", 0))
    rng = random.Random(seed)
    failures, evals, nontriv = [], 0, 0
    # incl. volumes / images with a singleton axis: the default backend goes by the NUMBER OF AXES (ndim), not by their extents
    shapes = [(5,), (2, 3), (2, 2, 2), (1, 2, 3), (2, 1, 3), (2, 3, 1), (1, 5)]
    for shape in shapes:
        n = int(np.prod(shape))
        arrs = list(itertools.product(range(3), repeat=n))
        if tier == "quick":
            rng.shuffle(arrs)
            arrs = arrs[:120]
        for a in arrs:
            arr = np.array(a, np.uint8).reshape(shape)
            for be in (None, "cc3d", "scipy"):
                evals += 1
                if len(set(a) - {0}) > 1:
                    nontriv += 1
                try:
                    bad = check_approx(arr.copy(), arr[::-1].copy() if arr.ndim == 1 else arr.T.copy() if arr.shape == arr.T.shape else arr.copy(), be)
                except Exception as e:
                    bad = [f"raised {type(e).__name__}: {e}"[:160]]
                if bad and len(failures) < 5:
                    failures.append({"input": {"array": arr.tolist(), "backend": be}, "problems": bad[:3], "replay_kind": "c05.e2e"})
    # signed dtypes without negatives, and negative rejection
    from panoptica import ConnectedComponentsInstanceApproximator, SemanticPair
    for dt in (np.int8, np.int32, np.int64):
        a = np.array([[0, 2, 2], [1, 0, 2]], dt)
        evals += 1
        bad = check_approx(a.copy(), a.copy(), None)
        try:
            ConnectedComponentsInstanceApproximator().approximate_instances(SemanticPair(-a, a))
            bad.append("negative labels accepted")
        except AssertionError:
            pass
        if bad:
            failures.append({"input": {"dtype": str(dt)}, "problems": bad[:3], "replay_kind": "c05.e2e"})
    r = many({})
    evals += 1
    for pb in r["problems"][:2]:
        failures.append({"input": pb, "problems": pb.get("problems", []), "replay_kind": "c05.many"})
    return {"evaluations": evals, "distinct_nontrivial": nontriv, "failures": failures, "exhaustive": tier != "quick",
            "rule": "all (quick: 120 seeded) 3-label arrays of shape (5,), (2,3), (2,2,2) x backend {default, cc3d, scipy}: result compared with a flood-fill specification (full connectivity per label for cc3d, face connectivity for scipy); non-trivial = more than one label present",
            "bound": "<= 8 voxels, labels {0,1,2}"}


def history(params):
    """one default approximator reused on inputs of different dimensionality must behave like a fresh one"""
    from panoptica import ConnectedComponentsInstanceApproximator, SemanticPair
    bad = []
    a2 = np.array([[1, 0, 0], [0, 1, 0], [0, 0, 2]], np.uint8)
    a3 = np.zeros((3, 3, 3), np.uint8); a3[0, 0, 0] = 1; a3[1, 1, 1] = 1; a3[2, 2, 1] = 2
    for order in ((a2, a3), (a3, a2)):
        ap = ConnectedComponentsInstanceApproximator()
        for arr in order:
            got = ap.approximate_instances(SemanticPair(arr.copy(), arr.copy()))
            want = ConnectedComponentsInstanceApproximator().approximate_instances(SemanticPair(arr.copy(), arr.copy()))
            if got.n_prediction_instance != want.n_prediction_instance or not np.array_equal(got.prediction_arr, want.prediction_arr):
                bad.append(f"reused approximator on a {arr.ndim}-D input: {got.n_prediction_instance} instances, a fresh one finds {want.n_prediction_instance}")
    return {"violated": bool(bad), "problems": bad}
