"""C03 replays and bounded stand-in on the real threshold matcher."""
from fractions import Fraction
import itertools, random
import numpy as np
from .util import serial_pools, canonical_label_arrays
from spec import metrics as SM
from spec.matching import check_threshold_matcher


def _matcher(metric, thr, many):
    from panoptica.instance_matcher import NaiveThresholdMatching
    from panoptica.metrics import Metric
    return NaiveThresholdMatching(matching_metric=Metric[metric], matching_threshold=thr, allow_many_to_one=many)


def match(params):
    """Function-level replay: real _match_instances with the candidate scorer
    stubbed by its contract (returns the given best-first list)."""
    import panoptica.instance_matcher as IM
    from panoptica.utils.processing_pair import UnmatchedInstancePair
    metric, many = params["metric"], bool(params["many"])
    thr = Fraction(params["thr"])
    pairs = [(Fraction(s), int(r), int(p)) for s, r, p in params["pairs"]]
    fl = [(float(s), (r, p)) for s, r, p in pairs]
    orig = IM._calc_matching_metric_of_overlapping_labels
    IM._calc_matching_metric_of_overlapping_labels = lambda *a, **k: list(fl)
    try:
        pair = UnmatchedInstancePair(np.zeros(1, np.uint8), np.zeros(1, np.uint8))
        m = _matcher(metric, float(thr), many)
        exc, lm = None, None
        try:
            lm = dict(m._match_instances(pair).labelmap)
        except Exception as e:
            exc = f"{type(e).__name__}: {str(e)[:80]}"
    finally:
        IM._calc_matching_metric_of_overlapping_labels = orig
    fpairs = [(float(s), r, p) for s, r, p in pairs]
    bad = check_threshold_matcher(fpairs, float(thr), metric, many, lm, exc)
    wc = None
    if exc is not None and many and exc.startswith("Exception: You are mapping a prediction label"):
        wc = "many-to-one: prediction meeting the threshold for >=2 references raises"
    return {"violated": bool(bad), "clauses": bad, "labelmap": lm, "exception": exc, "witness_class": wc}


def beats(params):
    from panoptica.metrics import Metric
    s, t = float(Fraction(params["s"])), float(Fraction(params["t"]))
    got = Metric[params["metric"]].score_beats_threshold(s, t)
    want = SM.beats(params["metric"], s, t)
    return {"violated": bool(got) != bool(want), "got": bool(got), "want": bool(want)}


def beats_raw(params):
    from panoptica.metrics.metrics import _Metric
    s, t, dec = float(Fraction(params["s"])), float(Fraction(params["t"])), bool(params["decreasing"])
    got = _Metric("X", "x", dec, None).score_beats_threshold(s, t)
    want = (s <= t) if dec else (s >= t)
    return {"violated": bool(got) != bool(want), "got": bool(got), "want": bool(want)}


def _scored_pairs(pred, ref, metric):
    P, Rr = SM.instances(pred), SM.instances(ref)
    out = []
    for r, X in Rr.items():
        for p, Y in P.items():
            if X & Y:
                out.append((float(SM.metric(metric, X, Y, np.asarray(pred).ndim)), r, p))
    out.sort(key=lambda t: t[0], reverse=not SM.DECREASING[metric])
    return out


def bounded(params):
    """Bounded stand-in: real matcher end to end on enumerated 1-D instance
    maps; statement clauses checked by the oracle; threshold monotonicity."""
    serial_pools()
    from panoptica.utils.processing_pair import UnmatchedInstancePair
    tier, seed = params.get("tier", "quick"), int(params.get("seed", 0))
    rng = random.Random(seed)
    arrs = canonical_label_arrays(5, 3)
    pairs = [(a, b) for a in arrs for b in arrs if any(a) and any(b)]
    if tier == "quick":
        rng.shuffle(pairs)
        pairs = pairs[:250]
    thr_by = {"IOU": [0.0, 0.25, 1 / 3, 0.5, 0.75, 1.0], "DSC": [0.0, 0.4, 0.5, 2 / 3, 1.0], "ASSD": [0.0, 0.25, 0.5, 1.0, 2.0]}
    failures, evals, nontrivial = [], 0, set()
    for a, b in pairs:
        pa, ra = np.array(a, np.uint8), np.array(b, np.uint8)
        for metric in ("IOU", "DSC", "ASSD"):
            cands = _scored_pairs(pa, ra, metric)
            scores = [c[0] for c in cands]
            unique = len(set(scores)) == len(scores)
            for many in (False, True):
                prev = None
                ths = thr_by[metric]
                order = sorted(ths, reverse=SM.DECREASING[metric])  # loose -> strict
                for thr in order:
                    evals += 1
                    exc, lm = None, None
                    try:
                        lm = dict(_matcher(metric, thr, many)._match_instances(UnmatchedInstancePair(pa.copy(), ra.copy())).labelmap)
                    except Exception as e:
                        exc = f"{type(e).__name__}: {str(e)[:60]}"
                    bad = check_threshold_matcher(cands, thr, metric, many, lm, exc)
                    if lm is not None and prev is not None and unique:
                        if not set(lm.items()) <= set(prev.items()):
                            bad.append("monotone(stricter threshold added a match)")
                    if lm:
                        nontrivial.add((a, b, metric, many, thr))
                    if lm is not None and not bad and thr == order[len(order) // 2]:
                        # the public entry point: the matched pair must carry exactly this matching (relabelled prediction, C04 clauses),
                        # also with the prediction ids renamed so that they cross the reference ids
                        from .c04 import check_relabel
                        for ren in ({}, {1: 2, 2: 1}, {1: 3, 3: 1}):
                            pr = np.array([ren.get(int(x), int(x)) for x in pa], np.uint8)
                            try:
                                mt_ = _matcher(metric, thr, many)
                                lm_r = dict(mt_._match_instances(UnmatchedInstancePair(pr.copy(), ra.copy())).labelmap)
                                p_in, r_in = pr.copy(), ra.copy()
                                pair_in = UnmatchedInstancePair(p_in, r_in)
                                out = mt_.match_instances(pair_in)
                                rb = check_relabel(pr, ra, lm_r, out.prediction_arr, out.reference_arr)
                                if not (np.array_equal(p_in, pr) and np.array_equal(r_in, ra) and np.array_equal(pair_in.prediction_arr, pr)):
                                    rb.append("match_instances changed the arrays of the pair it was given (a second match on the same pair sees other data)")
                                want_matched = sorted(set(lm_r.values()))
                                if sorted(int(x) for x in out.matched_instances) != want_matched:
                                    rb.append(f"matched_instances {sorted(int(x) for x in out.matched_instances)} but the matching assigns references {want_matched}")
                            except Exception as e:
                                rb = [f"match_instances raised {type(e).__name__}: {e}"[:160]]
                            if rb:
                                bad += [f"match_instances (prediction ids renamed by {ren}): {x}" for x in rb[:2]]
                                break
                    if bad and len(failures) < 5:
                        wc = None
                        if exc and many and exc.startswith("Exception: You are mapping a prediction label"):
                            wc = "many-to-one: prediction meeting the threshold for >=2 references raises"
                        failures.append({"input": {"pred": list(a), "ref": list(b), "metric": metric, "many": many, "thr": thr},
                                         "clauses": bad, "exception": exc, "labelmap": lm, "witness_class": wc, "replay_kind": "c03.e2e"})
                    prev = lm if lm is not None else prev
    from . import c09 as _c09
    ml = _c09.maplabels({"dtype": "uint8"})
    evals += 1
    for pb in ml["problems"][:1]:
        failures.append({"input": {"case": pb}, "clauses": [str(pb)[:300]], "replay_kind": "c09.maplabels"})
    for mname_ in ("IOU", "DSC", "ASSD"):
        sr = scorer({"metric": mname_})
        evals += 1
        for pb in sr["problems"][:1]:
            failures.append({"input": {"metric": mname_, "case": pb}, "clauses": [str(pb)[:300]], "replay_kind": "c03.scorer"})
    # the assignment must reach the returned pair unchanged also for sparse, very large labels with reused ids (relabelling stage)
    from . import c04 as _c04
    ll = _c04.large_labels({})
    evals += ll["evaluations"]
    failures += ll["failures"][: max(0, 5 - len(failures))]
    return {"evaluations": evals, "distinct_nontrivial": len(nontrivial), "failures": failures, "exhaustive": tier != "quick",
            "rule": "1-D uint8 instance-map pairs of length 5, <=3 labels each, canonical up to renaming (quick: 250 seeded pairs; thorough: all) x {IOU,DSC,ASSD} x thresholds x many-to-one; non-trivial = at least one match",
            "bound": "length 5, 3 labels"}


def e2e(params):
    serial_pools()
    from panoptica.utils.processing_pair import UnmatchedInstancePair
    pa, ra = np.array(params["pred"], np.uint8), np.array(params["ref"], np.uint8)
    metric, many, thr = params["metric"], params["many"], params["thr"]
    cands = _scored_pairs(pa, ra, metric)
    exc, lm = None, None
    try:
        lm = dict(_matcher(metric, thr, many)._match_instances(UnmatchedInstancePair(pa, ra)).labelmap)
    except Exception as e:
        exc = f"{type(e).__name__}: {str(e)[:60]}"
    bad = check_threshold_matcher(cands, thr, metric, many, lm, exc)
    return {"violated": bool(bad), "clauses": bad, "labelmap": lm, "exception": exc}


def scorer(params):
    """the real candidate scorer against the specification: the overlapping (ref, pred) pairs, each once, with the metric value of that
    pair, best first in the metric's direction"""
    serial_pools()
    from panoptica._functionals import _calc_matching_metric_of_overlapping_labels
    from panoptica.metrics import Metric
    from spec import pipeline as SP
    mname = params.get("metric", "IOU")
    rng = np.random.RandomState(3)
    bad = []
    for _ in range(60):
        nd = rng.randint(1, 4)
        shape = tuple(rng.randint(3, 7, size=nd))
        pred = (rng.rand(*shape) < 0.6) * rng.randint(1, 4, size=shape)
        ref = (rng.rand(*shape) < 0.6) * rng.randint(1, 4, size=shape)
        pred, ref = pred.astype(np.uint8), ref.astype(np.uint8)
        if not ref.any():
            continue
        got = _calc_matching_metric_of_overlapping_labels(pred, ref, tuple(np.unique(ref[ref != 0])), Metric[mname])
        P, Rr = SM.instances(pred), SM.instances(ref)
        want = {(r, p): float(SM.metric(mname, Rr[r], P[p], nd)) for r in Rr for p in P if Rr[r] & P[p]}
        gotd = {(int(r), int(p)): float(s) for s, (r, p) in got}
        if len(gotd) != len(got):
            bad.append(f"a pair is listed twice: {got}")
        elif set(gotd) != set(want):
            bad.append(f"pairs {sorted(gotd)} expected (ref, pred) pairs {sorted(want)}")
        elif any(abs(gotd[k] - want[k]) > 1e-9 for k in want):
            bad.append(f"scores {gotd} expected {want}")
        else:
            sc = [float(s) for s, _ in got]
            if any(not SM.better_eq(mname, a, b) for a, b in zip(sc, sc[1:])):
                bad.append(f"{mname} scores not best-first: {sc}")
        if bad:
            bad[-1] = {"pred": pred.tolist(), "ref": ref.tolist(), "problem": bad[-1][:300]}
            break
    if not bad:
        # nearly equal competing candidates (IoU 0.40000 vs 0.40033): the order must follow the exact scores, not a rounded key
        ref = np.zeros(3000, np.uint16); ref[:] = 1
        pred = np.zeros(3000, np.uint16); pred[:1200] = 1; pred[1200:2401] = 2
        ref[2990:] = 0
        for p_, r_ in ((pred, ref), (pred[::-1].copy(), ref[::-1].copy())):
            got = _calc_matching_metric_of_overlapping_labels(p_, r_, (1,), Metric[mname])
            sc = [float(s) for s, _ in got]
            if any(not SM.better_eq(mname, a, b) for a, b in zip(sc, sc[1:])):
                bad.append({"case": "two predictions on one reference with nearly equal scores", "problem": f"{mname} scores not best-first: {sc}"})
                break
    return {"violated": bool(bad), "problems": bad[:2]}
