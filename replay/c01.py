"""C01 (and C11): the real Panoptica_Evaluator against the executable specification spec/pipeline.py on small inputs (bounded)."""
import itertools, math, random
import numpy as np
from .util import serial_pools, canonical_label_arrays
from spec import metrics as SM
from spec import pipeline as SP

SQ_ATTR = {"IOU": "sq", "DSC": "sq_dsc", "ASSD": "sq_assd", "RVD": "sq_rvd"}
PQ_ATTR = {"IOU": "pq", "DSC": "pq_dsc", "ASSD": "pq_assd", "RVD": "pq_rvd"}


def close(a, b, tol=1e-9):
    try:
        if math.isnan(a) and math.isnan(b):
            return True
        if math.isinf(a) or math.isinf(b):
            return a == b
        return abs(a - b) <= tol * max(1.0, abs(a), abs(b))
    except Exception:
        return False


def run_lib(pred, ref, cfg):
    """evaluate with the real library; returns a plain dict"""
    serial_pools()
    from panoptica import Panoptica_Evaluator, InputType, ConnectedComponentsInstanceApproximator, NaiveThresholdMatching
    from panoptica.metrics import Metric, MetricMode
    from panoptica.utils.constants import CCABackend
    be = cfg.get("backend")
    mets = [Metric[m] for m in cfg.get("metrics", ("DSC", "IOU", "ASSD", "RVD"))]
    ev = Panoptica_Evaluator(
        expected_input=InputType[cfg["input_type"]],
        instance_approximator=ConnectedComponentsInstanceApproximator(cca_backend=None if be is None else CCABackend[be]),
        instance_matcher=NaiveThresholdMatching(matching_metric=Metric[cfg.get("matching_metric", "IOU")], matching_threshold=cfg.get("matching_threshold", 0.5)),
        instance_metrics=mets, global_metrics=[],
        decision_metric=None if cfg.get("decision_metric") is None else Metric[cfg["decision_metric"]], decision_threshold=cfg.get("decision_threshold"),
        verbose=False, log_times=False)
    res = ev.evaluate(pred, ref, verbose=False)["ungrouped"][0]
    out = {"num_pred_instances": int(res.num_pred_instances), "num_ref_instances": int(res.num_ref_instances), "tp": int(res.tp), "fp": int(res.fp), "fn": int(res.fn)}
    out["lists"] = {m.name: sorted(float(x) for x in res.get_list_metric(m, MetricMode.ALL)) for m in mets}
    if out["tp"] > 0:
        out["rq"] = float(res.rq)
        out["sq"] = {m.name: float(getattr(res, SQ_ATTR[m.name])) for m in mets}
        out["pq"] = {m.name: float(getattr(res, PQ_ATTR[m.name])) for m in mets if hasattr(res, PQ_ATTR[m.name])}
    return out


def diff(lib, spec, tol=1e-9):
    bad = []
    for k in ("num_pred_instances", "num_ref_instances", "tp", "fp", "fn"):
        if lib[k] != spec[k]:
            bad.append(f"{k}: library {lib[k]}, definition {spec[k]}")
    if bad:
        return bad
    for m, L in spec["lists"].items():
        G = lib["lists"].get(m)
        if G is None or len(G) != len(L) or not all(close(a, b, tol) for a, b in zip(G, L)):
            bad.append(f"per-instance {m}: library {G}, definition {L}")
    if spec["tp"] > 0 and not bad:
        if not close(lib["rq"], spec["rq"], tol):
            bad.append(f"rq: library {lib['rq']}, definition {spec['rq']}")
        for m in spec["sq"]:
            if not close(lib["sq"][m], spec["sq"][m], tol):
                bad.append(f"sq[{m}]: library {lib['sq'][m]}, definition {spec['sq'][m]}")
            if m in lib["pq"] and not close(lib["pq"][m], spec["pq"][m], tol):
                bad.append(f"pq[{m}]: library {lib['pq'][m]}, definition {spec['pq'][m]}")
    return bad


def spec_eval(pred, ref, cfg):
    return SP.evaluate(pred, ref, cfg["input_type"], backend=cfg.get("backend"), matching_metric=cfg.get("matching_metric", "IOU"),
                       matching_threshold=cfg.get("matching_threshold", 0.5), metrics=tuple(cfg.get("metrics", ("DSC", "IOU", "ASSD", "RVD"))),
                       decision_metric=cfg.get("decision_metric"), decision_threshold=cfg.get("decision_threshold"))


def check_one(pred, ref, cfg):
    """returns (problems, unique)"""
    pred, ref = np.asarray(pred), np.asarray(ref)
    spec = spec_eval(pred, ref, cfg)
    p0, r0 = pred.copy(), ref.copy()
    try:
        lib = run_lib(pred, ref, cfg)
    except Exception as e:
        return [f"raised {type(e).__name__}: {e}"[:200]], spec["unique"]
    if not spec["unique"]:
        # several admissible answers: counts of instances are still determined
        bad = [f"{k}: library {lib[k]}, definition {spec[k]}" for k in ("num_pred_instances", "num_ref_instances") if lib[k] != spec[k]]
        if lib["tp"] + lib["fp"] != lib["num_pred_instances"] or lib["tp"] + lib["fn"] != lib["num_ref_instances"]:
            bad.append("tp+fp / tp+fn do not add up")
        return bad, False
    bad = diff(lib, spec)
    if not (np.array_equal(p0, pred) and np.array_equal(r0, ref)):
        bad.append("caller arrays modified")
    return bad, True


def library_scores(pred, ref, cfg):
    """the candidate scores as the LIBRARY's metric function computes them (so that a threshold 'exactly at a score' is bitwise that score)"""
    from panoptica.metrics import Metric
    pred, ref = np.asarray(pred), np.asarray(ref)
    P, Rr = SP.instances_of(pred, cfg["input_type"], cfg.get("backend")), SP.instances_of(ref, cfg["input_type"], cfg.get("backend"))
    out = set()
    for r, X in Rr.items():
        for p, Y in P.items():
            if X & Y:
                mr, mp = np.zeros(ref.shape, bool), np.zeros(pred.shape, bool)
                mr[tuple(np.array(sorted(X)).T)] = True
                mp[tuple(np.array(sorted(Y)).T)] = True
                try:
                    out.add(float(Metric[cfg["matching_metric"]](mr, mp)))
                except Exception:
                    pass
    return sorted(out)


def thresholds_for(pred, ref, cfg, rng):
    """interesting thresholds: exact candidate scores, midpoints, extremes"""
    sc = library_scores(pred, ref, cfg)
    out = list(sc)
    out += [(a + b) / 2 for a, b in zip(sc, sc[1:])]
    out += [0.5, 0.0, 1.0] if cfg["matching_metric"] != "ASSD" else [0.5, 1.0, 2.5]
    return out


def configs(pred, ref, rng, n, only=None):
    out = []
    for _ in range(n):
        it = only or rng.choice(["SEMANTIC", "UNMATCHED_INSTANCE", "MATCHED_INSTANCE"])
        it = {"SemanticPair": "SEMANTIC", "UnmatchedInstancePair": "UNMATCHED_INSTANCE", "MatchedInstancePair": "MATCHED_INSTANCE"}.get(it, it)
        cfg = {"input_type": it, "backend": rng.choice([None, "cc3d", "scipy"]) if it == "SEMANTIC" else None,
               "matching_metric": rng.choice(["IOU", "IOU", "DSC", "ASSD"])}
        cfg["matching_threshold"] = float(rng.choice(thresholds_for(pred, ref, cfg, rng)))
        if rng.random() < 0.4:
            cfg["decision_metric"] = rng.choice(["IOU", "DSC", "ASSD", "RVD"])
            cfg["decision_threshold"] = float(rng.choice([0.0, 0.3, 0.5, 0.75, 1.0, 2.0]))
        out.append(cfg)
    return out


def rand_map(rng, shape, nlab, dtype):
    a = np.zeros(shape, dtype)
    nblobs = rng.randint(0, 4)
    for _ in range(nblobs):
        lo = [rng.randrange(s) for s in shape]
        hi = [min(s, l + rng.randint(1, 3)) for s, l in zip(shape, lo)]
        a[tuple(slice(l, h) for l, h in zip(lo, hi))] = rng.randint(1, nlab)
    if rng.random() < 0.3:
        for _ in range(rng.randint(1, 3)):
            a[tuple(rng.randrange(s) for s in shape)] = rng.randint(0, nlab)
    return a


def _work(job):
    pred, ref, cfg, dtype = job
    pred, ref = np.array(pred, dtype), np.array(ref, dtype)
    bad, uniq = check_one(pred, ref, cfg)
    return (bad, uniq, job)


def jobs_for(params):
    rng = random.Random(int(params.get("seed", 0)) + 101)
    only = params.get("only")
    jobs = []
    L = int(params.get("exhaustive_1d", 5))
    can = canonical_label_arrays(L, 2)
    for a in can:
        for b in can:
            for cfg in configs(np.array(a), np.array(b), rng, 1, only):
                jobs.append((list(a), list(b), cfg, "uint8"))
            jobs.append((list(a), list(b), {"input_type": "UNMATCHED_INSTANCE", "backend": None, "matching_metric": "IOU", "matching_threshold": 0.5}, "uint8"))
    r, c = params.get("exhaustive_2d", (2, 3))
    cells = list(itertools.product(range(2), repeat=r * c))
    for a in cells:
        for b in cells[:: max(1, len(cells) // 24)]:
            A, B = np.array(a).reshape(r, c), np.array(b).reshape(r, c)
            for cfg in configs(A, B, rng, 1, only or "SEMANTIC"):
                jobs.append((A.tolist(), B.tolist(), cfg, "uint8"))
    for i in range(int(params.get("n_random", 300))):
        nd = rng.choice([1, 2, 2, 3, 3])
        shape = tuple(rng.randint(2, [9, 6, 5][nd - 1]) for _ in range(nd))
        dtype = rng.choice(["uint8", "uint8", "uint16", "int32", "int64"])
        A, B = rand_map(rng, shape, 4, dtype), rand_map(rng, shape, 4, dtype)
        if rng.random() < 0.3:
            B = np.roll(A, 1, axis=rng.randrange(nd)) if rng.random() < 0.5 else A.copy()
        for cfg in configs(A, B, rng, 1, only):
            # instance inputs must be unsigned (asserted by the library); semantic maps may be signed
            dt = dtype if cfg["input_type"] == "SEMANTIC" or dtype.startswith("u") else "u" + dtype
            jobs.append((A.tolist(), B.tolist(), cfg, dt))
    return jobs


def bounded(params):
    import multiprocessing as mp
    jobs = jobs_for(params)
    with mp.get_context("fork").Pool(16) as pool:
        results = pool.map(_work, jobs, chunksize=32)
    failures, uniq, tpn = [], 0, 0
    for bad, u, job in results:
        uniq += bool(u)
        if bad and len(failures) < 5:
            failures.append({"input": {"pred": job[0], "ref": job[1], "cfg": job[2], "dtype": job[3]}, "problems": bad[:3], "replay_kind": "c01.one"})
    return {"evaluations": len(jobs), "distinct_nontrivial": uniq, "failures": failures, "exhaustive": False,
            "rule": "library result (counts, tp/fp/fn, sorted per-instance IoU/Dice/ASSD/RVD, rq, sq, pq) equals spec/pipeline.py whenever no two candidate pairs have equal score "
                    "(non-trivial = uniquely determined); otherwise instance counts and tp+fp/tp+fn only",
            "bound": f"1-D canonical pairs of length {params.get('exhaustive_1d', 5)} (2 labels), 2x3 binary semantic maps, {params.get('n_random', 300)} seeded random maps up to 9 / 6x6 / 5x5x5"}


def one(params):
    bad, u = check_one(np.array(params["pred"], params.get("dtype", "uint8")), np.array(params["ref"], params.get("dtype", "uint8")), params["cfg"])
    return {"violated": bool(bad), "problems": bad, "unique": u}


def e2e(params):
    """replay for a failed composition obligation: the bounded sweep, restricted to the input class"""
    r = bounded(dict(params, n_random=int(params.get("n_random", 150))))
    return {"violated": bool(r["failures"]), "problems": r["failures"][:3], "evaluations": r["evaluations"]}
