"""C16 bounded stand-in: deterministic-schedule harness on the real aggregator.  The module's two lock objects and its file helpers
are wrapped IN THIS PROCESS (nothing in /repo) to obtain scheduling points; one thread runs at a time, the scheduler picks who."""
import os, csv, random, tempfile, threading, itertools
import numpy as np
from .util import serial_pools
from .c17 import _evaluator, SUBJ, read_rows, check_final


class Sched:
    def __init__(self, choose):
        self.choose = choose            # callable(list of runnable tids) -> tid
        self.cv = threading.Condition()
        self.turn = None
        self.state = {}                 # tid -> 'ready' | 'running' | 'blocked' | 'done'
        self.blocked_on = {}
        self.trace = []
        self.deadlock = False

    def register(self, tid):
        self.state[tid] = "ready"

    def yield_point(self, tid, what):
        with self.cv:
            self.state[tid] = "ready"
            self.trace.append((tid, what))
            self.turn = None
            self.cv.notify_all()
            while self.turn != tid:
                self.cv.wait()
            self.state[tid] = "running"

    def finish(self, tid):
        with self.cv:
            self.state[tid] = "done"
            self.turn = None
            self.cv.notify_all()

    def run(self, locks):
        with self.cv:
            while True:
                while self.turn is not None:
                    self.cv.wait()
                runnable = [t for t, s in self.state.items() if s == "ready" and not (self.blocked_on.get(t) is not None and self.blocked_on[t].owner is not None)]
                if not runnable:
                    if all(s == "done" for s in self.state.values()):
                        return
                    if all(s in ("done", "ready") for s in self.state.values()):
                        self.deadlock = True
                        # release everybody so that the threads can terminate
                        return
                    self.cv.wait(0.05)
                    continue
                t = self.choose(sorted(runnable))
                self.turn = t
                self.cv.notify_all()


class SchedLock:
    def __init__(self, sched, name):
        self.sched, self.name, self.owner = sched, name, None

    def __enter__(self):
        tid = threading.current_thread().name
        while True:
            self.sched.blocked_on[tid] = self
            self.sched.yield_point(tid, f"acquire {self.name}")
            if self.owner is None:
                self.owner = tid
                self.sched.blocked_on[tid] = None
                return self

    def __exit__(self, *a):
        self.owner = None
        return False


def run_schedule(names, choose, with_stat=False):
    import panoptica.panoptica_aggregator as A
    sched = Sched(choose)
    orig = {k: getattr(A, k) for k in ("_write_content", "_load_first_column_entries", "filelock", "inevalfilelock")}
    res = {"errors": [], "stat": []}
    with tempfile.TemporaryDirectory() as d:
        out = os.path.join(d, "out.tsv")
        agg = A.Panoptica_Aggregator(_evaluator(), out)
        A.filelock, A.inevalfilelock = SchedLock(sched, "filelock"), SchedLock(sched, "inevalfilelock")

        def wrap(f, nm):
            def g(*a, **k):
                sched.yield_point(threading.current_thread().name, nm)
                return f(*a, **k)
            return g
        A._write_content = wrap(orig["_write_content"], "write")
        A._load_first_column_entries = wrap(orig["_load_first_column_entries"], "read")

        def worker(n):
            tid = threading.current_thread().name
            sched.yield_point(tid, "start")
            try:
                if n == "<stat>":
                    st = agg.make_statistic()
                    res["stat"].append(len(st.subjectnames))
                else:
                    p, r = SUBJ.get(n, SUBJ["s0"])
                    agg.evaluate(p.copy(), r.copy(), n)
            except Exception as e:
                res["errors"].append(f"{n}: {type(e).__name__}: {e}"[:160])
            finally:
                sched.finish(tid)
        ths = []
        jobs = list(names) + (["<stat>"] if with_stat else [])
        for i, n in enumerate(jobs):
            t = threading.Thread(target=worker, args=(n,), name=f"T{i}", daemon=True)
            sched.register(t.name)
            ths.append(t)
        for t in ths:
            t.start()
        try:
            sched.run(None)
        finally:
            for k, v in orig.items():
                setattr(A, k, v)
        for t in ths:
            t.join(timeout=2)
        rows = read_rows(out)
    bad = list(res["errors"])
    if sched.deadlock:
        bad.append("deadlock: every unfinished call is blocked")
    if rows is None or not rows:
        bad.append("no output")
    else:
        got = [r[0] for r in rows[1:]]
        if sorted(got) != sorted(set(names)):
            bad.append(f"rows for {got}, expected exactly one per distinct name of {sorted(set(names))}")
        if any(len(r) != len(rows[0]) for r in rows[1:]):
            bad.append("incomplete row")
    return bad, sched.trace


def schedules(params):
    serial_pools()
    rng = random.Random(11)
    bad = []
    for names in (["s0", "s1"], ["s0", "s0"], ["s0", "s1", "s0"]):
        for _ in range(25):
            b, tr = run_schedule(names, lambda rs: rng.choice(rs), with_stat=True)
            if b:
                bad.append({"names": names, "problems": b[:3], "schedule": [t for t, _ in tr][:40]})
                break
    return {"violated": bool(bad), "problems": bad[:3]}


def _fork_run(names):
    """real forked processes on the real locks"""
    import multiprocessing as mp
    import panoptica.panoptica_aggregator as A
    bad = []
    with tempfile.TemporaryDirectory() as d:
        out = os.path.join(d, "out.tsv")
        agg = A.Panoptica_Aggregator(_evaluator(), out)
        ctx = mp.get_context("fork")
        procs = []
        for n in names:
            p_, r_ = SUBJ.get(n, SUBJ["s0"])
            pr = ctx.Process(target=agg.evaluate, args=(p_.copy(), r_.copy(), n))
            procs.append(pr)
        for pr in procs:
            pr.start()
        for pr in procs:
            pr.join(60)
            if pr.is_alive():
                pr.terminate()
                bad.append("a forked call did not return (blocked)")
        bad += check_final(out, sorted(set(names)))
    return bad


def fork(params):
    serial_pools()
    bad = []
    for names in (["s0", "s0", "s0", "s0"], ["s0", "s1", "s0", "s1"]):
        for _ in range(3):
            bad += _fork_run(names)
    return {"violated": bool(bad), "problems": bad[:3]}


def bounded(params):
    serial_pools()
    tier, seed = params.get("tier", "quick"), int(params.get("seed", 0))
    rng = random.Random(seed)
    failures, evals, distinct = [], 0, set()
    configs = [["s0", "s1"], ["s0", "s0"], ["s0", "s1", "s0"], ["s0", "s1", "s2"]]
    n_rand = 30 if tier == "quick" else 400
    for names in configs:
        # systematic: every schedule with at most one preemption (run a thread to completion except one switch point), plus seeded random ones
        for k in range(n_rand):
            order = []
            b, tr = run_schedule(names, lambda rs: rng.choice(rs), with_stat=(k % 3 == 0))
            evals += 1
            distinct.add(tuple(t for t, _ in tr))
            if b and len(failures) < 5:
                failures.append({"input": {"names": names, "schedule": [f"{t}:{w}" for t, w in tr][:60]}, "problems": b[:3], "replay_kind": "c16.schedules"})
    for names in (["s0", "s1", "s2", "s3"], ["s0", "s0", "s1", "s1"]):
        b = _fork_run(names)
        evals += 1
        if b:
            failures.append({"input": {"forked": names}, "problems": b[:3], "replay_kind": "c16.fork"})
    return {"evaluations": evals, "distinct_nontrivial": len(distinct), "failures": failures,
            "rule": "2-4 concurrent evaluate()/make_statistic() calls (distinct and colliding names) on one real aggregator under a deterministic scheduler with scheduling points at every lock acquisition and file-helper call; seeded random schedules (distinct = distinct interleavings seen); plus real forked processes on the real locks",
            "bound": "4 name configurations x 30 schedules (quick) / 400 (thorough); 2 forked runs"}


def lifetime(params):
    """an aggregator object that goes away (rebound variable + garbage collection, pickled copy) must not delete the buffer of the live session"""
    import gc, pickle, tempfile, os
    from .c17 import _evaluator
    from .util import serial_pools
    serial_pools()
    from panoptica import Panoptica_Aggregator
    bad = []
    a = np.array([0, 1, 1, 2, 2, 0], np.uint8)
    with tempfile.TemporaryDirectory() as d:
        out = os.path.join(d, "o.tsv")
        ev = _evaluator()
        agg = Panoptica_Aggregator(ev, out)
        agg.evaluate(a.copy(), a.copy(), "s0")
        agg2 = Panoptica_Aggregator(ev, out)   # a newer session object on the same file
        agg = None
        gc.collect()
        try:
            agg2.evaluate(a.copy(), a.copy(), "s0")   # resubmitted: already recorded, must not get a second row
        except Exception as e:
            pass
        try:
            agg2.evaluate(a.copy(), a.copy(), "s1")
        except Exception as e:
            bad.append(f"after an older aggregator object was released, evaluate raised {type(e).__name__}: {e}"[:200])
        try:
            cp = pickle.loads(pickle.dumps(agg2))  # what a pool worker receives with the bound method
            del cp
            gc.collect()
            agg2.evaluate(a.copy(), a.copy(), "s2")
        except Exception as e:
            bad.append(f"after a pickled copy was collected, evaluate raised {type(e).__name__}: {e}"[:200])
        from .c17 import read_rows
        names = [r[0] for r in read_rows(out)[1:]]
        if sorted(names) != ["s0", "s1", "s2"]:
            bad.append(f"rows {names}, expected s0, s1, s2 once each")
    return {"violated": bool(bad), "problems": bad[:3]}
