"""C07: ASSD against a brute-force specification (bounded), incl. conformance of the assumed scipy contracts."""
import os, itertools, random
import numpy as np
from spec import metrics as SM


def _close(a, b):
    return abs(a - b) <= 1e-9 * max(1.0, abs(a), abs(b))


def check_pair(X, Y):
    from panoptica.metrics import Metric
    bad = []
    want = SM.assd(SM.vox(X), SM.vox(Y), X.ndim)
    if want is None:
        return bad
    got = Metric.ASSD(X, Y)
    if not _close(got, want):
        bad.append(f"ASSD={got} brute force {want}")
    got2 = Metric.ASSD(Y, X)
    if not _close(got2, want):
        bad.append(f"not symmetric: {got2} vs {want}")
    if got < 0:
        bad.append("negative")
    same_border = SM.border(SM.vox(X), X.ndim) == SM.border(SM.vox(Y), Y.ndim)
    if (abs(got) < 1e-12) != same_border:
        bad.append(f"zero-iff-borders-coincide violated (ASSD {got}, borders coincide {same_border})")
    # embedding in a larger array at an offset / tighter crop
    pads = [(1, 2)] * X.ndim
    got3 = Metric.ASSD(np.pad(X, pads), np.pad(Y, pads))
    if not _close(got3, want):
        bad.append(f"changes under zero padding: {got3} vs {want}")
    # label selection form
    got4 = Metric.ASSD(X.astype(np.uint8) * 3, Y.astype(np.uint8) * 7, 3, 7)
    if not _close(got4, want):
        bad.append(f"label-selection form differs: {got4}")
    return bad


def assd(params):
    rng = np.random.RandomState(params.get("ndim") or 1)
    bad = []
    for nd in (1, 2, 3):
        for _ in range(40):
            shape = tuple(rng.randint(1, 5, size=nd))
            X = rng.rand(*shape) < 0.5
            Y = rng.rand(*shape) < 0.5
            if not X.any() or not Y.any():
                continue
            b = check_pair(X, Y)
            if b:
                bad.append({"X": X.astype(int).tolist(), "Y": Y.astype(int).tolist(), "problems": b[:2]})
                break
    return {"violated": bool(bad), "problems": bad[:3]}


def far(params):
    """machine-integer replay: single voxels far apart (displacements beyond 46340, where an int32 square wraps)"""
    from panoptica.metrics import Metric
    bad = []
    cases = [((100000,), (5,), (70000,)), ((4, 60000), (1, 3), (2, 59990)), ((2, 2, 50000), (0, 1, 7), (1, 0, 49000)), ((66000, 2), (10, 0), (65990, 1))]
    for shape, a, b in cases:
        X = np.zeros(shape, bool)
        Y = np.zeros(shape, bool)
        X[a] = True
        Y[b] = True
        want = float(np.sqrt(sum((float(i) - float(j)) ** 2 for i, j in zip(a, b))))
        try:
            got = float(Metric.ASSD(X, Y))
        except Exception as e:
            bad.append(f"shape {shape}: raised {type(e).__name__}: {e}"[:160])
            continue
        if not (abs(got - want) <= 1e-6 * want):
            bad.append(f"shape {shape}: single voxels at {a} and {b}: ASSD={got}, Euclidean distance {want}")
    return {"violated": bool(bad), "problems": bad[:3]}


def bounded(params):
    tier, seed = params.get("tier", "quick"), int(params.get("seed", 0))
    rng = random.Random(seed)
    failures, evals, nontriv = [], 0, 0
    shapes = [(5,), (2, 3), (2, 2, 2)]
    for shape in shapes:
        n = int(np.prod(shape))
        masks = [np.array(b, bool).reshape(shape) for b in itertools.product([0, 1], repeat=n) if any(b)]
        pairs = [(a, b) for a in masks for b in masks]
        if tier == "quick" or len(pairs) > 5000:
            rng.shuffle(pairs)
            pairs = pairs[: (250 if tier == "quick" else 5000)]
        for X, Y in pairs:
            evals += 1
            nontriv += 1 if not np.array_equal(X, Y) else 0
            try:
                bad = check_pair(X, Y)
            except Exception as e:
                bad = [f"raised {type(e).__name__}: {e}"[:160]]
            if bad and len(failures) < 5:
                failures.append({"input": {"X": X.astype(int).tolist(), "Y": Y.astype(int).tolist()}, "problems": bad[:3], "replay_kind": "c07.assd"})
    nrng = np.random.RandomState(seed)
    for it_no in range(16 if tier == "quick" else 300):
        nd = rng.choice([1, 2, 3])
        shape = tuple(nrng.randint(2, 6, size=nd))
        if it_no % 4 == 3 and nd > 1:
            # a singleton axis (a 2-D image stored as a one-slice volume): the out-of-array faces along it still make every voxel a border voxel
            ax = rng.randrange(nd)
            shape = tuple(1 if k == ax else max(3, s) for k, s in enumerate(shape))
        X, Y = nrng.rand(*shape) < 0.4, nrng.rand(*shape) < 0.4
        if X.any() and Y.any():
            evals += 1
            try:
                bad = check_pair(X, Y)
            except Exception as e:
                bad = [f"raised {type(e).__name__}: {e}"[:160]]
            if bad and len(failures) < 5:
                failures.append({"input": {"X": X.astype(int).tolist(), "Y": Y.astype(int).tolist()}, "problems": bad[:3], "replay_kind": "c07.assd"})
    # history: a call with another connectivity must not change what later default calls compute (no state kept between calls)
    from panoptica.metrics import Metric as _M
    Xc = np.zeros((7, 7), bool); Xc[1:6, 1:6] = True; Xc[1:3, 1:3] = False   # concave corner: 4- and 8-connected borders differ
    Yc = np.zeros((7, 7), bool); Yc[2:7, 2:7] = True
    X3 = np.zeros((5, 5, 5), bool); X3[1:4, 1:4, 1:4] = True; X3[1, 1, 1] = False
    Y3 = np.zeros((5, 5, 5), bool); Y3[2:5, 2:5, 2:5] = True
    for A_, B_ in ((Xc, Yc), (X3, Y3)):
        evals += 1
        try:
            want_ = SM.assd(SM.vox(A_), SM.vox(B_), A_.ndim)
            # the state-dependence only shows if the FIRST call of the process uses another connectivity: run the sequence in a fresh interpreter too
            first = float(_M.ASSD(A_, B_))
            for conn in (2, A_.ndim):
                _M.ASSD(reference_arr=A_, prediction_arr=B_, connectivity=conn)
            again = float(_M.ASSD(A_, B_))
            import subprocess, sys as _sys, json as _json
            code = ("import json, numpy as np\nfrom panoptica.metrics import Metric\n"
                    f"A = np.array({A_.astype(int).tolist()}, bool); B = np.array({B_.astype(int).tolist()}, bool)\n"
                    f"Metric.ASSD(reference_arr=A, prediction_arr=B, connectivity={A_.ndim})\nprint(json.dumps(float(Metric.ASSD(A, B))))\n")
            pr_ = subprocess.run([_sys.executable, "-W", "ignore", "-c", code], capture_output=True, text=True, timeout=120, env=dict(os.environ, PANOPTICA_CITATION_REMINDER="false"))
            fresh_after = _json.loads(pr_.stdout.strip().splitlines()[-1]) if pr_.returncode == 0 and pr_.stdout.strip() else None
            if fresh_after is None or not _close(fresh_after, want_):
                first = first if fresh_after is None else first
                hb0 = f"in a fresh process, a default ASSD call AFTER a call with connectivity={A_.ndim} returns {fresh_after}, brute force {want_}: state kept between calls" if fresh_after is not None else f"fresh-process run failed: {pr_.stderr[-160:]}"
            else:
                hb0 = None
            hb = [hb0] if hb0 else []
            if not _close(first, want_):
                hb.append(f"ASSD={first} brute force {want_}")
            if not _close(again, first):
                hb.append(f"a default ASSD call returns {again} after calls with another connectivity, {first} before: state kept between calls")
        except Exception as e:
            hb = [f"raised {type(e).__name__}: {e}"[:160]]
        if hb and len(failures) < 5:
            failures.append({"input": {"X": A_.astype(int).tolist(), "Y": B_.astype(int).tolist(), "history": "default, connectivity=2/3, default"}, "problems": hb, "replay_kind": "c07.assd"})
    # the evaluator's per-instance ASSD is the metric of exactly those masks (also in arrays with a singleton axis)
    from .util import serial_pools as _sp
    _sp()
    from panoptica import Panoptica_Evaluator, InputType
    for shape, ax in (((1, 6, 6), 0), ((6, 6, 1), 2), ((1, 9), 0), ((6, 6), None)):
        ref_ = np.zeros(shape, np.uint8); pred_ = np.zeros(shape, np.uint8)
        sl = lambda lo, hi: tuple(slice(None) if k == ax else slice(lo, hi) for k in range(len(shape)))
        ref_[sl(0, 4)] = 1
        pred_[sl(1, 6)] = 1
        evals += 1
        try:
            ev_ = Panoptica_Evaluator(expected_input=InputType.MATCHED_INSTANCE, instance_metrics=[_M.DSC, _M.IOU, _M.ASSD], global_metrics=[])
            res_ = ev_.evaluate(pred_.copy(), ref_.copy(), verbose=False)["ungrouped"][0]
            got_ = float(res_.sq_assd)
            want_ = SM.assd(SM.vox(ref_ == 1), SM.vox(pred_ == 1), len(shape))
            eb = [] if _close(got_, want_) else [f"evaluator sq_assd={got_} but the ASSD of the two instance masks is {want_} (shape {shape})"]
        except Exception as e:
            eb = [f"raised {type(e).__name__}: {e}"[:160]]
        if eb and len(failures) < 5:
            failures.append({"input": {"pred": pred_.tolist(), "ref": ref_.tolist(), "through": "Panoptica_Evaluator (matched input)"}, "problems": eb, "replay_kind": "c07.assd"})
    # solid objects in arrays with a singleton axis (one-slice volume, one-column image): interior voxels are border voxels there
    for shape, ax in (((1, 6, 6), 0), ((6, 6, 1), 2), ((6, 1, 6), 1), ((1, 7), 0), ((7, 1), 1)):
        X, Y = np.zeros(shape, bool), np.zeros(shape, bool)
        sl = lambda lo, hi: tuple(slice(None) if k == ax else slice(lo, hi) for k in range(len(shape)))
        X[sl(0, 4)] = True
        Y[sl(1, 6)] = True
        evals += 1
        nontriv += 1
        try:
            bad = check_pair(X, Y)
        except Exception as e:
            bad = [f"raised {type(e).__name__}: {e}"[:160]]
        if bad and len(failures) < 5:
            failures.append({"input": {"X": X.astype(int).tolist(), "Y": Y.astype(int).tolist()}, "problems": bad[:3], "replay_kind": "c07.assd"})
    return {"evaluations": evals, "distinct_nontrivial": nontriv, "failures": failures, "exhaustive": tier != "quick",
            "rule": "pairs of non-empty binary masks of shape (5,), (2,3), (2,2,2) (quick: 250 seeded pairs per shape; thorough: all up to 5000) plus seeded larger masks: real ASSD vs brute-force border/nearest-distance specification, symmetry, zero-iff-borders-coincide, invariance under zero padding, label-selection form; this also conformance-tests the assumed scipy erosion / feature-transform contracts",
            "bound": "<= 8 voxels exhaustive family, up to 5^3 seeded"}
