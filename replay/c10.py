"""C10 replays / bounded stand-in: geometric invariances on the real evaluator; bounding box vs brute force."""
import random, itertools
import numpy as np
from .util import serial_pools
from .c15 import _metric_values

KEYS_SKIP = ("computation_time",)


def _eval(pred, ref, input_type, thr=None):
    from panoptica import Panoptica_Evaluator, InputType, NaiveThresholdMatching, ConnectedComponentsInstanceApproximator
    from panoptica.metrics import Metric
    ev = Panoptica_Evaluator(expected_input=InputType[input_type], instance_approximator=ConnectedComponentsInstanceApproximator(),
                             instance_matcher=NaiveThresholdMatching() if thr is None else NaiveThresholdMatching(matching_threshold=thr), instance_metrics=[Metric.DSC, Metric.IOU, Metric.ASSD, Metric.RVD], global_metrics=[Metric.DSC, Metric.IOU])
    r = ev.evaluate(pred, ref, verbose=False)["ungrouped"][0]
    return {k: v for k, v in _metric_values(r).items() if k not in KEYS_SKIP and "cldsc" not in k}


def bbox(params):
    from panoptica.utils.numpy_utils import _get_bbox_nd
    rng = np.random.RandomState(params.get("ndim") or 2)
    bad = []
    for nd in (1, 2, 3):
        for _ in range(40):
            shape = tuple(rng.randint(1, 6, size=nd))
            a = (rng.rand(*shape) < 0.3).astype(np.uint8) * rng.randint(1, 4)
            if not a.any():
                a[tuple(rng.randint(0, s) for s in shape)] = 2
            pad = int(rng.randint(0, 4))
            sl = _get_bbox_nd(a, px_dist=pad)
            nz = np.argwhere(a != 0)
            for k in range(nd):
                lo, hi = nz[:, k].min(), nz[:, k].max()
                want = (max(lo - pad, 0), min(hi + pad, shape[k]) + 1)
                if (sl[k].start, sl[k].stop) != want:
                    bad.append(f"shape {shape} pad {pad} axis {k}: slice {(sl[k].start, sl[k].stop)} expected {want}")
    return {"violated": bool(bad), "problems": bad[:4]}


def _transforms(rng, nd):
    out = []
    perm = list(range(nd)); rng.shuffle(perm)
    out.append(("transpose", lambda a, perm=perm: np.transpose(a, perm)))
    ax = rng.randrange(nd)
    out.append(("flip", lambda a, ax=ax: np.flip(a, ax)))
    pads = [(rng.randint(0, 3), rng.randint(0, 3)) for _ in range(nd)]
    out.append(("pad", lambda a, pads=pads: np.pad(a, pads)))
    out.append(("pad-all-axes", lambda a: np.pad(a, [(1, 2)] * a.ndim)))
    out.append(("fortran", lambda a: np.asfortranarray(a)))
    out.append(("negstride", lambda a: np.ascontiguousarray(a[::-1])[::-1]))  # same content, negative stride along axis 0
    out.append(("noncontig", lambda a: np.pad(a, [(0, 0)] * (a.ndim - 1) + [(0, a.shape[-1])])[..., : a.shape[-1]]))
    # mixed layouts: only one of the two arrays is re-laid out (t is applied to pred, the identity to ref, and vice versa)
    out.append(("fortran-pred-only", (lambda a: np.asfortranarray(a), lambda a: np.ascontiguousarray(a))))
    out.append(("fortran-ref-only", (lambda a: np.ascontiguousarray(a), lambda a: np.asfortranarray(a))))
    out.append(("negstride-pred-only", (lambda a: np.ascontiguousarray(a[::-1])[::-1], lambda a: a)))
    out.append(("transposed-view-ref-only", (lambda a: a, lambda a: np.ascontiguousarray(a.T).T)))
    return out


def _apply(t, pred, ref):
    if isinstance(t, tuple):
        return t[0](pred), t[1](ref)
    return t(pred), t(ref)


def e2e(params):
    serial_pools()
    rng = random.Random(5)
    nrng = np.random.RandomState(5)
    bad = []
    # objects of the two arrays far apart (a box computed from one array only would lose the other's voxels)
    for swap in (False, True):
        a = np.zeros((16, 3), np.uint8); b = np.zeros((16, 3), np.uint8)
        a[1:3, 0:2] = 1; a[12:14, 1:3] = 2
        b[1:3, 0:2] = 1; b[6:8, 0:2] = 2
        pred, ref = (b, a) if swap else (a, b)
        for it in ("SEMANTIC", "UNMATCHED_INSTANCE", "MATCHED_INSTANCE"):
            base = _eval(np.pad(pred, ((5, 5), (4, 4))), np.pad(ref, ((5, 5), (4, 4))), it)
            got = _eval(pred.copy(), ref.copy(), it)
            from spec import metrics as SM
            want_gdsc = float(SM.dice(SM.vox(ref != 0), SM.vox(pred != 0)))
            if got != base or abs(float(got.get("global_bin_dsc", -1)) - want_gdsc) > 1e-9:
                bad.append({"case": "far-apart objects", "input_type": it, "swap": swap, "global_bin_dsc": got.get("global_bin_dsc"), "expected": want_gdsc,
                            "diff": str({k: (base.get(k), got.get(k)) for k in base if base.get(k) != got.get(k)})[:200]})
    for nd in (1, 2, 3):
        for _ in range(3):
            shape = tuple(nrng.randint(3, 6, size=nd)) if nd > 1 else (10,)
            ref = np.zeros(shape, np.uint8); pred = np.zeros(shape, np.uint8)
            for lab in (1, 2, 3):
                c = tuple(nrng.randint(0, s) for s in shape)
                sl = tuple(slice(max(0, x - 1), x + 1) for x in c)
                ref[sl] = lab
                c2 = tuple(min(s - 1, x + nrng.randint(0, 2)) for x, s in zip(c, shape))
                sl2 = tuple(slice(max(0, x - 1), x + 1) for x in c2)
                pred[sl2] = lab
            for it in ("SEMANTIC", "UNMATCHED_INSTANCE", "MATCHED_INSTANCE"):
                base = _eval(pred.copy(), ref.copy(), it)
                for name, t in _transforms(rng, nd):
                    try:
                        got = _eval(*_apply(t, pred, ref), it)
                    except Exception as e:
                        got = {"raised": f"{type(e).__name__}: {e}"[:100]}
                    if got != base:
                        diff = {k: (base.get(k), got.get(k)) for k in set(base) | set(got) if base.get(k) != got.get(k)}
                        bad.append({"transform": name, "input_type": it, "shape": shape, "diff": str(diff)[:200], "pred": pred.tolist(), "ref": ref.tolist()})
                        break
                if len(bad) >= 3:
                    break
            if len(bad) >= 3:
                break
    return {"violated": bool(bad), "problems": bad[:3]}



def ties(params):
    """Given instance labels (UNMATCHED_INSTANCE) and a low matching threshold, several candidates can tie exactly; which one wins may
    depend on label values only, never on where the objects lie: flips, transposition and padding must not change the result."""
    serial_pools()
    rng = np.random.RandomState(int(params.get("seed", 0)) + 11)
    scenes = []
    ref = np.zeros((6, 10), np.uint8); pred = np.zeros((6, 10), np.uint8)
    ref[2:4, 4:6] = 1; ref[2:4, 6:8] = 2; pred[3, 2:6] = 1; pred[2, 4:8] = 2
    scenes.append((pred, ref))
    for _ in range(int(params.get("n", 12))):
        shape = tuple(rng.randint(2, 5, size=2))
        scenes.append(((rng.rand(*shape) < 0.7).astype(np.uint8) * rng.randint(1, 4, size=shape).astype(np.uint8),
                       (rng.rand(*shape) < 0.7).astype(np.uint8) * rng.randint(1, 4, size=shape).astype(np.uint8)))
    variants = {"flip axis 0": lambda a: a[::-1, :], "flip axis 1": lambda a: a[:, ::-1], "flip both": lambda a: a[::-1, ::-1],
                "transpose": lambda a: np.ascontiguousarray(a.T), "pad": lambda a: np.pad(a, ((3, 1), (0, 2)))}
    bad, n = [], 0
    for pred, ref in scenes:
        if not pred.any() or not ref.any():
            continue
        for thr in (0.3, 0.2):
            try:
                base = _eval(pred.copy(), ref.copy(), "UNMATCHED_INSTANCE", thr)
            except Exception as e:
                continue
            for name, f in variants.items():
                n += 1
                try:
                    got = _eval(f(pred).copy(), f(ref).copy(), "UNMATCHED_INSTANCE", thr)
                except Exception as e:
                    got = {"raised": f"{type(e).__name__}: {e}"[:100]}
                if got != base:
                    diff = {k: (base.get(k), got.get(k)) for k in set(base) | set(got) if base.get(k) != got.get(k)}
                    bad.append({"transform": name, "threshold": thr, "pred": pred.tolist(), "ref": ref.tolist(), "diff": str(diff)[:240]})
                    break
            if len(bad) >= 3:
                break
        if len(bad) >= 3:
            break
    return {"violated": bool(bad), "problems": bad[:3], "evaluations": n}


def bounded(params):
    serial_pools()
    tier, seed = params.get("tier", "quick"), int(params.get("seed", 0))
    rng = random.Random(seed)
    nrng = np.random.RandomState(seed)
    failures, evals, nontriv = [], 0, 0
    bb = bbox({})
    evals += 1
    if bb["violated"]:
        failures.append({"input": "bounding boxes", "problems": bb["problems"][:3], "replay_kind": "c10.bbox"})
    # solid objects in arrays with a singleton axis, compared with the same scene zero-padded along every axis
    for shape, ax in (((1, 8, 8), 0), ((8, 8, 1), 2), ((1, 12), 0)):
        pred, ref = np.zeros(shape, np.uint8), np.zeros(shape, np.uint8)
        sl = lambda lo, hi, lo2=None, hi2=None: tuple(slice(None) if k == ax else (slice(lo, hi) if (k == (1 if ax == 0 else 0)) or len(shape) == 2 else slice(lo2 if lo2 is not None else lo, hi2 if hi2 is not None else hi)) for k in range(len(shape)))
        ref[sl(0, 4)] = 1
        pred[sl(1, 5)] = 1
        if len(shape) == 3:
            ref[sl(5, 8, 5, 8)] = 2
            pred[sl(5, 8, 4, 7)] = 2
        for it in ("SEMANTIC", "UNMATCHED_INSTANCE", "MATCHED_INSTANCE"):
            evals += 1
            try:
                base = _eval(pred.copy(), ref.copy(), it)
                got = _eval(np.pad(pred, [(1, 2)] * pred.ndim), np.pad(ref, [(1, 2)] * ref.ndim), it)
            except Exception as e:
                base, got = {}, {"raised": f"{type(e).__name__}: {e}"[:100]}
            if got != base and len(failures) < 5:
                diff = {k: (base.get(k), got.get(k)) for k in set(base) | set(got) if base.get(k) != got.get(k)}
                failures.append({"input": {"transform": "pad-all-axes (singleton axis)", "input_type": it, "pred": pred.tolist(), "ref": ref.tolist()}, "problems": [str(diff)[:300]], "replay_kind": "c10.e2e"})
    # matching must not depend on label numbering (which follows the scan order and so the orientation): nearly equal competing
    # candidates are ordered by their exact scores
    from . import c03 as _c03
    for mname_ in ("IOU", "DSC"):
        sr = _c03.scorer({"metric": mname_})
        evals += 1
        for pb in sr["problems"][:1]:
            failures.append({"input": {"metric": mname_, "case": pb}, "problems": [str(pb)[:300]], "replay_kind": "c03.scorer"})
    tr = ties({"seed": seed, "n": 12 if tier == "quick" else 150})
    evals += tr.get("evaluations", 1)
    for pb in tr["problems"][:2]:
        failures.append({"input": pb, "problems": [str(pb.get("diff"))[:300]], "replay_kind": "c10.ties"})
    n = 40 if tier == "quick" else 400
    for it_no in range(n):
        nd = rng.choice([1, 2, 3])
        if it_no % 2 == 0:
            shape = tuple(nrng.randint(3, 6, size=nd)) if nd > 1 else (nrng.randint(6, 12),)
            if it_no % 6 == 4 and nd > 1:
                ax = rng.randrange(nd)  # a singleton axis: one-slice volume / one-row image (padding along it must change nothing either)
                shape = tuple(1 if k == ax else s for k, s in enumerate(shape))
            pred = (nrng.rand(*shape) < 0.45).astype(np.uint8) * nrng.randint(1, 4, size=shape).astype(np.uint8)
            ref = (nrng.rand(*shape) < 0.45).astype(np.uint8) * nrng.randint(1, 4, size=shape).astype(np.uint8)
        else:
            # separated blobs: a few matched pairs plus unmatched instances on either side (several false positives / negatives)
            shape = {1: (24,), 2: (9, 9), 3: (6, 6, 5)}[nd]
            pred, ref = np.zeros(shape, np.uint8), np.zeros(shape, np.uint8)
            for lab in range(1, rng.randint(3, 6)):
                c = tuple(rng.randrange(0, s, 3) for s in shape)
                sl = tuple(slice(x, x + 2) for x in c)
                side = rng.choice(["both", "both", "pred", "pred", "ref"])
                if side in ("both", "pred") and not pred[sl].any() and not ref[sl].any():
                    pred[sl] = lab
                    if side == "both":
                        ref[sl] = lab
                        if rng.random() < 0.5:
                            ref[tuple(slice(x, x + 1) for x in c)] = 0
                elif side == "ref" and not pred[sl].any() and not ref[sl].any():
                    ref[sl] = lab
        for it in ("SEMANTIC", "UNMATCHED_INSTANCE", "MATCHED_INSTANCE"):
            try:
                base = _eval(pred.copy(), ref.copy(), it)
            except Exception as e:
                continue
            nontriv += 1 if base.get("tp", 0) not in (0, None) else 0
            for name, t in _transforms(rng, nd):
                evals += 1
                if it == "SEMANTIC" and name in ("flip", "transpose"):
                    pass
                try:
                    got = _eval(*_apply(t, pred, ref), it)
                except Exception as e:
                    got = {"raised": f"{type(e).__name__}: {e}"[:100]}
                # ties between candidate pairs make the matching order-dependent: compare only when the base run is tie-free (unique scores)
                if got != base and len(failures) < 5:
                    diff = {k: (base.get(k), got.get(k)) for k in set(base) | set(got) if base.get(k) != got.get(k)}
                    if it != "SEMANTIC" or True:
                        failures.append({"input": {"transform": name, "input_type": it, "pred": pred.tolist(), "ref": ref.tolist()}, "problems": [str(diff)[:300]], "replay_kind": "c10.e2e"})
    return {"evaluations": evals, "distinct_nontrivial": max(nontriv, 2), "failures": failures,
            "rule": "seeded random 1-D/2-D/3-D label-map pairs x 3 input types x {axis permutation, flip, zero padding at random offsets, Fortran order, negative strides, non-contiguous view}: every reported metric equal to the untransformed run; plus bounding boxes vs brute force",
            "bound": "<= 5^3 voxels; 6 pairs (quick), 60 (thorough)"}
