"""C08 replays and bounded stand-in (real edge-case handler / result / evaluator)."""
import math, random, itertools
import numpy as np
from .util import serial_pools

ECR_ORDER = ["INF", "NAN", "ZERO", "ONE", "NONE"]
ECR_VALUE = {"INF": math.inf, "NAN": math.nan, "ZERO": 0.0, "ONE": 1.0, "NONE": None}
SCEN = ["NO_INSTANCES", "EMPTY_PRED", "EMPTY_REF", "NORMAL"]
SQ_ATTR = {"IOU": "sq", "DSC": "sq_dsc", "ASSD": "sq_assd", "RVD": "sq_rvd", "clDSC": "sq_cldsc"}


def same(a, b):
    if a is None or b is None:
        return a is None and b is None
    try:
        if math.isnan(a):
            return isinstance(b, float) and math.isnan(b)
    except TypeError:
        return False
    return a == b


def scenario(npred, nref):
    if npred + nref == 0:
        return "NO_INSTANCES"
    if nref == 0:
        return "EMPTY_REF"
    if npred == 0:
        return "EMPTY_PRED"
    return "NORMAL"


def _mztp(cfg):
    from panoptica.utils.edge_case_handling import MetricZeroTPEdgeCaseHandling, EdgeCaseResult
    E = lambda i: EdgeCaseResult[ECR_ORDER[i]]
    return MetricZeroTPEdgeCaseHandling(no_instances_result=E(cfg["NO_INSTANCES"]), empty_prediction_result=E(cfg["EMPTY_PRED"]),
                                        empty_reference_result=E(cfg["EMPTY_REF"]), normal=E(cfg["NORMAL"]))


def _handler(metric_names, cfg, std):
    from panoptica.utils.edge_case_handling import EdgeCaseHandler, EdgeCaseResult
    from panoptica.metrics import Metric
    return EdgeCaseHandler({Metric[m]: _mztp(cfg) for m in metric_names}, empty_list_std=EdgeCaseResult[ECR_ORDER[std]])


def mztp(params):
    cfg, tp, npred, nref = params["cfg"], params["tp"], params["npred"], params["nref"]
    try:
        got = _mztp(cfg)(tp, npred, nref)
    except Exception as e:
        return {"violated": True, "exception": f"{type(e).__name__}: {e}"[:200]}
    if tp != 0:
        want = (False, None)
    else:
        want = (True, ECR_VALUE[ECR_ORDER[cfg[scenario(npred, nref)]]])
    ok = got[0] == want[0] and same(got[1], want[1])
    return {"violated": not ok, "got": repr(got), "want": repr(want)}


def handlers(params):
    """a handler keeps prescribing its own configuration after other handlers have been constructed"""
    from panoptica.utils.edge_case_handling import EdgeCaseHandler
    from panoptica.metrics import Metric
    cfg, cfgB, npred, nref = params["cfg"], params.get("cfgB") or {k: (v + 1) % 5 for k, v in params["cfg"].items()}, params["npred"], params["nref"]
    bad = []
    try:
        hA = _handler(["IOU"], cfg, params.get("std", 0))
        hD = EdgeCaseHandler()
        _handler(["IOU", "DSC"], cfgB, params.get("stdB", 1))
        EdgeCaseHandler()
        cases = [(npred, nref), (0, 0), (0, 3), (3, 0), (2, 2)]
        for np_, nr_ in cases:
            got = hA.handle_zero_tp(Metric.IOU, 0, np_, nr_)
            want = ECR_VALUE[ECR_ORDER[cfg[scenario(np_, nr_)]]]
            if not (got[0] is True and same(got[1], want)):
                bad.append(f"configured handler, n_pred={np_}, n_ref={nr_}: prescribes {got[1]!r} for IOU, its configuration says {want!r}")
            gd = hD.handle_zero_tp(Metric.DSC, 0, np_, nr_)
            wd = float("nan") if np_ + nr_ == 0 else 0.0
            if not (gd[0] is True and same(gd[1], wd)):
                bad.append(f"default handler, n_pred={np_}, n_ref={nr_}: prescribes {gd[1]!r} for DSC, the default is {wd!r}")
    except Exception as e:
        bad.append(f"raised {type(e).__name__}: {e}"[:200])
    return {"violated": bool(bad), "problems": bad[:6]}


MULTI_CFG = {"RVD": (0, 1, 2, 3), "ASSD": (1, 2, 3, 4), "IOU": (2, 3, 4, 0), "DSC": (3, 4, 0, 1), "clDSC": (4, 0, 1, 2)}
_SCN = ["NO_INSTANCES", "EMPTY_PRED", "EMPTY_REF", "NORMAL"]


def result_multi(params):
    """several list metrics listed in a given order, each with its own configuration; tp == 0"""
    from panoptica.panoptica_result import PanopticaResult
    from panoptica.utils.edge_case_handling import EdgeCaseHandler, EdgeCaseResult
    from panoptica.metrics import Metric
    order = params["order"]
    bad = []
    for npred, nref in [(params.get("npred", 0), params.get("nref", 0)), (0, 0), (0, 2), (2, 0), (1, 1)]:
        try:
            cfgs = {m: dict(zip(_SCN, MULTI_CFG[m])) for m in order}
            h = EdgeCaseHandler({Metric[m]: _mztp(cfgs[m]) for m in order}, empty_list_std=EdgeCaseResult[ECR_ORDER[1]])
            res = PanopticaResult(reference_arr=None, prediction_arr=None, num_pred_instances=npred, num_ref_instances=nref, tp=0,
                                  list_metrics={Metric[m]: [] for m in order}, edge_case_handler=h)
            for m in order:
                want = ECR_VALUE[ECR_ORDER[cfgs[m][scenario(npred, nref)]]]
                got = getattr(res, SQ_ATTR[m])
                if not same(got, want):
                    bad.append(f"metrics listed as {order}, n_pred={npred}, n_ref={nref}: {SQ_ATTR[m]}={got!r}, its handler prescribes {want!r}")
        except Exception as e:
            bad.append(f"raised {type(e).__name__}: {e}"[:200])
    return {"violated": bool(bad), "problems": bad[:6]}


def enum_eq(params):
    """equality of the members of one _Enum_Compare enumeration"""
    import importlib
    mod, _, name = params["cls"].rpartition(".")
    cls = getattr(importlib.import_module(mod), name)
    bad = []
    for a in cls:
        for b in cls:
            if (a == b) is not (a is b):
                bad.append(f"{a} == {b} gives {a == b}")
        if not (a == a.name) or (a == a.name + "_") or (a == 0):
            bad.append(f"{a} compared with strings / other objects: {a == a.name}, {a == a.name + '_'}, {a == 0}")
    return {"violated": bool(bad), "problems": bad[:5]}


def result(params):
    from panoptica.panoptica_result import PanopticaResult
    from panoptica.metrics import Metric, MetricMode
    cfg, std, npred, nref, m = params["cfg"], params["std"], params["npred"], params["nref"], params["metric"]
    bad = []
    try:
        res = PanopticaResult(reference_arr=None, prediction_arr=None, num_pred_instances=npred, num_ref_instances=nref, tp=0,
                              list_metrics={Metric[m]: []}, edge_case_handler=_handler([m], cfg, std))
        want = ECR_VALUE[ECR_ORDER[cfg[scenario(npred, nref)]]]
        got = getattr(res, SQ_ATTR[m])
        if not same(got, want):
            bad.append(f"{SQ_ATTR[m]}={got!r} expected {want!r}")
        gs = getattr(res, SQ_ATTR[m] + "_std")
        if not same(gs, ECR_VALUE[ECR_ORDER[std]]):
            bad.append(f"{SQ_ATTR[m]}_std={gs!r} expected {ECR_VALUE[ECR_ORDER[std]]!r}")
        if res.tp != 0 or res.fp != npred or res.fn != nref:
            bad.append(f"tp/fp/fn = {res.tp}/{res.fp}/{res.fn}")
    except Exception as e:
        bad.append(f"raised {type(e).__name__}: {e}"[:200])
    return {"violated": bool(bad), "problems": bad}


def _inputs(scn, input_type):
    """small arrays realising a zero-TP scenario through an input type."""
    z = np.zeros(8, np.uint8)
    a = z.copy(); a[1:3] = 1
    b = z.copy(); b[5:7] = 1          # disjoint from a -> instances on both sides without a match
    if scn == "NO_INSTANCES":
        return z.copy(), z.copy(), 0, 0
    if scn == "EMPTY_PRED":
        return z.copy(), a, 0, 1
    if scn == "EMPTY_REF":
        return a, z.copy(), 1, 0
    if input_type == "MATCHED_INSTANCE":
        b = b * 2                      # different labels => unmatched in matched input
    return a, b, 1, 1


def bounded(params):
    serial_pools()
    from panoptica import Panoptica_Evaluator, InputType, ConnectedComponentsInstanceApproximator, NaiveThresholdMatching
    from panoptica.metrics import Metric
    tier, seed = params.get("tier", "quick"), int(params.get("seed", 0))
    rng = random.Random(seed)
    metrics = ["DSC", "IOU", "ASSD", "RVD"]
    combos = [(m, s, v, sd, it) for m in metrics for s in SCEN for v in range(5) for sd in range(5)
              for it in ("SEMANTIC", "UNMATCHED_INSTANCE", "MATCHED_INSTANCE")]
    if tier == "quick":
        rng.shuffle(combos)
        combos = combos[:160]
    failures, evals, distinct = [], 0, set()
    for m, scn, v, sd, it in combos:
        cfg = {s: (v if s == scn else (v + 1 + SCEN.index(s)) % 5) for s in SCEN}
        pred, ref, npred, nref = _inputs(scn, it)
        evals += 1
        distinct.add((m, scn, v, sd, it))
        bad = []
        try:
            ev = Panoptica_Evaluator(expected_input=InputType[it], instance_approximator=ConnectedComponentsInstanceApproximator(),
                                     instance_matcher=NaiveThresholdMatching(), edge_case_handler=_handler(metrics, cfg, sd),
                                     instance_metrics=[Metric[x] for x in metrics], global_metrics=[])
            res = ev.evaluate(pred.copy(), ref.copy(), verbose=False)["ungrouped"][0]
            want = ECR_VALUE[ECR_ORDER[v]]
            got = getattr(res, SQ_ATTR[m])
            if not same(got, want):
                bad.append(f"{SQ_ATTR[m]}={got!r} expected {want!r}")
            gs = getattr(res, SQ_ATTR[m] + "_std")
            if not same(gs, ECR_VALUE[ECR_ORDER[sd]]):
                bad.append(f"{SQ_ATTR[m]}_std={gs!r} expected {ECR_VALUE[ECR_ORDER[sd]]!r}")
            if res.tp != 0 or res.fp != npred or res.fn != nref:
                bad.append(f"tp/fp/fn={res.tp}/{res.fp}/{res.fn} expected 0/{npred}/{nref}")
        except Exception as e:
            bad.append(f"raised {type(e).__name__}: {e}"[:200])
        if bad and len(failures) < 5:
            failures.append({"input": {"metric": m, "scenario": scn, "cfg": cfg, "std": sd, "input_type": it}, "problems": bad, "replay_kind": "c08.e2e"})
    return {"evaluations": evals, "distinct_nontrivial": len(distinct), "failures": failures, "exhaustive": tier != "quick",
            "rule": "metric x scenario x configured result x empty-list-std x input type through the real evaluator (quick: 160 seeded of 1200; thorough: all); each case distinct and a zero-TP scenario",
            "bound": "1-D arrays of length 8"}


def e2e(params):
    p = dict(params)
    return {"violated": True, "note": "re-run bounded for details", "input": p}
