"""C18 replays / bounded stand-in: aggregator output vs statistics loader on the real code."""
import os, math, random, tempfile
import numpy as np
from .util import serial_pools

WC = "group name containing '-' breaks the header split"


def _same(a, b):
    if a is None or b is None:
        return a is None and b is None
    return a == b


def roundtrip(group_names, subjects, metrics=None, log_times=False):
    """evaluate subjects through a real aggregator, load with make_statistic, compare every value with the result's own."""
    from panoptica import Panoptica_Evaluator, Panoptica_Aggregator, InputType, NaiveThresholdMatching
    from panoptica.utils.segmentation_class import SegmentationClassGroups
    from panoptica.utils.label_group import LabelGroup
    from panoptica.metrics import Metric
    from panoptica.utils.edge_case_handling import EdgeCaseHandler, MetricZeroTPEdgeCaseHandling, EdgeCaseResult
    bad = []
    groups = SegmentationClassGroups({g: LabelGroup([i + 1]) for i, g in enumerate(group_names)})
    mets = metrics or [Metric.DSC, Metric.IOU, Metric.ASSD, Metric.RVD]
    handler = EdgeCaseHandler({m: MetricZeroTPEdgeCaseHandling(no_instances_result=EdgeCaseResult.NAN, empty_prediction_result=EdgeCaseResult.INF,
                                                               empty_reference_result=EdgeCaseResult.NONE, normal=EdgeCaseResult.ZERO) for m in Metric},
                              empty_list_std=EdgeCaseResult.NAN)
    ev = Panoptica_Evaluator(expected_input=InputType.MATCHED_INSTANCE, segmentation_class_groups=groups, instance_metrics=mets,
                             global_metrics=[Metric.DSC], edge_case_handler=handler, save_group_times=log_times)
    with tempfile.TemporaryDirectory() as d:
        out = os.path.join(d, "results.tsv")
        agg = Panoptica_Aggregator(ev, out, log_times=log_times)
        expected = {}
        for name, (pred, ref) in subjects.items():
            res = ev.evaluate(pred.copy(), ref.copy(), verbose=False)
            expected[name] = {g: r[0].to_dict() for g, r in res.items()}
            agg.evaluate(pred.copy(), ref.copy(), name)
        st = agg.make_statistic()
    keys = [k for k in ev.resulting_metric_keys]
    for name in subjects:
        try:
            one = st.get_one_subject(name)
        except Exception as e:
            bad.append(f"subject {name!r}: {type(e).__name__}: {e}"[:160])
            continue
        for g in expected[name]:
            if g not in one:
                bad.append(f"group {g!r} missing for subject {name!r} (loader has groups {sorted(one)})")
                continue
            for k in keys:
                want = expected[name][g].get(k, None)
                if want is not None:
                    want = float(want)
                    if math.isnan(want) or math.isinf(want):
                        want = None
                got = one[g].get(k, "<no such metric>")
                if not _same(got, want):
                    bad.append(f"{name!r}/{g!r}/{k}: loader {got!r}, result {want!r}")
    return bad


def _subjects(rng, ngroups, n):
    out = {}
    for i in range(n):
        L = 12
        pred, ref = np.zeros(L, np.uint8), np.zeros(L, np.uint8)
        for g in range(ngroups):
            mode = rng.choice(["both", "pred", "ref", "none", "shift"])
            a, b = 2 + 3 * (g % 3), 4 + 3 * (g % 3)
            if mode in ("both", "shift"):
                ref[a:b] = g + 1
                pred[a + (1 if mode == "shift" else 0):b + (1 if mode == "shift" else 0)] = g + 1
            elif mode == "pred":
                pred[a:b] = g + 1
            elif mode == "ref":
                ref[a:b] = g + 1
        out[rng.choice(["s", "case 1", "a-b", "x\ty", "Ünï", "7", "subj,1", "q\"uote"]) + str(i)] = (pred, ref)
    return out


def names(params):
    serial_pools()
    bad = []
    rng = random.Random(3)
    for gnames in (["a-b", "plain"], ["-", "x"], ["A B", "c_d"], ["UPPER", "lower-case-name"]):
        try:
            b = roundtrip(gnames, _subjects(rng, len(gnames), 2))
        except Exception as e:
            b = [f"groups {gnames}: raised {type(e).__name__}: {e}"[:200]]
        bad += b
    dash = any("-" in str(x) or "unpack" in str(x) for x in bad)
    return {"violated": bool(bad), "problems": bad[:5], "witness_class": WC if dash else None}


def reader(params):
    """hand-written result tables with every kind of cell through the real loader"""
    import csv, tempfile
    from panoptica.panoptica_statistics import Panoptica_Statistic
    bad = []
    cells = [("", None), ("nan", None), ("inf", None), ("-inf", None), ("0.25", 0.25), ("-1.5", -1.5), ("2.5e-05", 2.5e-05), ("3e+16", 3e16), ("7", 7.0),
             # every spelling float() reads as not-a-number / infinite is "missing", however it is written
             ("NaN", None), ("-nan", None), ("Inf", None), ("Infinity", None), ("-Infinity", None), ("+inf", None), ("1e999", None), ("-1e999", None), (" 0.5 ", 0.5), ("+2.0", 2.0)]
    for pos in range(4):
        for text, want in cells:
            row = ["1.5", "2.5", "3.5", "4.5"]
            row[pos] = text
            with tempfile.TemporaryDirectory() as d:
                p = os.path.join(d, "t.tsv")
                with open(p, "w", newline="") as f:
                    w = csv.writer(f, delimiter="\t", lineterminator="\n")
                    w.writerow(["subject_name", "g a-m_one", "g a-m2", "h-b-m_one", "h-b-m2"])
                    w.writerow(["subj 1"] + row)
                try:
                    st = Panoptica_Statistic.from_file(p)
                    one = st.get_one_subject("subj 1")
                    got = [one["g a"]["m_one"], one["g a"]["m2"], one["h-b"]["m_one"], one["h-b"]["m2"]]
                    exp = [1.5, 2.5, 3.5, 4.5]
                    exp[pos] = want
                    if got != exp:
                        bad.append(f"cell {text!r} in column {pos}: loaded {got}, expected {exp}")
                except Exception as e:
                    bad.append(f"cell {text!r} in column {pos}: {type(e).__name__}: {e}"[:160])
    wc = "-inf cell is loaded as a finite value" if bad and all("'-inf'" in b for b in bad) else None
    return {"violated": bool(bad), "problems": bad[:4], "witness_class": wc}


def e2e(params):
    r = reader(params)
    if r["violated"]:
        return r
    return names(params)


def bounded(params):
    serial_pools()
    tier, seed = params.get("tier", "quick"), int(params.get("seed", 0))
    rng = random.Random(seed)
    failures, evals, nontriv = [], 0, 0
    rd = reader({})
    evals += 1
    if rd["violated"]:
        failures.append({"input": "hand-written tables", "problems": rd["problems"][:3], "witness_class": rd.get("witness_class"), "replay_kind": "c18.reader"})
    pool = ["g", "a-b", "-", "A B", "x_y", "Tumor", "édge", "two--dashes", "tab\there"]
    n = 8 if tier == "quick" else 80
    for _ in range(n):
        k = rng.randint(1, 3)
        gnames = rng.sample(pool, k)
        if len({g.lower() for g in gnames}) < k:
            continue
        subs = _subjects(rng, k, rng.randint(1, 4))
        evals += 1
        nontriv += 1
        try:
            bad = roundtrip(gnames, subs, log_times=rng.random() < 0.4)
        except Exception as e:
            bad = [f"raised {type(e).__name__}: {e}"[:200]]
        if bad and len(failures) < 5:
            dash = any("-" in g for g in gnames) and any("unpack" in b or "missing" in b or "ValueError" in b for b in bad)
            failures.append({"input": {"groups": gnames, "subjects": list(subs)}, "problems": bad[:3], "witness_class": WC if dash else None, "replay_kind": "c18.names"})
    from . import c17 as _c17
    ho = _c17.header_order({})
    evals += 1
    for pb in ho["problems"][:1]:
        failures.append({"input": {"case": "existing file continued with reordered groups"}, "problems": [pb], "replay_kind": "c17.header_order"})
    return {"evaluations": evals, "distinct_nontrivial": nontriv, "failures": failures,
            "rule": "seeded configurations: 1-3 groups with names from a pool incl. '-', spaces, upper case, tabs, unicode x 1-4 subjects with awkward names x inputs realising TP, empty-side and no-instance scenarios (values incl. nan/inf/None); every value loaded by make_statistic compared with the result's to_dict",
            "bound": "8 configurations (quick), 80 (thorough)"}
