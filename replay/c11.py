"""C11: exchange of prediction and reference on the real code."""
import math, random
import numpy as np
from . import c01
from .c06 import _val, _call
from spec import pipeline as SP


def _close(a, b, tol=1e-9):
    return c01.close(float(a), float(b), tol)


def swap_metric_values(kind, ref, pred, r, p):
    """problems for one instance pair evaluated in both directions"""
    bad = []
    try:
        a = _call(kind, ref, pred, r, p)
    except ZeroDivisionError:
        a = None
    try:
        b = _call(kind, pred, ref, p, r)
    except ZeroDivisionError:
        b = None
    nx, ny = int((ref == r).sum()), int((pred == p).sum())
    if kind in ("IOU", "DSC", "ASSD"):
        if nx + ny > 0 and (a is None or b is None or not _close(a, b)):
            bad.append(f"{kind}(ref,pred)={a} but {kind}(pred,ref)={b}")
    else:
        if nx > 0 and ny > 0:
            if a is None or b is None or not _close(b * (1 + a), -a):
                bad.append(f"RVD(ref,pred)={a}, RVD(pred,ref)={b}, expected {-a / (1 + a) if a not in (None, -1) else None}")
    return bad


def metric(params):
    kind, dtype = params["kind"], params["dtype"]
    vox = params["voxels"]
    info = np.iinfo(dtype)
    clip = lambda x: int(min(max(x, info.min), info.max))
    ref = np.array([clip(_val(v.get("R"))) for v in vox] or [0], dtype=dtype)
    pred = np.array([clip(_val(v.get("P"))) for v in vox] or [0], dtype=dtype)
    bad = swap_metric_values(kind, ref, pred, params["r"], params["p"])
    # and a family of small arrays
    rng = random.Random(3)
    for _ in range(300):
        n = rng.randint(1, 7)
        a = np.array([rng.randint(0, 2) for _ in range(n)], dtype)
        b = np.array([rng.randint(0, 2) for _ in range(n)], dtype)
        for r in (1, 2):
            for p in (1, 2):
                bad += swap_metric_values(kind, a, b, r, p)
        if len(bad) > 3:
            break
    return {"violated": bool(bad), "problems": bad[:4]}


def result(params):
    from panoptica.panoptica_result import PanopticaResult
    from panoptica.utils.edge_case_handling import EdgeCaseHandler
    from panoptica.metrics import Metric
    bad = []
    cases = [(params.get("tp", 1), params.get("a", 1), params.get("b", 1))] + [(t, a, b) for a in range(4) for b in range(4) for t in range(min(a, b) + 1)]
    for tp, a, b in cases:
        if not (0 <= tp <= min(a, b)):
            continue
        lists = {Metric.IOU: [0.5 + 0.1 * i for i in range(tp)], Metric.DSC: [0.6 + 0.1 * i for i in range(tp)]}
        mk = lambda npred, nref: PanopticaResult(reference_arr=None, prediction_arr=None, num_pred_instances=npred, num_ref_instances=nref, tp=tp,
                                                 list_metrics={k: list(v) for k, v in lists.items()}, edge_case_handler=EdgeCaseHandler())
        r1, r2 = mk(a, b), mk(b, a)
        if (r1.fp, r1.fn) != (r2.fn, r2.fp):
            bad.append(f"tp={tp} counts ({a},{b}): fp/fn {r1.fp}/{r1.fn} vs exchanged {r2.fp}/{r2.fn}")
        for k in ("rq", "sq", "pq", "sq_dsc", "pq_dsc"):
            try:
                x, y = getattr(r1, k), getattr(r2, k)
            except Exception as e:
                x, y = "exc", "exc"
            if x != y and not (isinstance(x, float) and isinstance(y, float) and (c01.close(x, y))):
                bad.append(f"tp={tp} counts ({a},{b}): {k} {x} vs exchanged {y}")
    return {"violated": bool(bad), "problems": bad[:4]}


def check_swap(pred, ref, cfg):
    """(problems, counted) for one input evaluated in both directions"""
    pred, ref = np.asarray(pred), np.asarray(ref)
    s1, s2 = c01.spec_eval(pred, ref, cfg), c01.spec_eval(ref, pred, cfg)
    if not (s1["unique"] and s2["unique"]):
        return [], False
    try:
        a = c01.run_lib(pred.copy(), ref.copy(), cfg)
        b = c01.run_lib(ref.copy(), pred.copy(), cfg)
    except Exception as e:
        return [f"raised {type(e).__name__}: {e}"[:200]], True
    bad = []
    if a["tp"] != b["tp"]:
        bad.append(f"tp {a['tp']} vs exchanged {b['tp']}")
    if (a["fp"], a["fn"]) != (b["fn"], b["fp"]):
        bad.append(f"fp/fn {a['fp']}/{a['fn']} vs exchanged {b['fp']}/{b['fn']} (should be mirrored)")
    if (a["num_pred_instances"], a["num_ref_instances"]) != (b["num_ref_instances"], b["num_pred_instances"]):
        bad.append("instance counts not mirrored")
    for m in ("IOU", "DSC", "ASSD"):
        if m in a["lists"] and not (len(a["lists"][m]) == len(b["lists"][m]) and all(c01.close(x, y) for x, y in zip(a["lists"][m], b["lists"][m]))):
            bad.append(f"per-instance {m} {a['lists'][m]} vs exchanged {b['lists'][m]}")
    if "RVD" in a["lists"] and not bad:
        want = sorted(-r / (1 + r) for r in a["lists"]["RVD"])
        if not (len(want) == len(b["lists"]["RVD"]) and all(c01.close(x, y) for x, y in zip(want, b["lists"]["RVD"]))):
            bad.append(f"per-instance RVD {a['lists']['RVD']} vs exchanged {b['lists']['RVD']}, expected {want}")
    if a["tp"] > 0 and not bad:
        if not c01.close(a["rq"], b["rq"]):
            bad.append(f"rq {a['rq']} vs {b['rq']}")
        for m in ("IOU", "DSC", "ASSD"):
            if m in a["sq"] and not c01.close(a["sq"][m], b["sq"][m]):
                bad.append(f"sq[{m}] {a['sq'][m]} vs {b['sq'][m]}")
            if m in a.get("pq", {}) and not c01.close(a["pq"][m], b["pq"][m]):
                bad.append(f"pq[{m}] {a['pq'][m]} vs {b['pq'][m]}")
    return bad, True


def _work(job):
    pred, ref, cfg, dtype = job
    bad, counted = check_swap(np.array(pred, dtype), np.array(ref, dtype), cfg)
    return bad, counted, job


def bounded(params):
    import multiprocessing as mp
    jobs = [j for j in c01.jobs_for(dict(params, exhaustive_2d=(2, 3))) if j[2].get("decision_metric") != "RVD"]
    with mp.get_context("fork").Pool(16) as pool:
        results = pool.map(_work, jobs, chunksize=32)
    failures, counted = [], 0
    for bad, c, job in results:
        counted += bool(c)
        if bad and len(failures) < 5:
            failures.append({"input": {"pred": job[0], "ref": job[1], "cfg": job[2], "dtype": job[3]}, "problems": bad[:3], "replay_kind": "c11.one"})
    return {"evaluations": len(jobs), "distinct_nontrivial": counted, "failures": failures, "exhaustive": False,
            "rule": "evaluate(pred, ref) vs evaluate(ref, pred) through the real evaluator: same tp, sorted per-instance IoU/Dice/ASSD, sq, rq, pq; fp/fn and instance counts mirrored; "
                    "RVD values r -> -r/(1+r); only inputs whose matching is uniquely determined in both directions are compared (non-trivial count)",
            "bound": f"1-D canonical pairs of length {params.get('exhaustive_1d', 5)}, 2x3 binary semantic maps, {params.get('n_random', 300)} seeded random maps; three input types, IoU/Dice/ASSD matching, thresholds incl. exact scores"}


def one(params):
    bad, c = check_swap(np.array(params["pred"], params.get("dtype", "uint8")), np.array(params["ref"], params.get("dtype", "uint8")), params["cfg"])
    return {"violated": bool(bad), "problems": bad, "compared": c}
