"""pyvc engine: path management, module loading from /repo's working tree,
calls (by contract summary, by inlining the real AST, or by model)."""
from __future__ import annotations
import ast, os, hashlib, builtins as _bi
import z3
from .values import *
from .values import _cur
from .objects import *
from .interp import InterpMixin, _Return, PathEnd
from .attrs import AttrMixin

REPO = os.environ.get("PYVC_REPO", "/repo")


def _res_dtype(a, b):
    da, db = getattr(a, "dtype", None), getattr(b, "dtype", None)
    if da is None and db is None:
        return None
    from .npmodel import _scalar_result_dtype
    return _scalar_result_dtype(da, db, a, b)


class PathResult:
    def __init__(self):
        self.pc = []  # list of z3 Bool
        self.kind = None  # 'return' | 'raise'
        self.value = None
        self.exc = None
        self.events = []
        self.side = []  # side obligations [(name, pc snapshot, formula, info)]
        self.assumed = []  # assumptions introduced by callee contracts
        self.tags = set()
        self.decisions = []
        self.state = {}

    def pc_term(self):
        return z3.And(*self.pc) if self.pc else z3.BoolVal(True)


class Engine(InterpMixin, AttrMixin):
    def __init__(self, repo=REPO, feas_timeout_ms=1500):
        self.repo = repo
        self.modules = {}
        self.models = {}  # dotted name -> python callable / object
        self.summaries = {}  # qualname -> callable(engine, func, args, kwargs)
        self.loop_specs = {}  # (qualname, ordinal) -> LoopSpec
        self.no_inline = set()
        self.feas_timeout_ms = feas_timeout_ms
        self.fn_hashes = {}
        self.max_paths = 4000
        self.solver_calls = 0
        self._reset_path()
        from . import builtins_model

        builtins_model.install(self)
        from . import npmodel

        npmodel.install(self)
        from . import scipymodel

        scipymodel.install(self)
        from . import stdlib_model

        stdlib_model.install(self)
        from . import fsmodel

        fsmodel.install(self)

    # ------------------------------------------------------------------ paths
    def _reset_path(self):
        self.pc = []
        self.prefix = []
        self.pos = 0
        self.taken = []
        self.pending = []
        self.events = []
        self.side = []
        self.assumed = []
        self.tags = set()
        self.fresh_n = 0
        self.call_depth = 0
        self.loop_counter = {}
        self.held_locks = []
        self.atexit_handlers = []
        if hasattr(self, "ghost_fs"):
            from .fsmodel import GhostFS
            self.ghost_fs = GhostFS(self)

    def fresh(self, base, sort):
        self.fresh_n += 1
        return z3.Const(f"{base}!{self.fresh_n}", sort)

    def fresh_int(self, base="i", np=False):
        return SymInt(self.fresh(base, z3.IntSort()), np)

    def fresh_real(self, base="r", np=False):
        return SymReal(self.fresh(base, z3.RealSort()), np)

    def fresh_bool(self, base="b"):
        return SymBool(self.fresh(base, z3.BoolSort()))

    def assume(self, b, why=None):
        if isinstance(b, bool):
            if not b:
                self.pc.append(z3.BoolVal(False))
            return
        t = to_term(b)
        self.pc.append(t)
        if why:
            self.assumed.append((why, t))
        w = self.__dict__.setdefault("assume_whys", {})
        key = why or "(precondition / branch fact stated without a reason string)"
        w[key] = w.get(key, 0) + 1

    def feasible(self, extra):
        s = z3.Solver()
        s.set("timeout", self.feas_timeout_ms)
        for c in self.pc:
            s.add(c)
        s.add(extra)
        try:
            from .npmodel import used_cards, venn_axioms
            cards = used_cards(self.pc + [extra])
            if cards:
                for a in venn_axioms(cards):
                    s.add(a)
        except Unsupported:
            pass
        self.solver_calls += 1
        r = s.check()
        return r != z3.unsat

    def branch(self, cond):
        """Decide a symbolic condition on this path (forking)."""
        if isinstance(cond, bool):
            return cond
        t = z3.simplify(to_term(cond))
        if z3.is_true(t):
            return True
        if z3.is_false(t):
            return False
        if self.pos < len(self.prefix):
            d = self.prefix[self.pos]
        else:
            ft = self.feasible(t)
            ff = self.feasible(z3.Not(t))
            if ft and ff:
                d = True
                self.pending.append(self.taken + [False])
            elif ft:
                d = True
            elif ff:
                d = False
            else:
                # path already infeasible: pick True, path is dead
                d = True
                self.tags.add("dead")
        self.pos += 1
        self.taken.append(d)
        self.pc.append(t if d else z3.Not(t))
        return d

    def truth(self, v):
        """Python truthiness with forking for symbolic values."""
        if isinstance(v, Sym):
            if isinstance(v, SymBool):
                return self.branch(v)
            if isinstance(v, (SymInt, SymReal)):
                return self.branch(v != 0)
            if isinstance(v, SymStr):
                return self.branch(wrap(z3.Length(v.term) > 0))
            raise Unsupported(f"truth of {v!r}")
        if isinstance(v, SymOpt):
            return self.truth(self.concretize(v))
        if isinstance(v, SymEnum):
            return True
        if isinstance(v, SymSeq):
            return self.branch(v.length > 0) if is_sym(v.length) else v.length > 0
        if hasattr(v, "sym_truth"):
            return self.truth(v.sym_truth())
        if isinstance(v, (SObj,)):
            f, _ = v.cls.lookup("__bool__")
            if f is not None:
                return self.truth(self.call(BoundMethod(f, v), [], {}))
            f, _ = v.cls.lookup("__len__")
            if f is not None:
                return self.truth(self.call(BoundMethod(f, v), [], {}) != 0)
            return True
        return bool(v)

    def concretize(self, v):
        """Fork until a symbolic enum member / optional is concrete."""
        while isinstance(v, (SymEnum, SymOpt)):
            if isinstance(v, SymOpt):
                v = None if self.branch(wrap(v.is_none)) else v.value
                continue
            members = list(v.cls.members.values())
            self.assume(wrap(z3.And(v.idx >= 0, v.idx < len(members))))
            chosen = members[-1]
            for i, m in enumerate(members[:-1]):
                if self.branch(wrap(v.idx == i)):
                    chosen = m
                    break
            v = chosen
        return v

    def event(self, *ev):
        self.events.append(ev)

    def oblige(self, name, formula, **info):
        """Side obligation: must hold under the current path condition."""
        t = to_term(formula) if not isinstance(formula, bool) else z3.BoolVal(formula)
        self.side.append((name, list(self.pc), t, info))

    # arithmetic helpers with Python exception semantics -------------------
    def true_div(self, a, b):
        nz = b != 0
        npdiv = (isinstance(a, Sym) and a.np) or (isinstance(b, Sym) and b.np)
        if not self.truth(nz):
            if npdiv:
                self.event("np-div-by-zero")
                self.tags.add("np-div-by-zero")
                return self.fresh_real("nonfinite", np=True)
            raise self.pyraise(ZeroDivisionError, "division by zero")
        ta, tb = to_term(a, "real"), to_term(b, "real")
        return wrap(z3.simplify(ta / tb), npdiv)

    def floor_div(self, a, b):
        ta, tb = to_term(a), to_term(b)
        npv = (isinstance(a, Sym) and a.np) or (isinstance(b, Sym) and b.np)
        dt = _res_dtype(a, b)
        if z3.is_real(ta) or z3.is_real(tb):
            ta = z3.ToReal(ta) if z3.is_int(ta) else ta
            tb = z3.ToReal(tb) if z3.is_int(tb) else tb
            if not self.truth(wrap(tb > 0)):
                raise Unsupported("float floor division by a non-positive divisor")
            return wrap(z3.simplify(z3.ToReal(z3.ToInt(ta / tb))), npv, dt)
        if not self.truth(b != 0):
            if npv:
                if (dt or "").startswith("float"):
                    raise Unsupported("numpy float division by zero (nan / inf result)")
                self.event("np-div-by-zero")
                return wrap(z3.IntVal(0), True, dt)
            raise self.pyraise(ZeroDivisionError, "integer division or modulo by zero")
        # z3 div is Euclidean (remainder >= 0); python floors.
        q = z3.If(tb > 0, ta / tb, (-ta) / (-tb))
        return wrap(z3.simplify(q), npv, dt)

    def py_mod(self, a, b):
        ta, tb = to_term(a), to_term(b)
        npv = (isinstance(a, Sym) and a.np) or (isinstance(b, Sym) and b.np)
        dt = _res_dtype(a, b)
        if z3.is_real(ta) or z3.is_real(tb):
            ta = z3.ToReal(ta) if z3.is_int(ta) else ta
            tb = z3.ToReal(tb) if z3.is_int(tb) else tb
            if not self.truth(wrap(tb > 0)):
                raise Unsupported("float modulo by a non-positive divisor")
            return wrap(z3.simplify(ta - tb * z3.ToReal(z3.ToInt(ta / tb))), npv, dt)
        if not self.truth(b != 0):
            if npv:
                if (dt or "").startswith("float"):
                    raise Unsupported("numpy float modulo by zero (nan result)")
                self.event("np-div-by-zero")
                return wrap(z3.IntVal(0), True, dt)
            raise self.pyraise(ZeroDivisionError, "integer division or modulo by zero")
        r = z3.If(tb > 0, ta % tb, -((-ta) % (-tb)))
        return wrap(z3.simplify(r), npv, dt)

    def cmp_nonfinite(self, a, o, f):
        # comparison of a finite symbolic number with +-inf / nan constant
        if o != o:
            return f(0, 1) and f(1, 0) and False
        big = o > 0
        # a < inf True, a > inf False, a == inf False ...
        return bool(f(0, 1)) if big else bool(f(1, 0))

    def pyraise(self, cls, *args):
        from .interp import PyRaise

        return PyRaise(PyExc(cls, args))

    # --------------------------------------------------------------- modules
    def module_path(self, name):
        p = os.path.join(self.repo, *name.split("."))
        if os.path.isdir(p):
            return os.path.join(p, "__init__.py")
        if os.path.isfile(p + ".py"):
            return p + ".py"
        return None

    def load_module(self, name):
        if name in self.modules:
            return self.modules[name]
        path = self.module_path(name)
        if path is None or not name.startswith("panoptica"):
            return None
        if "." in name:
            parent = name.rsplit(".", 1)[0]
            self.load_module(parent)
            if name in self.modules:
                return self.modules[name]
        m = ModuleInfo(name, path)
        self.modules[name] = m
        if "." in name:
            pm = self.modules.get(name.rsplit(".", 1)[0])
            if pm is not None:
                pm.ns.setdefault(name.rsplit(".", 1)[1], m)
        m.source = open(path, encoding="utf8").read()
        m.tree = ast.parse(m.source)
        m.ns["__name__"] = name
        scope = Scope(module=m)
        scope.vars = m.ns
        old = _cur[0]
        _cur[0] = self
        saved_events = self.events
        self.events = []  # effects of module initialisation are not effects of the function under contract
        try:
            self.exec_block(m.tree.body, scope)
        except BaseException:
            self.modules.pop(name, None)
            raise
        finally:
            _cur[0] = old
            self.module_events = getattr(self, "module_events", []) + self.events
            self.events = saved_events
        return m

    def resolve(self, dotted):
        """Resolve 'panoptica.mod.Class.method' to an interpreted object."""
        parts = dotted.split(".")
        for i in range(len(parts), 0, -1):
            mod = ".".join(parts[:i])
            if self.module_path(mod):
                m = self.load_module(mod)
                obj = None
                rest = parts[i:]
                if not rest:
                    return m
                obj = m.ns[rest[0]]
                for r in rest[1:]:
                    if isinstance(obj, ClassInfo):
                        a, _ = obj.lookup(r)
                        if a is None:
                            # private name mangling
                            a, _ = obj.lookup(f"_{obj.name.lstrip('_')}{r}")
                        obj = a
                    else:
                        obj = self.getattr(obj, r)
                return obj
        raise KeyError(dotted)

    def func_source_hash(self, f):
        if not isinstance(f, FuncInfo):
            return None
        if f.qualname in self.fn_hashes:
            return self.fn_hashes[f.qualname]
        seg = ast.get_source_segment(f.module.source, f.node) or ""
        h = hashlib.sha256(seg.encode()).hexdigest()[:16]
        self.fn_hashes[f.qualname] = h
        return h

    # ----------------------------------------------------------------- runs
    def run(self, target, make_args, max_paths=None, label=None):
        """Enumerate all paths of target(*args, **kwargs).

        make_args(engine) is called at the start of every path and must return
        (args, kwargs[, state]) built from symbolic constants with
        deterministic names.  Returns list[PathResult]."""
        from .interp import PyRaise

        max_paths = max_paths or self.max_paths
        work = [[]]
        results = []
        while work:
            prefix = work.pop()
            self._reset_path()
            self.prefix = prefix
            old = _cur[0]
            _cur[0] = self
            r = PathResult()
            try:
                made = make_args(self)
                args, kwargs = made[0], made[1]
                r.state = made[2] if len(made) > 2 else {}
                f = self.resolve(target) if isinstance(target, str) else target
                self.func_source_hash(f if isinstance(f, FuncInfo) else getattr(f, "func", None))
                try:
                    r.value = self.call(f, list(args), dict(kwargs))
                    r.kind = "return"
                except PyRaise as e:
                    r.kind = "raise"
                    r.exc = e.exc
                except PathEnd as e:
                    r.kind = "end"
                    r.value = e.why
            finally:
                _cur[0] = old
            if hasattr(self, "ghost_fs"):
                self.ghost_fs_snapshot = dict(self.ghost_fs.files)
                self.ghost_nops_snapshot = self.ghost_fs.nops
            self.atexit_snapshot = list(getattr(self, "atexit_handlers", []))
            r.pc = list(self.pc)
            r.events = list(self.events)
            r.side = list(self.side)
            r.assumed = list(self.assumed)
            r.tags = set(self.tags)
            r.decisions = list(self.taken)
            results.append(r)
            work.extend(self.pending)
            if len(results) > max_paths:
                raise Unsupported(f"more than {max_paths} paths in {target}")
        return results

    # ---------------------------------------------------------------- calls
    def call(self, f, args, kwargs):
        if isinstance(f, BoundMethod):
            return self.call(f.func, [f.self_obj] + list(args), kwargs)
        if isinstance(f, FuncInfo):
            if f.qualname in self.summaries:
                return self.summaries[f.qualname](self, f, args, kwargs)
            return self.call_func(f, args, kwargs)
        if isinstance(f, ClassInfo):
            return self.instantiate(f, args, kwargs)
        if isinstance(f, Opaque):
            m = self.models.get(f.dotted)
            if m is None:
                raise Unsupported(f"call of external {f.dotted} without a model")
            return m(*args, **kwargs)
        if isinstance(f, SObj):
            c, _ = f.cls.lookup("__call__")
            if c is None:
                raise self.pyraise(TypeError, "object not callable")
            return self.call(BoundMethod(c, f), args, kwargs)
        if isinstance(f, (SymEnum, SymOpt)):
            return self.call(self.concretize(f), args, kwargs)
        if isinstance(f, EnumMember):
            c, _ = f.cls.lookup("__call__")
            if c is None:
                raise self.pyraise(TypeError, "enum member not callable")
            return self.call(BoundMethod(c, f), args, kwargs)
        if callable(f):
            slf = getattr(f, "__self__", None)
            if isinstance(slf, str) and any(self.contains_symbolic(a) for a in args):
                return self.str_method(slf, f.__name__, args, kwargs)
            if any(isinstance(a, SymOpt) for a in args) and (type(f).__name__ == "builtin_function_or_method" or isinstance(f, type)
                                                             or getattr(f, "__module__", "") == "pyvc.builtins_model"):
                args = [self.concretize(a) if isinstance(a, SymOpt) else a for a in args]
            return f(*args, **kwargs)
        raise Unsupported(f"call of {f!r}")

    def str_method(self, s, name, args, kwargs):
        """methods of a concrete str called with symbolic arguments"""
        if name == "join":
            parts = self.iterate(args[0])
            out = None
            for i, p in enumerate(parts):
                if not isinstance(p, (str, SymStr)):
                    raise self.pyraise(TypeError, "sequence item: expected str instance")
                out = p if out is None else out + s + p
            return "" if out is None else out
        raise Unsupported(f"str.{name} with symbolic arguments")

    def bind_args(self, f, args, kwargs):
        a = f.node.args
        names = [x.arg for x in a.posonlyargs + a.args]
        bound = {}
        args = list(args)
        n = len(names)
        for i, nm in enumerate(names):
            if i < len(args):
                bound[nm] = args[i]
        extra = args[n:]
        if a.vararg:
            bound[a.vararg.arg] = tuple(extra)
        elif extra:
            raise self.pyraise(TypeError, f"{f.qualname}: too many positional arguments")
        kw = dict(kwargs)
        for nm in names:
            if nm in kw:
                if nm in bound:
                    raise self.pyraise(TypeError, f"{f.qualname}: multiple values for {nm}")
                bound[nm] = kw.pop(nm)
        nd = len(f.defaults)
        for i, nm in enumerate(names):
            if nm not in bound:
                j = i - (n - nd)
                if j >= 0:
                    bound[nm] = f.defaults[j]
                else:
                    raise self.pyraise(TypeError, f"{f.qualname}: missing argument {nm}")
        for x in a.kwonlyargs:
            if x.arg in kw:
                bound[x.arg] = kw.pop(x.arg)
            elif x.arg in f.kw_defaults:
                bound[x.arg] = f.kw_defaults[x.arg]
            else:
                raise self.pyraise(TypeError, f"{f.qualname}: missing kw-only {x.arg}")
        if a.kwarg:
            bound[a.kwarg.arg] = kw
        elif kw:
            raise self.pyraise(
                TypeError, f"{f.qualname}: unexpected keyword argument {sorted(kw)}"
            )
        return bound

    def call_func(self, f, args, kwargs):
        self.func_source_hash(f)
        bound = self.bind_args(f, args, kwargs)
        scope = Scope(parent=f.closure, module=f.module, cls=f.cls)
        scope.vars.update(bound)
        scope.func = f
        self.call_depth += 1
        if self.call_depth > 60:
            raise Unsupported("call depth > 60 (recursion?)")
        try:
            if isinstance(f.node, ast.Lambda):
                return self.eval(f.node.body, scope)
            if getattr(f, "is_generator", False):
                # generators are evaluated eagerly (documented abstraction)
                ys = []
                scope.vars["__yields__"] = ys
                try:
                    self.exec_block(f.node.body, scope)
                except _Return:
                    pass
                return ys
            try:
                self.exec_block(f.node.body, scope)
            except _Return as r:
                return r.value
            return None
        finally:
            self.call_depth -= 1

    def instantiate(self, cls, args, kwargs):
        if cls.is_enum:
            # Enum lookup by value: Cls(value)
            for m in cls.members.values():
                if m._value == args[0]:
                    return m
            raise self.pyraise(ValueError, "not a valid enum value")
        # exception classes
        for b in cls.mro():
            if isinstance(b, type) and issubclass(b, BaseException):
                o = SObj(cls)
                o.attrs["args"] = tuple(args)
                init, owner = cls.lookup("__init__")
                if init is not None:
                    self.call(BoundMethod(init, o), args, kwargs)
                return o
        o = SObj(cls)
        init, owner = cls.lookup("__init__")
        if init is not None:
            self.call(BoundMethod(init, o), args, kwargs)
        elif cls.dataclass_fields is not None:
            names = list(cls.dataclass_fields)
            for i, v in enumerate(args):
                o.attrs[names[i]] = v
            for k, v in kwargs.items():
                if k not in names:
                    raise self.pyraise(TypeError, f"unexpected field {k}")
                o.attrs[k] = v
            for nm in names:
                if nm not in o.attrs:
                    if cls.dataclass_fields[nm] is not _MISSING:
                        o.attrs[nm] = cls.dataclass_fields[nm]
                    else:
                        raise self.pyraise(TypeError, f"missing field {nm}")
        elif args or kwargs:
            raise self.pyraise(TypeError, f"{cls.name}() takes no arguments")
        return o

    def new_obj(self, dotted_cls, **attrs):
        """Build an instance directly (bypassing __init__); private attribute
        names may be given unmangled with a leading double underscore."""
        cls = self.resolve(dotted_cls) if isinstance(dotted_cls, str) else dotted_cls
        o = SObj(cls)
        for k, v in attrs.items():
            o.attrs[k] = v
        return o


class _Missing:
    pass


_MISSING = _Missing()
