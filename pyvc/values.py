"""Symbolic value domain of the pyvc engine.

Concrete Python values (int, float, str, bool, None, list, tuple, dict) are
represented by themselves.  Symbolic scalars wrap a z3 term.  The interpreter
(engine.py) never calls bool() on a symbolic value: truth tests go through
Engine.truth(), which forks the path.
"""
from __future__ import annotations
import z3

_cur = [None]  # the Engine currently executing (set by engine.run)


def cur():
    e = _cur[0]
    if e is None:
        raise RuntimeError("no engine active")
    return e


class Unsupported(Exception):
    """The code left the supported subset (=> obligation is *undecided*)."""


class Sym:
    __slots__ = ("term", "np", "dtype")
    # np: the value is a numpy scalar (affects division by zero and promotion)
    # dtype: numpy dtype name of a numpy scalar (None: unknown / python value)

    def __init__(self, term, np=False, dtype=None):
        self.term = term
        self.np = np or dtype is not None
        self.dtype = dtype

    def __bool__(self):
        raise Unsupported(
            f"implicit bool() of symbolic value {self!r}; the engine must fork here"
        )

    def __repr__(self):
        return f"{type(self).__name__}({self.term})"

    def __hash__(self):
        return hash(("sym", self.term.hash()))


def is_sym(v):
    return isinstance(v, Sym)


def _isnp(*vs):
    return any(isinstance(v, Sym) and v.np for v in vs)


def to_term(v, want=None):
    """Convert a Python/Sym scalar to a z3 term."""
    if isinstance(v, Sym):
        t = v.term
    elif isinstance(v, z3.ExprRef):
        t = v
    elif isinstance(v, bool):
        t = z3.BoolVal(v)
    elif isinstance(v, int):
        t = z3.IntVal(v)
    elif isinstance(v, float):
        if v != v or v in (float("inf"), float("-inf")):
            raise Unsupported("nan/inf constant in arithmetic")
        t = z3.RealVal(repr(v))
    elif isinstance(v, str):
        t = z3.StringVal(v)
    else:
        raise Unsupported(f"cannot convert {type(v).__name__} to a term")
    if want == "real" and z3.is_int(t):
        t = z3.ToReal(t)
    if want == "real" and z3.is_bool(t):
        t = z3.If(t, z3.RealVal(1), z3.RealVal(0))
    if want == "int" and z3.is_bool(t):
        t = z3.If(t, z3.IntVal(1), z3.IntVal(0))
    return t


def wrap(t, np=False, dtype=None):
    if dtype is not None:
        if z3.is_int(t):
            return SymInt(t, True, dtype)
        if z3.is_real(t):
            return SymReal(t, True, dtype)
    if z3.is_bool(t):
        if z3.is_true(t):
            return True
        if z3.is_false(t):
            return False
        return SymBool(t, np)
    if z3.is_int(t):
        if z3.is_int_value(t) and not np:
            return t.as_long()
        return SymInt(t, np)
    if z3.is_real(t):
        return SymReal(t, np)
    if z3.is_string(t):
        if z3.is_string_value(t):
            return t.as_string()
        return SymStr(t)
    return SymOther(t)


_SCALAR_HOOK = [None]  # set by npmodel: numpy scalar promotion


def _np_scalar_op(a, b, ta, tb, da, db, f):
    return _SCALAR_HOOK[0](a, b, ta, tb, da, db, f)


def _num_pair(a, b):
    ta, tb = to_term(a), to_term(b)
    if z3.is_bool(ta):
        ta = to_term(a, "int")
    if z3.is_bool(tb):
        tb = to_term(b, "int")
    if z3.is_real(ta) or z3.is_real(tb):
        if z3.is_int(ta):
            ta = z3.ToReal(ta)
        if z3.is_int(tb):
            tb = z3.ToReal(tb)
    return ta, tb


class SymNum(Sym):
    __slots__ = ()

    def _bin(self, other, f, rev=False):
        if not isinstance(other, (Sym, int, float, bool)):
            return NotImplemented
        a, b = (other, self) if rev else (self, other)
        ta, tb = _num_pair(a, b)
        da, db = getattr(a, "dtype", None), getattr(b, "dtype", None)
        if da is not None or db is not None:
            return _np_scalar_op(a, b, ta, tb, da, db, f)
        return wrap(z3.simplify(f(ta, tb)), _isnp(a, b))

    def __add__(self, o):
        return self._bin(o, lambda a, b: a + b)

    def __radd__(self, o):
        return self._bin(o, lambda a, b: a + b, True)

    def __sub__(self, o):
        return self._bin(o, lambda a, b: a - b)

    def __rsub__(self, o):
        return self._bin(o, lambda a, b: a - b, True)

    def __mul__(self, o):
        return self._bin(o, lambda a, b: a * b)

    def __rmul__(self, o):
        return self._bin(o, lambda a, b: a * b, True)

    def __neg__(self):
        return wrap(z3.simplify(-self.term), self.np)

    def __pos__(self):
        return self

    def __abs__(self):
        return wrap(z3.If(self.term >= 0, self.term, -self.term), self.np)

    def _div(self, o, rev=False):
        if not isinstance(o, (Sym, int, float, bool)):
            return NotImplemented
        a, b = (o, self) if rev else (self, o)
        return cur().true_div(a, b)

    def __truediv__(self, o):
        return self._div(o)

    def __rtruediv__(self, o):
        return self._div(o, True)

    def __floordiv__(self, o):
        if not isinstance(o, (Sym, int, float, bool)):
            return NotImplemented
        return cur().floor_div(self, o)

    def __rfloordiv__(self, o):
        if not isinstance(o, (Sym, int, float, bool)):
            return NotImplemented
        return cur().floor_div(o, self)

    def __mod__(self, o):
        if not isinstance(o, (Sym, int, float, bool)):
            return NotImplemented
        return cur().py_mod(self, o)

    def __rmod__(self, o):
        if not isinstance(o, (Sym, int, float, bool)):
            return NotImplemented
        return cur().py_mod(o, self)

    def _cmp(self, o, f):
        if not isinstance(o, (Sym, int, float, bool)):
            return NotImplemented
        if isinstance(o, float) and (o != o or o in (float("inf"), float("-inf"))):
            return cur().cmp_nonfinite(self, o, f)
        ta, tb = _num_pair(self, o)
        return wrap(z3.simplify(f(ta, tb)))

    def __lt__(self, o):
        return self._cmp(o, lambda a, b: a < b)

    def __le__(self, o):
        return self._cmp(o, lambda a, b: a <= b)

    def __gt__(self, o):
        return self._cmp(o, lambda a, b: a > b)

    def __ge__(self, o):
        return self._cmp(o, lambda a, b: a >= b)

    def __eq__(self, o):
        if o is None:
            return False
        if isinstance(o, (str, SymStr)):
            return False
        r = self._cmp(o, lambda a, b: a == b)
        return False if r is NotImplemented else r

    def __ne__(self, o):
        r = self.__eq__(o)
        if isinstance(r, bool):
            return not r
        return wrap(z3.simplify(z3.Not(r.term)))

    __hash__ = Sym.__hash__


class SymInt(SymNum):
    __slots__ = ()

    def __index__(self):
        raise Unsupported("symbolic int used as a concrete index")


class SymReal(SymNum):
    __slots__ = ()


class SymBool(SymNum):
    __slots__ = ()

    def __and__(self, o):
        if isinstance(o, (bool, SymBool)):
            return wrap(z3.simplify(z3.And(self.term, to_term(o))))
        return NotImplemented

    __rand__ = __and__

    def __or__(self, o):
        if isinstance(o, (bool, SymBool)):
            return wrap(z3.simplify(z3.Or(self.term, to_term(o))))
        return NotImplemented

    __ror__ = __or__

    def __xor__(self, o):
        if isinstance(o, (bool, SymBool)):
            return wrap(z3.simplify(z3.Xor(self.term, to_term(o))))
        return NotImplemented

    __rxor__ = __xor__

    def __invert__(self):
        return wrap(z3.simplify(z3.Not(self.term)))

    def __eq__(self, o):
        if isinstance(o, (bool, SymBool)):
            return wrap(z3.simplify(self.term == to_term(o)))
        return SymNum.__eq__(self, o)

    __hash__ = Sym.__hash__


class SymStr(Sym):
    __slots__ = ()

    def __add__(self, o):
        if isinstance(o, (str, SymStr)):
            return wrap(z3.Concat(self.term, to_term(o)))
        return NotImplemented

    def __radd__(self, o):
        if isinstance(o, (str, SymStr)):
            return wrap(z3.Concat(to_term(o), self.term))
        return NotImplemented

    def __eq__(self, o):
        if isinstance(o, (str, SymStr)):
            return wrap(z3.simplify(self.term == to_term(o)))
        return False

    def __ne__(self, o):
        r = self.__eq__(o)
        if isinstance(r, bool):
            return not r
        return wrap(z3.Not(r.term))

    __hash__ = Sym.__hash__


def _sym_split(self, sep=None, maxsplit=-1, right=False):
    """split / rsplit of a symbolic string on a one-character separator (case analysis on the number of separators)"""
    e = cur()
    if not isinstance(sep, str) or len(sep) != 1:
        raise Unsupported("split of a symbolic string on a non-literal separator")
    st = self.term
    sp = z3.StringVal(sep)
    # syntactic shortcut (justified by lemma.header-codec, proved separately): x + sep + literal-without-sep
    leaves = []

    def flat(t):
        if z3.is_app(t) and t.decl().kind() == z3.Z3_OP_SEQ_CONCAT:
            for c in t.children():
                flat(c)
        else:
            leaves.append(t)
    flat(st)
    # merge trailing literals
    tail = ""
    while leaves and z3.is_string_value(leaves[-1]):
        tail = leaves.pop().as_string() + tail
    if leaves and sep in tail:
        pre, post = tail.rsplit(sep, 1)
        xs = leaves + ([z3.StringVal(pre)] if pre else [])
        x = xs[0] if len(xs) == 1 else z3.Concat(*xs)
        if right and maxsplit == 1:
            return [wrap(x), post]
        if maxsplit == -1 and sep not in pre:
            if not e.truth(wrap(z3.Contains(x, sp))):
                return [wrap(x), post]
            a = e.fresh("spl_a", z3.StringSort())
            c = e.fresh("spl_c", z3.StringSort())
            return [wrap(a), wrap(c), post]  # three or more fields
    if not e.truth(wrap(z3.Contains(st, sp))):
        return [self]
    a = e.fresh("spl_a", z3.StringSort())
    b = e.fresh("spl_b", z3.StringSort())
    if maxsplit == 1:
        if right:
            e.assume(z3.And(st == z3.Concat(a, sp, b), z3.Not(z3.Contains(b, sp))), why="str.rsplit(sep, 1)")
        else:
            e.assume(z3.And(st == z3.Concat(a, sp, b), z3.Not(z3.Contains(a, sp))), why="str.split(sep, 1)")
        return [wrap(a), wrap(b)]
    if maxsplit != -1:
        raise Unsupported("split with maxsplit > 1")
    e.assume(z3.And(st == z3.Concat(a, sp, b), z3.Not(z3.Contains(a, sp))), why="str.split(sep): first field")
    if not e.truth(wrap(z3.Contains(b, sp))):
        return [wrap(a), wrap(b)]
    c = e.fresh("spl_c", z3.StringSort())
    d = e.fresh("spl_d", z3.StringSort())
    e.assume(z3.And(b == z3.Concat(c, sp, d), z3.Not(z3.Contains(c, sp))), why="str.split(sep): second field")
    # three or more fields: the tail is kept as one opaque field (only the count >= 3 matters)
    return [wrap(a), wrap(c), wrap(d)]


_LOWER = z3.Function("str_lower", z3.StringSort(), z3.StringSort())


def _sym_lower(self):
    e = cur()
    r = _LOWER(self.term)
    e.assume(_LOWER(r) == r, why="str.lower is idempotent")
    return wrap(r)


SymStr.pyvc_attr_split = lambda self: (lambda sep=None, maxsplit=-1: _sym_split(self, sep, maxsplit, False))
SymStr.pyvc_attr_rsplit = lambda self: (lambda sep=None, maxsplit=-1: _sym_split(self, sep, maxsplit, True))
SymStr.pyvc_attr_lower = lambda self: (lambda: _sym_lower(self))
SymStr.pyvc_attr_split = property(SymStr.pyvc_attr_split)
SymStr.pyvc_attr_rsplit = property(SymStr.pyvc_attr_rsplit)
SymStr.pyvc_attr_lower = property(SymStr.pyvc_attr_lower)


class SymOther(Sym):
    """A term of another sort (enum datatype etc.)."""
    __slots__ = ()

    def __eq__(self, o):
        if isinstance(o, SymOther):
            return wrap(z3.simplify(self.term == o.term))
        return False

    __hash__ = Sym.__hash__


def sym_and(*bs):
    ts = [to_term(b) for b in bs]
    return wrap(z3.simplify(z3.And(*ts)))


def sym_or(*bs):
    ts = [to_term(b) for b in bs]
    return wrap(z3.simplify(z3.Or(*ts)))


def sym_not(b):
    if isinstance(b, bool):
        return not b
    return wrap(z3.simplify(z3.Not(to_term(b))))


def ite(c, a, b):
    """Scalar if-then-else on python/sym scalars."""
    if isinstance(c, bool):
        return a if c else b
    if isinstance(a, (bool, SymBool)) and isinstance(b, (bool, SymBool)):
        return wrap(z3.simplify(z3.If(c.term, to_term(a), to_term(b))))
    ta, tb = _num_pair(a, b)
    return wrap(z3.simplify(z3.If(c.term, ta, tb)), _isnp(a, b))


# ---------------------------------------------------------------------------
# symbolic containers


_seq_n = [0]


def subst_value(v, pairs):
    """Substitute z3 constants inside a (possibly structured) value."""
    if isinstance(v, Sym):
        t = z3.substitute(v.term, *pairs)
        return wrap(z3.simplify(t), v.np, v.dtype)
    if isinstance(v, tuple):
        return tuple(subst_value(x, pairs) for x in v)
    if isinstance(v, list):
        return [subst_value(x, pairs) for x in v]
    if isinstance(v, dict):
        return {k: subst_value(x, pairs) for k, x in v.items()}
    if type(v).__name__ == "SymOpt":
        return type(v)(z3.substitute(v.is_none, *pairs), subst_value(v.value, pairs))
    if hasattr(v, "pyvc_subst"):
        return v.pyvc_subst(pairs)
    return v


class SymSeq:
    """A sequence of symbolic length: `template` is the element at the index
    constant i0; elem(i) substitutes.  Immutable."""

    def __init__(self, length, elem, name="seq", i0=None, template=None):
        self.length = length  # SymInt / int
        self.name = name
        if template is None:
            _seq_n[0] += 1
            i0 = z3.Int(f"seqi!{_seq_n[0]}")
            template = elem(i0)
        self.i0 = i0
        self.template = template

    def elem(self, i):
        if not isinstance(i, z3.ExprRef):
            i = to_term(i)
        return subst_value(self.template, [(self.i0, i)])

    def __repr__(self):
        return f"SymSeq<{self.name}>"


class SymMap:
    """A dict with symbolic key set: dom: Array(K,Bool), val: Array(K,V).
    Mutable (the arrays are replaced).  Insertion order is not modelled."""

    def __init__(self, dom, val, kwrap=None, vwrap=None, name="map"):
        self.dom = dom
        self.val = val
        self.name = name

    def copy_state(self):
        return (self.dom, self.val)

    def __repr__(self):
        return f"SymMap<{self.name}>"


class SymSet:
    """A finite collection known only through its membership predicate
    member(term)->z3 Bool (order and multiplicity are not modelled).  Used for
    filtered comprehensions over symbolic maps and for label sets."""

    def __init__(self, member, name="set", sort=None):
        self.member = member
        self.name = name
        self.sort = z3.IntSort() if sort is None else sort

    def __repr__(self):
        return f"SymSet<{self.name}>"


def as_symmap(d, ksort=None, vsort=None, name="map"):
    """View a concrete dict with scalar keys/values as a SymMap."""
    if isinstance(d, SymMap):
        return d
    ksort = z3.IntSort() if ksort is None else ksort
    vsort = z3.IntSort() if vsort is None else vsort
    dom = z3.K(ksort, z3.BoolVal(False))
    val = z3.K(ksort, (z3.RealVal(0) if vsort == z3.RealSort() else z3.IntVal(0)))
    for k, v in d.items():
        kt = to_term(k)
        vt = to_term(v, "real") if vsort == z3.RealSort() else to_term(v)
        dom = z3.Store(dom, kt, z3.BoolVal(True))
        val = z3.Store(val, kt, vt)
    return SymMap(dom, val, name=name)


class SymList:
    """A mutable list of numbers with symbolic length: (len term, Array Int->Real|Int).
    Supports append, len, indexing; used for accumulators inside invariant-verified loops."""

    def __init__(self, length, arr, name="list"):
        self.length = length  # z3 Int term
        self.arr = arr
        self.name = name

    @staticmethod
    def from_concrete(items, real=True, name="list"):
        arr = z3.K(z3.IntSort(), z3.RealVal(0) if real else z3.IntVal(0))
        for i, x in enumerate(items):
            arr = z3.Store(arr, i, to_term(x, "real") if real else to_term(x))
        return SymList(z3.IntVal(len(items)), arr, name)

    def append(self, x):
        xt = to_term(x, "real") if self.arr.range() == z3.RealSort() else to_term(x)
        self.arr = z3.Store(self.arr, self.length, xt)
        self.length = z3.simplify(self.length + 1)
        cur().event("list-append", self.name)

    def pyvc_len(self):
        return wrap(self.length)

    def pyvc_getitem(self, k):
        e = cur()
        n = wrap(self.length)
        if not e.truth(sym_and(k >= 0, k < n)):
            from .interp import PyRaise
            from .objects import PyExc
            raise PyRaise(PyExc(IndexError, ("list index out of range",)))
        return wrap(z3.simplify(z3.Select(self.arr, to_term(k))), True)

    def sym_truth(self):
        return wrap(self.length > 0)

    def __repr__(self):
        return f"SymList<{self.name}>"
