"""Corpus for the engine-vs-CPython differential (./check --selftest).  Plain Python in the subset the repository uses."""
from dataclasses import dataclass
from enum import Enum, auto
from abc import ABC, abstractmethod


def floordiv_mod(a, b):
    if b == 0:
        return None
    return (a // b, a % b, divmod(a, b))


def chain_cmp(a, b, c):
    return (a < b <= c, a == b != c, not a < b, a is None, (a if a > b else b))


def loops(n):
    tot, i, seen = 0, 0, []
    while i < n:
        i += 1
        if i % 3 == 0:
            continue
        if i > 7:
            break
        tot += i
        seen.append(i)
    else:
        tot -= 1
    for j in range(n, 0, -2):
        tot += j
    return tot, seen


def comprehensions(xs):
    sq = [x * x for x in xs if x % 2 == 0]
    d = {x: i for i, x in enumerate(xs)}
    s = {x % 3 for x in xs}
    nested = [(a, b) for a in xs[:2] for b in xs[-2:] if a != b]
    g = sum(x for x in xs if x > 0)
    return sq, sorted(d.items()), sorted(s), nested, g, any(x < 0 for x in xs), all(x < 10 for x in xs)


def slicing(xs, i, j):
    return xs[i:j], xs[::-1], xs[i:], xs[:j], xs[-1] if xs else None, len(xs[1:-1]), xs[::2]


def strings(s):
    parts = s.split("-")
    head = s.rsplit("-", 1)
    return (parts, head, "-".join(parts), s.strip(), s.upper(), s.startswith("a"), s.endswith(".tsv"), f"{s!r}:{len(s):03d}", s.replace("a", "b"),
            s.partition("-"), s.find("-"), s[1:] + s[:1], "x" in s, s.isdigit())


def exceptions(x):
    out = []
    try:
        try:
            if x == 0:
                raise ValueError("zero")
            if x == 1:
                raise KeyError("one")
            out.append(10 // (x - 2))
        except ValueError as e:
            out.append(("VE", str(e)))
        finally:
            out.append("inner-finally")
    except (KeyError, ZeroDivisionError) as e:
        out.append(type(e).__name__)
    else:
        out.append("else")
    finally:
        out.append("outer-finally")
    return out


def raising(x):
    assert x >= 0, "negative"
    if x > 5:
        raise RuntimeError(f"too big {x}")
    return [1, 2, 3][x]


class Base(ABC):
    kind = "base"

    def __init__(self, v=1, *, scale=2):
        self.v = v
        self._scale = scale

    @property
    def scaled(self):
        return self.v * self._scale

    @abstractmethod
    def name(self): ...

    def describe(self):
        return f"{self.name()}:{self.scaled}:{self.kind}"

    @classmethod
    def make(cls, v):
        return cls(v, scale=3)

    @staticmethod
    def helper(a, b=4):
        return a - b

    def __eq__(self, o):
        return isinstance(o, Base) and o.v == self.v

    def __hash__(self):
        return hash(self.v)


class Child(Base):
    kind = "child"

    def __init__(self, v=1, *, scale=2, extra=None):
        super().__init__(v, scale=scale)
        self.__private = extra if extra is not None else []

    def name(self):
        return "child"

    def add(self, x):
        self.__private.append(x)
        return len(self.__private)

    def priv(self):
        return list(self.__private)


def classes(v):
    c = Child.make(v)
    d = Child(v)
    n1 = c.add(5)
    n2 = d.add(6)
    return c.describe(), d.describe(), c == d, Base.helper(v), c.helper(v, 1), n1, n2, c.priv(), isinstance(c, Base), type(c).__name__, hasattr(c, "v"), getattr(c, "zz", 7)


@dataclass
class Rec:
    a: int
    b: str = "x"
    c: list = None


def dataclasses_(a):
    r = Rec(a)
    r2 = Rec(a, "y", [1])
    return r.a, r.b, r.c, r2.b, r2.c, r == Rec(a), r == r2


class Color(Enum):
    RED = auto()
    GREEN = auto()
    BLUE = 10

    def shade(self):
        return self.name.lower() + str(self.value)


def enums(i):
    m = list(Color)[i % 3]
    return m.name, m.value, m.shade(), m is Color.RED, m == Color.GREEN, Color["BLUE"].value, Color(10).name, [c.name for c in Color], m in (Color.RED, Color.BLUE)


def mutable_default(x, acc=[]):
    acc.append(x)
    return list(acc)


def call_default_twice(x):
    return mutable_default(x), mutable_default(x + 1)


def star_args(*args, **kwargs):
    return len(args), sorted(kwargs), args[::-1]


def calls(a, b):
    f = lambda x, y=2: x * y
    t = (a, b)
    d = {"p": a, "q": b}
    return star_args(*t, **d), star_args(a, k=b), f(a), f(a, b), max(a, b), min([a, b, 3]), abs(a - b), sorted([b, a, 0], reverse=True), list(zip([a, b], "xy")), dict(d, r=1)


def closures(n):
    def counter():
        c = 0

        def inc(k=1):
            nonlocal c
            c += k
            return c
        return inc
    inc = counter()
    return [inc() for _ in range(n)], inc(5)


def dict_ops(n):
    d = {}
    for i in range(n):
        d.setdefault(i % 3, []).append(i)
    keys = list(d.keys())
    d2 = {k: len(v) for k, v in d.items()}
    popped = d.pop(0, None)
    return keys, d2, popped, 1 in d, d.get(9, "none"), sorted(d), len(d)


def set_ops(a, b):
    s, t = set(range(a)), set(range(b, b + 3))
    return sorted(s & t), sorted(s | t), sorted(s - t), s <= t, len(s), (a in s), sorted(s.union({99}))


def sorting(xs):
    pairs = [(x % 3, x) for x in xs]
    return sorted(pairs), sorted(pairs, key=lambda p: p[0]), sorted(pairs, key=lambda p: p[0], reverse=True), sorted(xs, key=lambda x: -x)


def numeric(a, b):
    return a / 2, a ** 2, -a // 2, round(a / 3, 2), int(a / 2), float(b), bool(a), a & 3, a | 4, a ^ b, a << 2, a >> 1, int("12") + a, str(a) + "!", 1e-3 * a, a % 2 == 0 and b or -1


def augmented(a):
    x = a
    x += 2
    x *= 3
    x -= 1
    x //= 2
    l = [1]
    m = l
    l += [2]
    l2 = l
    l = l + [3]
    return x, m, l2, l


def unpacking(xs):
    a, *rest = xs
    *init, last = xs
    (p, q), r = (xs[0], xs[1]), xs[2:]
    return a, rest, init, last, p, q, r


def truthiness(x):
    out = []
    for v in (x, [], [0], "", "a", None, 0.0, {}, {1: 2}, ()):
        out.append(1 if v else 0)
    return out, x or "dflt", x and "yes", not x


def ternaries(a, b):
    return ("neg" if a < 0 else "zero" if a == 0 else "pos"), (a if a else b), [i for i in (a, b) if i]


def str_format(a, b):
    return "%d-%s" % (a, b), "{}-{:>4}".format(a, b), f"{a + 1}{b}", f"{a:5.2f}|{b!s}"


def while_else(n):
    i = 0
    while i < n:
        if i == 4:
            break
        i += 1
    else:
        return ("exhausted", i)
    return ("broke", i)


def generators(n):
    def gen(k):
        for i in range(k):
            yield i * i
    return list(gen(n)), sum(gen(n)), [x for x in gen(3)]


def isinstance_checks(v):
    return isinstance(v, int), isinstance(v, (str, list)), isinstance(v, bool), type(v) is int, callable(v)




class Managed:
    log = []

    def __init__(self, swallow):
        self.swallow = swallow

    def __enter__(self):
        Managed.log.append("enter")
        return self

    def __exit__(self, et, ev, tb):
        Managed.log.append("exit:" + (et.__name__ if et else "none"))
        return self.swallow


def with_stmt(x):
    Managed.log = []
    out = []
    try:
        with Managed(x % 2 == 0) as m:
            out.append(m.swallow)
            if x > 2:
                raise ValueError("boom")
            out.append("body-done")
        out.append("after")
    except ValueError:
        out.append("caught")
    return out, list(Managed.log)


class Lazy:
    def __init__(self):
        self._table = {"a": 1, "b": None}
        self.calls = 0

    def __getattribute__(self, name):
        try:
            return object.__getattribute__(self, name)
        except AttributeError as e:
            if name == "_table":
                raise e
            if name in self._table:
                return ("lazy", name, self._table[name])
            raise e

    def __call__(self, k, *more):
        self.calls += 1
        return (k, more, self.calls)


def reflection(k):
    z = Lazy()
    out = [z.a, z.b, z(k), z(k, 1, 2), z.calls]
    try:
        z.missing
    except AttributeError:
        out.append("no-attr")
    setattr(z, "a", 5)
    out.append(z.a)
    out.append(getattr(z, "qq", "dflt"))
    return out


def list_methods(xs):
    l = list(xs)
    l.extend([7, 8])
    l.insert(1, 99)
    p = l.pop()
    q = l.pop(0)
    i = l.index(99)
    l.remove(99)
    c = l.count(7)
    l2 = l.copy()
    l2.reverse()
    l.sort(reverse=True)
    d = {1: "a"}
    d.update({2: "b"}, c="z")
    del d[1]
    return l, l2, p, q, i, c, d, list(enumerate("ab", start=3)), list(zip(*[(1, 2), (3, 4)])), list(reversed(l)), min(xs, key=lambda v: -v), max(xs, default=0), sum(xs, 10)


def conversions(s):
    out = []
    for f in (int, float):
        try:
            out.append(f(s))
        except ValueError:
            out.append("VE:" + f.__name__)
    nan = float("nan")
    inf = float("inf")
    return out, nan != nan, nan == nan, inf > 1e308, -inf < 0, str(1.0), str(10), str(None), str(True), repr("q"), str(0.1 + 0.2), str(1e-7), str(float("inf")), str(-0.0)


def float_ops(a, b):
    return a // b, a % b, -a // b, -a % b, round(a), round(a + 0.5), round(2.5), round(3.5), round(-2.5), a ** -1 if a else None, True + 1, (1, "b") < (1, "c"), "ab" < "b", [1, 2] < [1, 3], 7 // 2.0, 0.5 * 3, int(-2.7), int(2.7), abs(-a), a is not None


def late_binding(n):
    fs = [lambda: i for i in range(n)]
    gs = [lambda i=i: i for i in range(n)]
    return [f() for f in fs], [g() for g in gs]


def stable_sort(n):
    xs = [(i % 2, -i, chr(97 + i)) for i in range(n)]
    return sorted(xs, key=lambda t: t[0]), sorted(xs, key=lambda t: t[0], reverse=True), sorted(["b", "B", "a"], key=str.lower)


def real_sym(a, b):
    x = a / 4
    y = b * 0.5
    return x + y, x - y, x * 2 < y, x == y, max(x, y), (x if x >= y else y) / 2, x // 1 if b != 0 else -1.0, abs(x - y) <= 0.25


CASES = {
    "with_stmt": [(0,), (1,), (3,), (4,)],
    "reflection": [(1,), ("k",)],
    "list_methods": [([3, 1, 2],), ([5],)],
    "conversions": [("12",), ("1.5",), ("x",), ("",), (" 7 ",), ("nan",), ("-inf",), ("1e3",)],
    "float_ops": [(7.5, 2.0), (-7.5, 2.0), (3.0, -1.5), (0.0, 3.0), (2.5, 0.5)],
    "late_binding": [(0,), (3,)],
    "stable_sort": [(0,), (5,)],
    "floordiv_mod": [(7, 2), (-7, 2), (7, -2), (-7, -2), (0, 5), (5, 0), (6, 3), (-6, 3), (1, 7), (-1, 7)],
    "chain_cmp": [(1, 2, 3), (2, 2, 2), (3, 1, 0), (0, 0, 1)],
    "loops": [(0,), (1,), (5,), (9,), (12,)],
    "comprehensions": [([1, 2, 3, 4],), ([-2, 0, 7],), ([],), ([5, 5, 6],)],
    "slicing": [([1, 2, 3, 4, 5], 1, 3), ([1, 2, 3, 4, 5], -2, None), ([], 0, 1), ([9], 0, -1), ("abcdef", 2, -1)],
    "strings": [("a-b-c",), ("abc",), ("",), (" x-y.tsv ",), ("123",), ("a--b",), ("-",)],
    "exceptions": [(0,), (1,), (2,), (3,), (7,)],
    "raising": [(0,), (2,), (3,), (6,), (-1,)],
    "classes": [(1,), (4,), (0,)],
    "dataclasses_": [(1,), (2,)],
    "enums": [(0,), (1,), (2,), (5,)],
    "call_default_twice": [(1,), (5,)],
    "calls": [(1, 2), (3, -1), (0, 0)],
    "closures": [(0,), (3,)],
    "dict_ops": [(0,), (1,), (7,)],
    "set_ops": [(0, 0), (3, 1), (5, 9)],
    "sorting": [([3, 1, 2, 6, 4],), ([],), ([2, 2, 5, 8],)],
    "numeric": [(5, 2), (-3, 7), (0, 1), (8, -8)],
    "augmented": [(1,), (-4,)],
    "unpacking": [([1, 2, 3],), ([1, 2, 3, 4, 5],)],
    "truthiness": [(0,), (3,), ("",), ([],)],
    "ternaries": [(-1, 2), (0, 5), (4, 0)],
    "str_format": [(1, "a"), (12, "xyz")],
    "while_else": [(0,), (3,), (4,), (9,)],
    "generators": [(0,), (4,)],
    "isinstance_checks": [(1,), ("s",), (True,), ([1],), (2.5,)],
}

# functions whose integer arguments are also run symbolically (paths + values checked against CPython on a grid)
SYMBOLIC = {
    "floordiv_mod": [(a, b) for a in range(-9, 10) for b in range(-4, 5)],
    "chain_cmp": [(a, b, c) for a in range(-1, 3) for b in range(-1, 3) for c in range(-1, 3)],
    "ternaries": [(a, b) for a in range(-2, 3) for b in range(-2, 3)],
    "numeric_sym": [(a, b) for a in range(-6, 7) for b in range(-3, 4)],
    "while_else": [(n,) for n in range(0, 8)],
    "raising": [(n,) for n in range(-2, 9)],
    "exceptions": [(n,) for n in range(-1, 6)],
    "real_sym": [(a, b) for a in range(-5, 6) for b in range(-3, 4)],
    "with_stmt": [(n,) for n in range(0, 6)],
}


def numeric_sym(a, b):
    return a * 3 - b, -a // 2, a % 5, abs(a - b), max(a, b), min(a, b, 3), a ** 2, (a + b) // 3, a // 4 * 4 + a % 4 == a, a / 2, int(a / 2) if a >= 0 else -1
