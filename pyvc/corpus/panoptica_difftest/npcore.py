"""numpy snippets for the numpy-model differential: element-wise arithmetic with numpy 1.26 promotion, casts, comparisons,
masked assignment -- the operations the repository's array code is made of.  Each returns one array."""
import numpy as np


def encode(a, b, s):
    o = a.astype(np.uint64)
    return (o * s) + b


def encode_native(a, b, s):
    return a * s + b


def add_arrays(a, b, s):
    return a + b


def sub_arrays(a, b, s):
    return a - b


def mul_scalar(a, b, s):
    return a * s


def add_scalar(a, b, s):
    return a + s


def neg_scalar(a, b, s):
    return a - s


def cast_down(a, b, s):
    return (a + b).astype(np.uint8)


def cast_signed(a, b, s):
    return a.astype(np.int8)


def compare(a, b, s):
    return (a == s) | (b > a)


def compare_and(a, b, s):
    return np.logical_and(a != 0, b != 0)


def logical_or(a, b, s):
    return np.logical_or(a, b)


def masked_assign(a, b, s):
    c = a.copy()
    c[b != 0] = s
    return c


def masked_zero(a, b, s):
    c = a.copy()
    c[b == 0] = 0
    return c


def inplace_add(a, b, s):
    c = a.copy()
    c += b
    return c


def inplace_mul(a, b, s):
    c = a.copy()
    c *= 2
    return c


def isin_list(a, b, s):
    return np.isin(a, [1, s, 3])


def isin_invert(a, b, s):
    c = a.copy()
    c[np.isin(c, [1, s], invert=True)] = 0
    return c


def where3(a, b, s):
    return np.where(a > b, a, b)


def floor_divide(a, b, s):
    return a // (s + 1)


def modulo(a, b, s):
    return a % (s + 1)


def binarise(a, b, s):
    c = a.copy()
    c[c != 0] = 1
    return c


def bool_to_int(a, b, s):
    return (a != 0).astype(np.uint8) + (b != 0)


def ones_zeros(a, b, s):
    return np.zeros_like(a) + np.ones_like(b)


# ---- numpy scalar arithmetic (x, y numpy scalars of the dtypes under test; m a python int) -------------------
def sc_decode(x, y, m):
    return (int(x % m), int(x // m))


def sc_encode(x, y, m):
    return x * m + y


def sc_mixed(x, y, m):
    return x + y, x - y, x * y


def sc_compare(x, y, m):
    return x > y, x == m, x >= m, max(x, y) + 1, int(max(x, y) + 1)


def sc_div(x, y, m):
    return x % (y + 1), x // (y + 1)
