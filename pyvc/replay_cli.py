"""./check replay <file>: re-run a replay file on the real code."""
import sys, json
from .framework import run_replay
def main():
    doc = json.load(open(sys.argv[1]))
    kind, inp = doc.get("replay_kind"), doc.get("replay_input")
    if not kind or inp is None:
        print("no runnable input in this replay file (no-failing-input-found); failed obligation:", doc.get("obligation"))
        print(json.dumps(doc.get("solver"), indent=1))
        return 0
    res = run_replay(kind, inp)
    print(json.dumps(res, indent=1, default=str))
    return 1 if res.get("violated") else 0
sys.exit(main())
