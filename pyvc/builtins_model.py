"""Builtins and standard-library models for the interpreter."""
from __future__ import annotations
import z3
from .values import *
from .objects import *
from .interp import PyRaise, _Auto, _EnumBase, _Items, SuperProxy


class OpaqueColl:
    """set() of symbolic scalars: contents known, multiplicities not.  Only printable."""

    def __init__(self, items):
        self.items = items

    def pyvc_str(self):
        return SymStr(cur().fresh("collstr", z3.StringSort()))

    def pyvc_len(self):
        """number of distinct elements"""
        total = 0
        items = self.items
        for i, x in enumerate(items):
            dup = [to_term(x) == to_term(y) for y in items[:i]]
            total = total + (wrap(z3.If(z3.Or(*dup), z3.IntVal(0), z3.IntVal(1))) if dup else 1)
        return total


class MapView:
    symbolic_iter = True

    def __init__(self, eng, m, kind):
        self.eng = eng
        self.m = m
        self.kind = kind
        self.name = f"{m.name}.{kind}"

    def coll_member(self):
        m = self.m
        mem = lambda t: z3.Select(m.dom, t)
        if self.kind == "keys":
            return mem, m.dom.domain(), wrap
        if self.kind == "items":
            return mem, m.dom.domain(), (lambda t: (wrap(t), wrap(z3.Select(m.val, t))))
        raise Unsupported("iteration over symbolic dict values")

    def sym_contains(self, x):
        m = self.m
        if self.kind == "keys":
            return wrap(z3.Select(m.dom, to_term(x)))
        if self.kind == "values":
            k = self.eng.fresh("mk", m.dom.domain())
            vt = to_term(x)
            if m.val.range() == z3.RealSort() and z3.is_int(vt):
                vt = z3.ToReal(vt)
            return wrap(z3.Exists([k], z3.And(z3.Select(m.dom, k), z3.Select(m.val, k) == vt)))
        raise Unsupported("`in` on symbolic dict items")


def symcoll_method(eng, o, name):
    if isinstance(o, SymMap):
        if name in ("items", "keys", "values"):
            return lambda: MapView(eng, o, name)
        if name == "copy":
            return lambda: SymMap(o.dom, o.val, name=o.name + ".copy")
    if isinstance(o, SymSet):
        if name == "append":
            def append(x):
                old = o.member
                xt = to_term(x)
                o.member = lambda t, old=old, xt=xt: z3.Or(old(t), t == xt)
                eng.event("set-append", o.name)
            return append
        if name == "copy":
            return lambda: SymSet(o.member, name=o.name + ".copy", sort=o.sort)
    raise Unsupported(f"method {name} of {o!r}")


def install(eng):
    B = {}

    def py_isinstance(v, T):
        if isinstance(T, tuple):
            rs = [py_isinstance(v, t) for t in T]
            return any(rs)
        if isinstance(T, ClassInfo):
            if isinstance(v, (SObj, EnumMember)):
                return v.cls.is_subclass_of(T)
            if isinstance(v, PyExc):
                return isinstance(v.cls, ClassInfo) and v.cls.is_subclass_of(T)
            return False
        if T is _EnumBase:
            return isinstance(v, EnumMember)
        if hasattr(T, "pyvc_isinstance"):
            return T.pyvc_isinstance(v)
        if isinstance(T, type):
            if isinstance(v, Sym):
                if T is int:
                    return isinstance(v, (SymInt, SymBool)) and not v.np
                if T is float:
                    return isinstance(v, SymReal) and not v.np
                if T is bool:
                    return isinstance(v, SymBool) and not v.np
                if T is str:
                    return isinstance(v, SymStr)
                if T is object:
                    return True
                return False
            if isinstance(v, (SymSeq, SymSet)):
                return T in (getattr(v, "pytype", list), object)
            if isinstance(v, SymMap):
                return T in (dict, object)
            if isinstance(v, SymList):
                return T in (list, object)
            if isinstance(v, SObj):
                return any(isinstance(b, type) and issubclass(b, T) for b in v.cls.mro())
            if isinstance(v, PyExc):
                return issubclass(v.pyclass(), T)
            if isinstance(v, (EnumMember, ClassInfo, FuncInfo)):
                return T is object
            return isinstance(v, T)
        if isinstance(T, Opaque):
            raise Unsupported(f"isinstance against external type {T.dotted}")
        raise Unsupported(f"isinstance against {T!r}")

    def py_issubclass(c, T):
        if isinstance(c, ClassInfo):
            if isinstance(T, ClassInfo):
                return c.is_subclass_of(T)
            return any(b is T or (isinstance(b, type) and isinstance(T, type) and issubclass(b, T)) for b in c.mro())
        if hasattr(T, "pyvc_issubclass"):
            return T.pyvc_issubclass(c)
        return issubclass(c, T)

    def py_len(v):
        if isinstance(v, SymSeq):
            return v.length
        if hasattr(v, "pyvc_len"):
            return v.pyvc_len()
        if isinstance(v, SObj):
            f, _ = v.cls.lookup("__len__")
            if f is not None:
                return eng.call(BoundMethod(f, v), [], {})
        if isinstance(v, (SymSet, SymMap)):
            raise Unsupported("len of symbolic set/map")
        if isinstance(v, ClassInfo) and v.is_enum:
            return len(v.members)
        return len(v)

    def py_int(v=0):
        if isinstance(v, SymInt):
            return SymInt(v.term)
        if isinstance(v, SymBool):
            return wrap(z3.If(v.term, z3.IntVal(1), z3.IntVal(0)))
        if isinstance(v, SymReal):
            # truncation toward zero
            t = v.term
            return wrap(z3.If(t >= 0, z3.ToInt(t), -z3.ToInt(-t)))
        if isinstance(v, (Sym,)):
            raise Unsupported("int() of symbolic non-number")
        if hasattr(v, "pyvc_int"):
            return v.pyvc_int()
        try:
            return int(v)
        except (ValueError, TypeError, OverflowError) as ex:
            raise PyRaise(PyExc(type(ex), ex.args))

    def py_float(v=0.0):
        if isinstance(v, (SymInt, SymBool)):
            return SymReal(to_term(v, "real"))
        if isinstance(v, SymReal):
            return SymReal(v.term)
        if isinstance(v, Sym):
            raise Unsupported("float() of symbolic non-number")
        if hasattr(v, "pyvc_float"):
            return v.pyvc_float()
        try:
            return float(v)
        except (ValueError, TypeError) as ex:
            raise PyRaise(PyExc(type(ex), ex.args))

    def py_bool(v=False):
        if isinstance(v, SymBool):
            return SymBool(v.term)
        return eng.truth(v)

    def py_str(v=""):
        return eng.to_str(v)

    def py_list(v=()):
        if isinstance(v, (SymSeq, SymSet, OpaqueColl)):
            return v
        if isinstance(v, MapView):
            if v.kind == "keys":
                s = SymSet(lambda t, m=v.m: z3.Select(m.dom, t), name=v.name, sort=v.m.dom.domain())
                s.of_map = (v.m, "keys")
                return s
            if v.kind == "values":
                s = SymSet(lambda t, m=v.m: z3.Exists([z3.Int("lv_k")], z3.And(z3.Select(m.dom, z3.Int("lv_k")), z3.Select(m.val, z3.Int("lv_k")) == t)), name=v.name)
                s.of_map = (v.m, "values")
                return s
            raise Unsupported("list() of symbolic dict view")
        return list(eng.iterate(v))

    def py_tuple(v=()):
        if isinstance(v, (SymSeq, SymSet)):
            return v
        if hasattr(v, "pyvc_tuple"):
            return v.pyvc_tuple()
        return tuple(eng.iterate(v))

    def py_set(v=()):
        if isinstance(v, (SymSet,)):
            return v
        items = eng.iterate(v)
        if any(isinstance(x, Sym) for x in items):
            return OpaqueColl(items)  # de-duplication of symbolic elements is not modelled: usable for printing only
        return set(items)

    def py_frozenset(v=()):
        items = eng.iterate(v) if not isinstance(v, (set, frozenset)) else list(v)
        if any(isinstance(x, Sym) or eng.contains_symbolic(x) for x in items):
            raise Unsupported("frozenset of symbolic elements")
        return frozenset(items)

    def py_dict(*a, **k):
        if a and isinstance(a[0], SymMap):
            return SymMap(a[0].dom, a[0].val, name=a[0].name + ".copy")
        return dict(*a, **k)

    def fold(vals, pick):
        acc = vals[0]
        for v in vals[1:]:
            acc = pick(acc, v)
        return acc

    def _extreme_kw(a, k, is_max):
        """max/min with key= / default= on a concrete collection"""
        if set(k) - {"key", "default"}:
            raise PyRaise(PyExc(TypeError, ("unexpected keyword",)))
        if len(a) == 1 and isinstance(a[0], SymSeq) and set(k) == {"default"}:
            if eng.truth(wrap(to_term(a[0].length) > 0)):
                return _seq_extreme(a[0], is_max)
            return k["default"]
        vals = list(a) if len(a) > 1 else eng.iterate(a[0])
        if not isinstance(vals, (list, tuple)):
            raise Unsupported("max/min with key/default on a symbolic collection")
        if not vals:
            if "default" in k:
                return k["default"]
            raise PyRaise(PyExc(ValueError, ("arg is an empty sequence",)))
        key = k.get("key")
        keys = [eng.call(key, [v], {}) for v in vals] if key is not None else list(vals)
        if any(isinstance(x, Sym) or eng.contains_symbolic(x) for x in keys):
            raise Unsupported("max/min with symbolic keys")
        best = 0
        for i in range(1, len(vals)):
            if (keys[i] > keys[best]) if is_max else (keys[i] < keys[best]):
                best = i
        return vals[best]

    def py_max(*a, **k):
        if k:
            return _extreme_kw(a, k, True)
        vals = list(a) if len(a) > 1 else a[0]
        if isinstance(vals, SymSeq):
            return _seq_extreme(vals, True)
        if isinstance(vals, SymSet) and getattr(vals, "of_map", None) is not None:
            from .npmodel import ParArr
            r = ParArr(vals.of_map[0], vals.of_map[1], "int64").pyvc_max()
            return SymInt(r.term)
        if hasattr(vals, "pyvc_max"):
            return vals.pyvc_max()
        vals = eng.iterate(vals)
        if not vals:
            raise PyRaise(PyExc(ValueError, ("max() arg is an empty sequence",)))
        vals = [eng.concretize(v) if isinstance(v, SymOpt) else v for v in vals]
        if any(hasattr(v, "pyvc_binmax") for v in vals):
            return fold(vals, lambda x, y: x.pyvc_binmax(y) if hasattr(x, "pyvc_binmax") else y.pyvc_binmax(x))
        if any(isinstance(v, Sym) for v in vals):
            r = fold(vals, lambda x, y: ite(y > x, y, x))
            dts = {getattr(v, "dtype", None) for v in vals}
            if len(dts) == 1 and None not in dts and isinstance(r, Sym):
                r = wrap(r.term, True, dts.pop())
            return r
        return max(vals)

    def py_min(*a, **k):
        if k:
            return _extreme_kw(a, k, False)
        vals = list(a) if len(a) > 1 else a[0]
        if isinstance(vals, SymSeq):
            return _seq_extreme(vals, False)
        if hasattr(vals, "pyvc_min"):
            return vals.pyvc_min()
        vals = eng.iterate(vals)
        if not vals:
            raise PyRaise(PyExc(ValueError, ("min() arg is an empty sequence",)))
        vals = [eng.concretize(v) if isinstance(v, SymOpt) else v for v in vals]
        if any(hasattr(v, "pyvc_binmin") for v in vals):
            return fold(vals, lambda x, y: x.pyvc_binmin(y) if hasattr(x, "pyvc_binmin") else y.pyvc_binmin(x))
        if any(isinstance(v, Sym) for v in vals):
            return fold(vals, lambda x, y: ite(y < x, y, x))
        return min(vals)

    def _seq_extreme(seq, is_max):
        """max()/min() of a symbolic sequence of scalars: an attained bound."""
        n = to_term(seq.length)
        if not eng.truth(wrap(n > 0)):
            raise PyRaise(PyExc(ValueError, ("max() arg is an empty sequence",)))
        t = seq.template
        if not isinstance(t, Sym):
            raise Unsupported("max of a sequence of non-scalars")
        mx = eng.fresh("seqmax" if is_max else "seqmin", t.term.sort())
        w = eng.fresh("seqarg", z3.IntSort())
        i = z3.Int(f"sx!{eng.fresh_n}")
        el = lambda q: z3.substitute(t.term, (seq.i0, q))
        eng.assume(z3.And(0 <= w, w < n, el(w) == mx,
                          z3.ForAll([i], z3.Implies(z3.And(0 <= i, i < n), el(i) <= mx if is_max else el(i) >= mx))), why="max/min of a sequence")
        return wrap(mx, t.np, t.dtype)

    eng.seq_extreme = _seq_extreme

    def py_abs(v):
        return abs(v)

    def py_sum(v, start=0):
        if hasattr(v, "pyvc_sum"):
            return v.pyvc_sum()
        import ast as _ast
        acc = start
        for x in eng.iterate(v):
            acc = eng.binop(_ast.Add, acc, x)  # python semantics of + (optional / enum values fork, None raises TypeError)
        return acc

    def py_sorted(v, key=None, reverse=False):
        if "sorted" in eng.models:
            r = eng.models["sorted"](v, key, reverse)
            if r is not NotImplemented:
                return r
        eng._order_insensitive = True  # sorted() of a set does not depend on the set's iteration order
        try:
            items = eng.iterate(v)
        finally:
            eng._order_insensitive = False
        if isinstance(reverse, Sym):
            raise Unsupported("symbolic reverse flag on concrete sort")
        keys = [eng.call(key, [x], {}) if key is not None else x for x in items]
        if any(isinstance(k, Sym) for k in keys):
            raise Unsupported("sorted() with symbolic keys on a concrete list")
        order = sorted(range(len(items)), key=lambda i: keys[i], reverse=bool(reverse))
        return [items[i] for i in order]

    def py_enumerate(v, start=0):
        if isinstance(v, SymSeq):
            s = SymSeq(v.length, lambda i: (SymInt(i + start), v.elem(i)), name=f"enumerate({v.name})")
            s.enum_of, s.enum_start = v, start  # contracts may look through the enumeration at the underlying sequence
            return s
        return [(i + start, x) for i, x in enumerate(eng.iterate(v))]

    def py_zip(*vs):
        return list(zip(*[eng.iterate(v) for v in vs]))

    def py_range(*a):
        if any(isinstance(x, Sym) for x in a):
            raise Unsupported("symbolic range")
        return range(*a)

    def py_reversed(v):
        return list(reversed(eng.iterate(v)))

    def py_any(v):
        for x in eng.iterate(v):
            if eng.truth(x):
                return True
        return False

    def py_all(v):
        for x in eng.iterate(v):
            if not eng.truth(x):
                return False
        return True

    def py_hasattr(o, n):
        return eng.hasattr(o, n)

    def py_getattr(o, n, *d):
        try:
            return eng.getattr(o, n)
        except PyRaise as e:
            if d and issubclass(e.exc.pyclass(), AttributeError):
                return d[0]
            raise

    def py_setattr(o, n, v):
        return eng.setattr(o, n, v)

    def py_type(o):
        if isinstance(o, (SObj, EnumMember)):
            return o.cls
        if isinstance(o, PyExc):
            return o.cls
        if isinstance(o, Sym):
            raise Unsupported("type() of symbolic scalar")
        if hasattr(o, "pyvc_type"):
            return o.pyvc_type()
        return type(o)

    def py_hash(o):
        if isinstance(o, Sym):
            return eng.fresh_int("hash")
        if isinstance(o, (SObj,)):
            f, _ = o.cls.lookup("__hash__")
            if f is not None:
                return eng.call(BoundMethod(f, o), [], {})
            return o.oid
        return hash(o)

    def py_round(v, n=None):
        if isinstance(v, SymReal) and isinstance(n, int) and 0 <= n <= 15:
            # uninterpreted rounding: only |round(v, n) - v| <= 10^-n / 2 is known
            import z3 as _z3
            rf = _z3.Function(f"py_round_{n}", _z3.RealSort(), _z3.RealSort())
            r = rf(v.term)
            half = _z3.Q(1, 2 * 10 ** n)
            eng.assume(_z3.And(r - v.term <= half, v.term - r <= half), why="round(x, n) is within half a unit of the n-th decimal of x")
            return SymReal(r)
        if isinstance(v, Sym):
            raise Unsupported("round of symbolic")
        return round(v, n) if n is not None else round(v)

    def py_print(*a, **k):
        eng.event("print")

    def py_id(o):
        return id(o)

    def py_callable(o):
        return isinstance(o, (FuncInfo, BoundMethod, ClassInfo)) or callable(o)

    def py_next(it, *d):
        raise Unsupported("next()")

    def py_iter(v):
        return eng.iterate(v)

    B.update(
        isinstance=py_isinstance, issubclass=py_issubclass, len=py_len, int=py_int,
        float=py_float, bool=py_bool, str=py_str, list=py_list, tuple=py_tuple,
        set=py_set, dict=py_dict, max=py_max, min=py_min, abs=py_abs, sum=py_sum,
        sorted=py_sorted, enumerate=py_enumerate, zip=py_zip, range=py_range,
        reversed=py_reversed, any=py_any, all=py_all, hasattr=py_hasattr,
        getattr=py_getattr, setattr=py_setattr, type=py_type, hash=py_hash,
        round=py_round, print=py_print, id=py_id, callable=py_callable, iter=py_iter,
        object=object, None_=None, True_=True,
    )
    # make int/float/... usable in isinstance(): map builtin callables to types
    TYPEMAP = {py_int: int, py_float: float, py_bool: bool, py_str: str, py_list: list,
               py_tuple: tuple, py_set: set, py_dict: dict}
    _orig_isinstance = py_isinstance

    def isinstance_wrapper(v, T):
        def m(t):
            if isinstance(t, tuple):
                return tuple(m(x) for x in t)
            try:
                return TYPEMAP.get(t, t)
            except TypeError:
                return t
        return _orig_isinstance(v, m(T))

    B["isinstance"] = isinstance_wrapper
    eng.type_models = {v: k for k, v in TYPEMAP.items()}  # python type -> its modelled constructor (type(x) is int)

    def py_divmod(a, b):
        return (eng.floor_div(a, b), eng.py_mod(a, b)) if (isinstance(a, Sym) or isinstance(b, Sym)) else _divmod(a, b)

    def _divmod(a, b):
        try:
            return divmod(a, b)
        except ZeroDivisionError as ex:
            from .interp import PyRaise
            raise PyRaise(PyExc(ZeroDivisionError, ex.args))
    B["divmod"] = py_divmod

    def py_repr(v):
        if isinstance(v, (int, float, str, bool, type(None))) or (isinstance(v, (list, tuple, dict, set)) and not eng.contains_symbolic(v)):
            return repr(v)
        return SymStr(eng.fresh("repr", z3.StringSort()))

    def py_chr(v):
        if isinstance(v, Sym):
            raise Unsupported("chr of symbolic")
        return chr(v)

    def py_ord(v):
        if isinstance(v, Sym):
            raise Unsupported("ord of symbolic")
        return ord(v)
    B["repr"], B["chr"], B["ord"] = py_repr, py_chr, py_ord
    B["frozenset"] = py_frozenset
    for ex in ("Exception", "AssertionError", "KeyError", "ValueError", "TypeError",
               "NotImplementedError", "RuntimeError", "AttributeError", "IndexError",
               "ZeroDivisionError", "UnboundLocalError", "NameError", "BaseException",
               "StopIteration", "UserWarning", "DeprecationWarning", "FileNotFoundError", "OSError"):
        import builtins as _b
        B[ex] = getattr(_b, ex)
    def py_property(fget=None, fset=None, *a):
        if isinstance(fget, FuncInfo):
            fget.kind = "property"
            fget.setter = fset
        return fget

    B["property"] = py_property
    B["NotImplemented"] = NotImplemented
    B["slice"] = slice
    B["__name__"] = "__pyvc__"
    eng.builtins = B
    eng.py_isinstance = isinstance_wrapper

    M = eng.models
    M["enum.Enum!obj"] = _EnumBase
    M["enum.auto!obj"] = lambda: _Auto()
    M["enum.EnumMeta!obj"] = type
    M["abc.ABC!obj"] = object
    M["abc.ABCMeta!obj"] = type
    M["abc.abstractmethod!obj"] = lambda f: f
    M["dataclasses.dataclass!obj"] = "dataclass"
    M["typing.TYPE_CHECKING!obj"] = False
    M["typing.Any!obj"] = object
    M["typing.Callable!obj"] = object
    M["__future__.annotations!obj"] = None

    class _Time:
        n = 0

    def perf_counter():
        eng.event("clock")
        return eng.fresh_real("clock")

    M["time.perf_counter!obj"] = perf_counter
    M["time.time"] = perf_counter
    M["time.perf_counter"] = perf_counter
