"""Attribute protocol of the interpreter (faithful enough to run
PanopticaResult.__getattribute__ and InstanceLabelMap.__setattr__)."""
from __future__ import annotations
from .values import *
from .objects import *
from .interp import PyRaise, SuperProxy


def _noop(*a, **k):
    return None


class AttrMixin:
    def getattr(self, o, name):
        if isinstance(o, SObj):
            ga, _ = o.cls.lookup("__getattribute__")
            if ga is not None:
                return self.call(BoundMethod(ga, o), [name], {})
            return self.raw_getattr(o, name)
        if isinstance(o, ClassInfo):
            return self.class_getattr(o, name)
        if isinstance(o, (SymEnum, SymOpt)):
            return self.getattr(self.concretize(o), name)
        if isinstance(o, EnumMember):
            return self.enum_getattr(o, name)
        if isinstance(o, SuperProxy):
            return self.super_getattr(o, name)
        if isinstance(o, ModuleInfo):
            if name in o.ns:
                return o.ns[name]
            sub = self.load_module(o.name + "." + name)
            if sub is not None:
                return sub
            raise PyRaise(PyExc(AttributeError, (name,)))
        if isinstance(o, Opaque):
            d = o.dotted + "." + name
            if d + "!obj" in self.models:
                return self.models[d + "!obj"]
            return Opaque(d)
        if isinstance(o, FuncInfo):
            if name == "__name__":
                return o.name
            if name == "__qualname__":
                return o.qualname
            raise PyRaise(PyExc(AttributeError, (name,)))
        if isinstance(o, BoundMethod):
            if name == "__name__":
                return o.func.name
            if name == "__self__":
                return o.self_obj
            raise PyRaise(PyExc(AttributeError, (name,)))
        if isinstance(o, PyExc):
            if name == "args":
                return o.args
            raise PyRaise(PyExc(AttributeError, (name,)))
        if o is object and name == "__getattribute__":
            return lambda s, n: self.raw_getattr(s, n)
        if o is object and name == "__setattr__":
            return lambda s, n, v: s.attrs.__setitem__(n, v)
        if isinstance(o, Sym):
            if hasattr(type(o), "pyvc_attr_" + name):
                return getattr(o, "pyvc_attr_" + name)
            raise Unsupported(f"attribute {name} of symbolic scalar")
        if isinstance(o, (SymSeq, SymMap, SymSet)):
            return self.symcoll_getattr(o, name)
        tm = getattr(self, "type_models", {})
        for pytype, model in tm.items():
            if o is model:
                o = pytype  # str.lower, dict.fromkeys, ...: attributes of the modelled builtin types
                break
        try:
            return getattr(o, name)
        except AttributeError as ex:
            if isinstance(o, (int, float, str, bool, list, dict, tuple, set, frozenset, type(None), type, bytes, slice, range)):
                raise PyRaise(PyExc(AttributeError, ex.args))
            # a model object of the verifier lacks the attribute: a modelling gap, not behaviour of the program
            raise Unsupported(f"attribute {name} of modelled object {type(o).__name__}")

    def raw_getattr(self, o, name):
        if name == "__dict__":
            return o.attrs
        if name == "__class__":
            return o.cls
        ca, owner = o.cls.lookup(name)
        if isinstance(ca, FuncInfo) and ca.kind == "property":
            return self.call_func(ca, [o], {})
        if name in o.attrs:
            return o.attrs[name]
        if ca is not None or owner is not None:
            return self.bind_class_attr(ca, o, o.cls)
        # python-type bases (object / Exception)
        if name in ("__str__", "__repr__"):
            return lambda: SymStr(self.fresh("objstr", z3.StringSort()))
        gf, _ = o.cls.lookup("__getattr__")
        if gf is not None:
            return self.call(BoundMethod(gf, o), [name], {})
        raise PyRaise(PyExc(AttributeError, (f"{o.cls.name} object has no attribute {name}",)))

    def bind_class_attr(self, ca, inst, cls):
        if isinstance(ca, FuncInfo):
            if ca.kind == "function":
                return BoundMethod(ca, inst) if inst is not None else ca
            if ca.kind == "classmethod":
                return BoundMethod(ca, cls)
            if ca.kind == "staticmethod":
                return ca
            if ca.kind == "property":
                if inst is None:
                    return ca
                return self.call_func(ca, [inst], {})
        return ca

    def class_getattr(self, c, name):
        if name == "__name__":
            return c.name
        if name == "__qualname__":
            return c.name
        if name == "__mro__":
            return tuple(c.mro())
        if name == "__members__" and c.is_enum:
            return dict(c.members)
        ca, owner = c.lookup(name)
        if ca is None and owner is None:
            if name in ("__init__", "__init_subclass__"):
                return _noop
            raise PyRaise(PyExc(AttributeError, (f"class {c.name} has no attribute {name}",)))
        return self.bind_class_attr(ca, None, c)

    def enum_getattr(self, m, name):
        ca, owner = m.cls.lookup(name)
        if isinstance(ca, FuncInfo):
            if ca.kind == "property":
                return self.call_func(ca, [m], {})
            return self.bind_class_attr(ca, m, m.cls)
        if name == "name":
            return m._name
        if name == "value":
            return m._value
        if name == "__class__":
            return m.cls
        if isinstance(ca, EnumMember):
            return ca
        if ca is not None:
            return ca
        raise PyRaise(PyExc(AttributeError, (name,)))

    def super_getattr(self, sp, name):
        inst = sp.obj
        cls0 = inst.cls if isinstance(inst, (SObj, EnumMember)) else inst
        mro = cls0.mro()
        i = mro.index(sp.cls)
        for c in mro[i + 1 :]:
            if isinstance(c, ClassInfo):
                if name in c.attrs:
                    return self.bind_class_attr(c.attrs[name], inst if isinstance(inst, (SObj, EnumMember)) else None, cls0)
            else:
                if name in ("__init__", "__init_subclass__", "__setattr__"):
                    if name == "__setattr__":
                        return lambda n, v: inst.attrs.__setitem__(n, v)
                    return _noop
                if name == "__getattribute__":
                    return lambda n: self.raw_getattr(inst, n)
        if name in ("__init__", "__init_subclass__"):
            return _noop
        raise PyRaise(PyExc(AttributeError, (f"super has no {name}",)))

    def setattr(self, o, name, v):
        if isinstance(o, SObj):
            sa, _ = o.cls.lookup("__setattr__")
            if sa is not None:
                return self.call(BoundMethod(sa, o), [name, v], {})
            ca, _ = o.cls.lookup(name)
            if isinstance(ca, FuncInfo) and ca.kind == "property":
                setter = getattr(ca, "setter", None)
                if setter is None:
                    raise PyRaise(PyExc(AttributeError, (f"can't set attribute {name}",)))
                return self.call_func(setter, [o, v], {})
            self.event("setattr", o.oid, o.cls.name, name)
            o.attrs[name] = v
            return
        if isinstance(o, ClassInfo):
            self.event("setattr-class", o.name, name)
            o.attrs[name] = v
            return
        if isinstance(o, ModuleInfo):
            o.ns[name] = v
            return
        if hasattr(o, "pyvc_setattr"):
            return o.pyvc_setattr(name, v)
        raise Unsupported(f"setattr on {type(o).__name__}")

    def hasattr(self, o, name):
        try:
            self.getattr(o, name)
            return True
        except PyRaise as e:
            if issubclass(e.exc.pyclass(), AttributeError):
                return False
            raise

    def symcoll_getattr(self, o, name):
        from .builtins_model import symcoll_method

        return symcoll_method(self, o, name)
