"""Model of the numpy surface used by panoptica (trusted contracts; every
entry is listed in the evidence and conformance-tested against the installed
numpy by replay/np_conformance.py).

Voxel-set theory: an array is a per-voxel z3 term over base arrays evaluated
at one generic voxel constant of its index space."""
from __future__ import annotations
import z3
from .values import *
from .objects import *
from .interp import PyRaise

Vox = z3.DeclareSort("Vox")

UINT_BITS = {"uint8": 8, "uint16": 16, "uint32": 32, "uint64": 64}
INT_BITS = {"int8": 8, "int16": 16, "int32": 32, "int64": 64}


def dtype_range(dt):
    if dt in UINT_BITS:
        return 0, 2 ** UINT_BITS[dt] - 1
    if dt in INT_BITS:
        b = INT_BITS[dt]
        return -(2 ** (b - 1)), 2 ** (b - 1) - 1
    if dt == "bool":
        return 0, 1
    return None


class DType:
    """np.uint8 etc. (scalar type objects)."""

    def __init__(self, name):
        self.name = name

    def __repr__(self):
        return f"np.{self.name}"

    def __eq__(self, o):
        return isinstance(o, DType) and o.name == self.name

    def __hash__(self):
        return hash(self.name)

    def __call__(self, v=0):
        return np_scalar(v, self.name)

    def pyvc_isinstance(self, v):
        if isinstance(v, Sym) and v.np:
            return getattr(v, "dtype", None) == self.name
        return False


class AbstractDType(DType):
    """np.integer / np.unsignedinteger / np.floating ..."""

    def __init__(self, name, pred):
        super().__init__(name)
        self.pred = pred


def wrap_mod(t, dt):
    """Value of mathematical int t after conversion to integer dtype dt."""
    r = dtype_range(dt)
    if r is None or dt == "bool":
        return t
    lo, hi = r
    n = hi - lo + 1
    if lo == 0:
        return t % n
    return ((t - lo) % n) + lo


def np_scalar(v, dt):
    if isinstance(v, (int, bool)) and not isinstance(v, Sym):
        t = z3.IntVal(int(v))
    else:
        t = to_term(v)
    if dt.startswith("float"):
        s = SymReal(to_term(wrap(t), "real"), np=True)
    else:
        s = SymInt(z3.simplify(wrap_mod(t, dt)), np=True)
    return s


class Space:
    """An index space (shape) with its generic voxel."""
    _n = [0]

    def __init__(self, name=None, ndim=None):
        Space._n[0] += 1
        self.name = name or f"S{Space._n[0]}"
        self.x = z3.Const(f"vox_{self.name}", Vox)
        self.ndim = ndim
        self.size = z3.Int(f"size_{self.name}")


class VArr:
    _buf = [0]

    def __init__(self, term, dtype, space, buf=None, writable=True, owner=None):
        self.term = term
        self.dtype = dtype
        self.space = space
        if buf is None:
            VArr._buf[0] += 1
            buf = VArr._buf[0]
        self.buf = buf
        self.owner = owner  # 'caller' for input buffers

    def __repr__(self):
        return f"VArr<{self.dtype},{self.space.name},buf{self.buf}>"

    def at(self, w):
        return z3.substitute(self.term, (self.space.x, w))

    def __bool__(self):
        raise Unsupported("truth value of an array")


def base_array(eng, name, dtype, space, owner="caller"):
    """A symbolic input array: uninterpreted function Vox->Int with a range
    axiom for its dtype (assumed; added to the path condition)."""
    srt = z3.RealSort() if dtype.startswith("float") else (z3.BoolSort() if dtype == "bool" else z3.IntSort())
    f = z3.Function(name, Vox, srt)
    r = dtype_range(dtype)
    if r is not None and dtype != "bool":
        v = z3.Const(f"v_{name}", Vox)
        eng.assume(wrap(z3.ForAll([v], z3.And(f(v) >= r[0], f(v) <= r[1]), patterns=[f(v)])))
    a = VArr(f(space.x), dtype, space, owner=owner)
    a.base = f
    return a


class NpModule:
    """Stands for the numpy module inside interpreted code."""

    def __init__(self, eng):
        self.eng = eng
        for n in list(UINT_BITS) + list(INT_BITS) + ["float64", "float32", "bool_"]:
            setattr(self, n, DType(n if n != "bool_" else "bool"))
        self.integer = AbstractDType("integer", lambda d: d in UINT_BITS or d in INT_BITS)
        self.unsignedinteger = AbstractDType("unsignedinteger", lambda d: d in UINT_BITS)
        self.signedinteger = AbstractDType("signedinteger", lambda d: d in INT_BITS)
        self.floating = AbstractDType("floating", lambda d: d.startswith("float"))
        self.inf = float("inf")
        self.nan = float("nan")
        self.ndarray = _NDArrayType()

    # ---- boolean reductions on python lists
    def all(self, v, **k):
        if isinstance(v, VArr):
            raise Unsupported("np.all on array")
        items = self.eng.iterate(v)
        rs = []
        for x in items:
            if isinstance(x, bool):
                if not x:
                    return False
            elif isinstance(x, SymBool):
                rs.append(x)
            else:
                raise Unsupported("np.all of non-bool list")
        return sym_and(*rs) if rs else True

    def isnan(self, v):
        if isinstance(v, float):
            return v != v
        if isinstance(v, (int, Sym)):
            return False
        if v is None:
            raise PyRaise(PyExc(TypeError, ("isnan(None)",)))
        raise Unsupported("np.isnan")


class _NDArrayType:
    def pyvc_isinstance(self, v):
        return isinstance(v, VArr)


def install(eng):
    np = NpModule(eng)
    eng.models["numpy"] = np
    eng.np = np
    return np


# ---------------------------------------------------------------------------
# aggregates over python lists / symbolic sequences of numbers (trusted
# contracts of np.average / np.std / np.sum / np.min / np.max on 1-D input):
# uninterpreted functions of (elements, length); arithmetic facts about them
# are added only by the lemma units that prove them by induction.
_AR = z3.ArraySort(z3.IntSort(), z3.RealSort())
AGG = {nm: z3.Function("np_" + nm, _AR, z3.IntSort(), z3.RealSort())
       for nm in ("average", "pstd", "sstd", "sum", "min", "max")}


def seq_array(eng, v):
    """(Array Int Real, length term) of a list-like value of numbers."""
    if isinstance(v, SymSeq):
        t = v.template
        if not isinstance(t, (Sym, int, float)):
            raise Unsupported("aggregate over a sequence of non-scalars")
        tt = to_term(t, "real")
        if z3.is_select(tt) and tt.arg(1).eq(v.i0) and z3.is_const(tt.arg(0)) and tt.arg(0).decl().kind() == z3.Z3_OP_UNINTERPRETED:
            return tt.arg(0), to_term(v.length)
        return z3.Lambda([v.i0], tt), to_term(v.length)
    if isinstance(v, SymList):
        arr = v.arr
        if arr.range() != z3.RealSort():
            raise Unsupported("aggregate over int SymList")
        return arr, v.length
    if isinstance(v, (list, tuple)):
        arr = z3.K(z3.IntSort(), z3.RealVal(0))
        for i, x in enumerate(v):
            if isinstance(x, float) and (x != x or x in (float("inf"), float("-inf"))):
                raise Unsupported("non-finite element in aggregate")
            arr = z3.Store(arr, i, to_term(x, "real"))
        return arr, z3.IntVal(len(v))
    raise Unsupported(f"aggregate over {type(v).__name__}")


def _agg(name):
    def f(self, v, *a, **k):
        if isinstance(v, VArr):
            return getattr(self, "arr_" + name)(v, *a, **k)
        eng = self.eng
        if isinstance(v, (list, tuple)) and len(v) == 0:
            if name in ("min", "max"):
                raise PyRaise(PyExc(ValueError, ("zero-size array to reduction operation",)))
            if name == "sum":
                return np_scalar(0, "float64")
            eng.event("np-empty-mean")
            return float("nan")
        fn = name
        if name == "std":
            ddof = k.get("ddof", 0)
            if ddof == 0:
                fn = "pstd"
            elif ddof == 1:
                fn = "sstd"
            else:
                raise Unsupported("np.std ddof")
        elif k or a:
            if name == "average" and not a and set(k) <= {"axis"} and k.get("axis") is None:
                pass
            else:
                raise Unsupported(f"np.{name} with extra arguments")
        if name == "mean":
            fn = "average"
        arr, n = seq_array(eng, v)
        if isinstance(v, (SymSeq, SymList)):
            if not eng.truth(wrap(n > 0)):
                if name in ("min", "max"):
                    raise PyRaise(PyExc(ValueError, ("zero-size array to reduction operation",)))
                if name == "sum":
                    return np_scalar(0, "float64")
                eng.event("np-empty-mean")
                return float("nan")
        return SymReal(AGG[fn](arr, n), np=True)
    return f


for _nm in ("average", "std", "sum", "min", "max", "mean"):
    setattr(NpModule, _nm, _agg(_nm))
