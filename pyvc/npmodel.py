"""Model of the numpy surface used by panoptica (trusted contracts; every
entry is listed in the evidence and conformance-tested against the installed
numpy 1.26.4 by replay/npconf.py).

Voxel-set theory: an array is a per-voxel z3 term over base arrays evaluated
at the generic voxel constant of its index space.  Cardinalities (np.sum of
masks) are integer constants whose meaning is given by Venn-region axioms
generated when an obligation is emitted (venn_axioms)."""
from __future__ import annotations
import itertools
import z3
from .values import *
from . import values as _values
from .objects import *
from .interp import PyRaise

Vox = z3.DeclareSort("Vox")
I_, R_, B_ = z3.IntSort(), z3.RealSort(), z3.BoolSort()

UINT_BITS = {"uint8": 8, "uint16": 16, "uint32": 32, "uint64": 64}
INT_BITS = {"int8": 8, "int16": 16, "int32": 32, "int64": 64}


def dtype_range(dt):
    if dt in UINT_BITS:
        return 0, 2 ** UINT_BITS[dt] - 1
    if dt in INT_BITS:
        b = INT_BITS[dt]
        return -(2 ** (b - 1)), 2 ** (b - 1) - 1
    if dt == "bool":
        return 0, 1
    return None


def is_int_dtype(dt):
    return dt in UINT_BITS or dt in INT_BITS


def wrap_mod(t, dt):
    """Value of the mathematical integer t after conversion to integer dtype dt."""
    r = dtype_range(dt)
    if r is None or dt == "bool":
        return t
    lo, hi = r
    n = hi - lo + 1
    if lo == 0:
        return t % n
    return ((t - lo) % n) + lo


class DType:
    """np.uint8 etc. (scalar type objects / dtypes)."""

    def __init__(self, name):
        self.name = name

    def __repr__(self):
        return f"np.{self.name}"

    def __eq__(self, o):
        return isinstance(o, DType) and o.name == self.name

    def __ne__(self, o):
        return not self.__eq__(o)

    def __hash__(self):
        return hash(self.name)

    def __call__(self, v=0):
        return np_scalar(v, self.name)

    def pyvc_isinstance(self, v):
        return isinstance(v, Sym) and v.dtype == self.name

    def pyvc_str(self):
        return self.name

    @property
    def __name__(self):
        return self.name


class AbstractDType(DType):
    """np.integer / np.unsignedinteger / np.floating ..."""

    def __init__(self, name, pred):
        super().__init__(name)
        self.pred = pred

    def pyvc_isinstance(self, v):
        return isinstance(v, Sym) and v.dtype is not None and self.pred(v.dtype)


def np_scalar(v, dt):
    t = z3.IntVal(int(v)) if isinstance(v, (int, bool)) and not isinstance(v, Sym) else to_term(v)
    if dt.startswith("float"):
        return SymReal(z3.simplify(to_term(wrap(t), "real")), True, dt)
    if z3.is_real(t):
        t = z3.ToInt(t)
    return SymInt(z3.simplify(wrap_mod(t, dt)), True, dt)


def _scalar_result_dtype(da, db, a, b):
    """numpy 1.26 (legacy promotion) for scalar (op) scalar."""
    def cat(d, x):
        if d is not None:
            return d
        if isinstance(x, bool):
            return "bool"
        if isinstance(x, float) or isinstance(x, SymReal):
            return "float64"
        return "int64"  # python int behaves as a C long
    a_, b_ = cat(da, a), cat(db, b)
    if a_ == b_:
        return a_
    if a_.startswith("float") or b_.startswith("float"):
        return "float64"
    if a_ == "bool":
        return b_
    if b_ == "bool":
        return a_
    ua, ub = a_ in UINT_BITS, b_ in UINT_BITS
    if ua and ub:
        return a_ if UINT_BITS[a_] >= UINT_BITS[b_] else b_
    if not ua and not ub:
        return a_ if INT_BITS[a_] >= INT_BITS[b_] else b_
    u, s = (a_, b_) if ua else (b_, a_)
    if UINT_BITS[u] < INT_BITS[s]:
        return s
    nxt = {8: "int16", 16: "int32", 32: "int64"}.get(UINT_BITS[u])
    return nxt if nxt else "float64"  # uint64 with a signed integer -> float64


def _bounds(t, d):
    """conservative interval of an integer term of dtype d (None: unknown)"""
    if z3.is_int_value(t):
        return t.as_long(), t.as_long()
    r = dtype_range(d) if d else None
    return r


def _fits(f, ta, da, tb, db, rd):
    """True if f(a, b) provably stays inside dtype rd (interval arithmetic), so no wrap is needed"""
    ba, bb, rr = _bounds(ta, da), _bounds(tb, db), dtype_range(rd)
    if ba is None or bb is None or rr is None:
        return False
    try:
        cands = [f(x, y) for x in ba for y in bb]
    except Exception:
        return False
    return min(cands) >= rr[0] and max(cands) <= rr[1]


def _scalar_hook(a, b, ta, tb, da, db, f):
    rd = _scalar_result_dtype(da, db, a, b)
    if rd.startswith("float"):
        if z3.is_int(ta):
            ta = z3.ToReal(ta)
        if z3.is_int(tb):
            tb = z3.ToReal(tb)
        return SymReal(z3.simplify(f(ta, tb)), True, rd)
    r = f(ta, tb)
    if z3.is_real(r):
        return SymReal(z3.simplify(r), True, "float64")
    if _fits(f, ta, da, tb, db, rd):
        return SymInt(z3.simplify(r), True, rd)
    return SymInt(z3.simplify(wrap_mod(r, rd)), True, rd)


_values._SCALAR_HOOK[0] = _scalar_hook


# ---------------------------------------------------------------------------
class Space:
    """An index space (array shape) with its generic voxel."""
    _n = [0]

    def __init__(self, name=None, ndim=None):
        Space._n[0] += 1
        self.name = name or f"S{Space._n[0]}"
        self.x = z3.Const(f"vox_{self.name}", Vox)
        self.ndim = ndim  # int or SymInt
        self.size = z3.Int(f"size_{self.name}")
        self.shape = ShapeTok(self)
        self._coords_declared = False

    def coord(self, k):
        return z3.Function(f"coord{k}_{self.name}", Vox, I_)

    def extent(self, k):
        return z3.Int(f"extent{k}_{self.name}")

    def declare_coords(self, eng):
        """0 <= coord_k(v) < extent_k for every voxel (assumed geometry of an array)"""
        if self._coords_declared or not isinstance(self.ndim, int):
            return
        self._coords_declared = True
        v = z3.Const(f"cv_{self.name}", Vox)
        eng.assume(z3.And(*[z3.And(self.extent(k) >= 1, self.extent(k) <= 2 ** 40, z3.ForAll([v], z3.And(self.coord(k)(v) >= 0, self.coord(k)(v) < self.extent(k)), patterns=[self.coord(k)(v)]))
                            for k in range(self.ndim)]), why="array geometry: coordinates within the extents")


class ShapeTok:
    def __init__(self, space):
        self.space = space

    def __eq__(self, o):
        return isinstance(o, ShapeTok) and o.space is self.space

    def __ne__(self, o):
        return not self.__eq__(o)

    def __hash__(self):
        return id(self.space)

    def pyvc_str(self):
        return f"<shape {self.space.name}>"

    def pyvc_len(self):
        if not isinstance(self.space.ndim, int):
            raise Unsupported("len(shape) of an array of symbolic dimensionality")
        return self.space.ndim

    def pyvc_getitem(self, k):
        if isinstance(k, int) and isinstance(self.space.ndim, int) and 0 <= k < self.space.ndim:
            return SymInt(self.space.extent(k))
        raise Unsupported("shape index")


CARDS = {}  # const name -> (kind, term, space)   kind: 'card' (bool term) | 'sum' (int term)
_card_n = [0]


def card(phi, space):
    """|{x : phi(x)}| as an Int constant (meaning: venn_axioms)."""
    phi = z3.simplify(phi)
    for nm, (k, t, sp) in CARDS.items():
        if k == "card" and sp is space and t.eq(phi):
            return z3.Int(nm)
    _card_n[0] += 1
    nm = f"card!{_card_n[0]}"
    CARDS[nm] = ("card", phi, space)
    return z3.Int(nm)


def vsum(term, space):
    term = z3.simplify(term)
    for nm, (k, t, sp) in CARDS.items():
        if k == "sum" and sp is space and t.eq(term):
            return z3.Int(nm)
    _card_n[0] += 1
    nm = f"vsum!{_card_n[0]}"
    CARDS[nm] = ("sum", term, space)
    return z3.Int(nm)


def _atoms(t, out):
    """maximal non-propositional boolean subterms."""
    if z3.is_bool(t) and z3.is_app(t):
        k = t.decl().kind()
        if k in (z3.Z3_OP_AND, z3.Z3_OP_OR, z3.Z3_OP_NOT, z3.Z3_OP_IMPLIES, z3.Z3_OP_XOR) or (
            k in (z3.Z3_OP_EQ, z3.Z3_OP_IFF, z3.Z3_OP_ITE) and all(z3.is_bool(c) for c in t.children())
        ):
            for c in t.children():
                _atoms(c, out)
            return
        if k in (z3.Z3_OP_TRUE, z3.Z3_OP_FALSE):
            return
        if not any(t.eq(a) for a in out):
            out.append(t)
        return
    if z3.is_app(t):
        # integer term: atoms are the conditions of its if-then-elses
        if t.decl().kind() == z3.Z3_OP_ITE:
            _atoms(t.arg(0), out)
            _atoms(t.arg(1), out)
            _atoms(t.arg(2), out)
        else:
            for c in t.children():
                if z3.is_app(c) and _contains_ite(c):
                    _atoms(c, out)


def _contains_ite(t):
    if z3.is_app(t):
        if t.decl().kind() == z3.Z3_OP_ITE:
            return True
        return any(_contains_ite(c) for c in t.children())
    return False


def _vox_fns(atoms):
    """names of the base-array functions (Vox -> value) occurring in the atoms"""
    names, seen = set(), set()

    def walk(t):
        if t.get_id() in seen:
            return
        seen.add(t.get_id())
        if z3.is_app(t):
            d = t.decl()
            if d.arity() == 1 and d.kind() == z3.Z3_OP_UNINTERPRETED and d.domain(0) == Vox:
                names.add(d.name())
            for c in t.children():
                walk(c)
    for a in atoms:
        walk(a)
    return names


_UC_CACHE = {}  # term id -> (term kept alive, frozenset of card names)


def _cards_of(t):
    tid = t.get_id()
    hit = _UC_CACHE.get(tid)
    if hit is not None:
        return hit[1]
    if not CARDS:
        return frozenset()
    # fast path: textual scan (card constants have reserved name prefixes)
    sx = t.sexpr()
    if "card!" not in sx and "vsum!" not in sx:
        r = frozenset()
    else:
        import re
        r = frozenset(n for n in re.findall(r"(?:card|vsum)![0-9]+", sx) if n in CARDS)
    _UC_CACHE[tid] = (t, r)
    return r


def used_cards(exprs):
    names = set()
    for e in exprs:
        names |= _cards_of(e)
    return sorted(names)


_VENN_CACHE = {}


def venn_axioms(names, max_atoms=7):
    key = (tuple(names), max_atoms)
    if key not in _VENN_CACHE:
        _VENN_CACHE[key] = _venn_axioms(names, max_atoms)
    return list(_VENN_CACHE[key])


def _venn_axioms(names, max_atoms=7):
    """BAPA-style reduction: for the cardinality constants `names`, introduce
    one non-negative region size per truth assignment of the atoms of their
    formulas (per index space); a region may be non-empty only if a witness
    voxel realises it (theory consistency of the atoms)."""
    out = []
    by_space = {}
    for n in names:
        k, t, sp = CARDS[n]
        by_space.setdefault(id(sp), (sp, []))[1].append((n, k, t))
    clusters = []
    for sp, items in by_space.values():
        # cards that share no atom are independent: one Venn diagram per connected cluster (sound; complete
        # up to theory links between atoms of different clusters)
        entries = []
        for n, k, t in items:
            a = []
            _atoms(t, a)
            entries.append([(n, k, t)], ) if False else entries.append(([(n, k, t)], a))
        merged = True
        while merged:
            merged = False
            for i in range(len(entries)):
                for j in range(i + 1, len(entries)):
                    if _vox_fns(entries[i][1]) & _vox_fns(entries[j][1]):
                        its = entries[i][0] + entries[j][0]
                        ats = list(entries[i][1])
                        for y in entries[j][1]:
                            if not any(y.eq(x) for x in ats):
                                ats.append(y)
                        entries[i] = (its, ats)
                        del entries[j]
                        merged = True
                        break
                if merged:
                    break
        for its, ats in entries:
            clusters.append((sp, its, ats))
    for sp, items, atoms in clusters:
        if len(atoms) > max_atoms:
            raise Unsupported(f"{len(atoms)} atoms in one Venn diagram")
        regions = []
        key = abs(hash(tuple(n for n, _, _ in items))) % 10 ** 6
        for bits in itertools.product([True, False], repeat=len(atoms)):
            tag = "".join("1" if b else "0" for b in bits)
            nv = z3.Int(f"region!{sp.name}!{tag}!{key}")
            w = z3.Const(f"wit!{sp.name}!{tag}!{key}", Vox)
            lits = [a if b else z3.Not(a) for a, b in zip(atoms, bits)]
            real = z3.substitute(z3.And(*lits) if lits else z3.BoolVal(True), (sp.x, w))
            out.append(nv >= 0)
            out.append(z3.Implies(nv > 0, real))
            regions.append((bits, nv))
        subs_for = lambda bits: [(a, z3.BoolVal(b)) for a, b in zip(atoms, bits)]
        for n, k, t in items:
            terms = []
            for bits, nv in regions:
                v = z3.simplify(z3.substitute(t, *subs_for(bits))) if atoms else z3.simplify(t)
                if k == "card":
                    if z3.is_true(v):
                        terms.append(nv)
                    elif not z3.is_false(v):
                        raise Unsupported(f"cardinality formula not propositional over its atoms: {v}")
                else:
                    if not z3.is_int_value(v):
                        v = _region_constant(t, atoms, bits)
                    if v is None:
                        continue  # region is theory-inconsistent: it is empty
                    if z3.is_int_value(v):
                        if v.as_long() != 0:
                            terms.append(v.as_long() * nv)
                    else:
                        raise Unsupported(f"np.sum of a non-mask integer array (value {v} is not constant on a Venn region)")
            out.append(z3.Int(n) == (z3.Sum(terms) if terms else z3.IntVal(0)))
        out.append(sp.size == z3.Sum([nv for _, nv in regions]))
        out.append(sp.size >= 0)
        out.append(sp.size <= 2 ** 40)  # assumption A-SIZE: arrays have at most 2^40 elements (no int64 overflow in sums)
    return out


def _is_mask_term(t):
    """integer term whose value is given by if-then-else over numerals (region-constant)"""
    if z3.is_int_value(t):
        return True
    if z3.is_app(t):
        k = t.decl().kind()
        if k == z3.Z3_OP_ITE:
            return _is_mask_term(t.arg(1)) and _is_mask_term(t.arg(2))
        if k in (z3.Z3_OP_ADD, z3.Z3_OP_MUL, z3.Z3_OP_SUB, z3.Z3_OP_UMINUS, z3.Z3_OP_MOD, z3.Z3_OP_IDIV):
            return all(_is_mask_term(c) for c in t.children())
    return False


def _is_region_constant_term(t):
    """semantic check: the integer term takes one value on every Venn region of its own atoms"""
    atoms = []
    _atoms(t, atoms)
    if not atoms or len(atoms) > 4:
        return False
    for bits in itertools.product([True, False], repeat=len(atoms)):
        v = z3.simplify(z3.substitute(t, *[(a, z3.BoolVal(b)) for a, b in zip(atoms, bits)]))
        if z3.is_int_value(v):
            continue
        v = _region_constant(t, atoms, bits)
        if v is not None and not z3.is_int_value(v):
            return False
    return True


def _region_constant(t, atoms, bits):
    """value of integer term t on the region given by the atom literals, if it is constant there"""
    s = z3.Solver()
    s.set("timeout", 2000)
    for a, b in zip(atoms, bits):
        s.add(a if b else z3.Not(a))
    r = s.check()
    if r == z3.unsat:
        return None
    if r != z3.sat:
        return t
    k = s.model().eval(t, model_completion=True)
    s.add(t != k)
    if s.check() == z3.unsat:
        return k
    return t


# ---------------------------------------------------------------------------
class VArr:
    _buf = [0]

    def __init__(self, term, dtype, space, buf=None, owner=None, base=None):
        self.term = term
        self.dtype_name = dtype
        self.space = space
        if buf is None:
            VArr._buf[0] += 1
            buf = VArr._buf[0]
        self.buf = buf
        self.owner = owner  # 'caller' for input buffers
        self.base = base

    # numpy attributes -------------------------------------------------------
    @property
    def dtype(self):
        return DType(self.dtype_name)

    @property
    def shape(self):
        return self.space.shape

    @property
    def ndim(self):
        if self.space.ndim is None:
            return wrap(z3.Int(f"ndim_{self.space.name}"))  # symbolic dimensionality
        return self.space.ndim

    @property
    def size(self):
        return wrap(self.space.size)

    def __repr__(self):
        return f"VArr<{self.dtype_name},{self.space.name},buf{self.buf}>"

    def __bool__(self):
        raise Unsupported("truth value of an array")

    def at(self, w):
        return z3.substitute(self.term, (self.space.x, w))

    def new(self, term, dtype):
        return VArr(z3.simplify(term), dtype, self.space)

    def copy(self, order="C"):
        # the values by index are the same for every order; "K"/"A" only keep the memory layout of the source
        if order not in ("C", "F", "K", "A"):
            raise Unsupported("copy order")
        cur().event("arr-copy", self.buf)
        return VArr(self.term, self.dtype_name, self.space)

    def _flat(self, order, what):
        """ravel / flatten / reshape(-1): index-order flattenings ("C", "F") re-index every array of one shape in the same way, so
        arrays stay aligned voxel by voxel; memory-order flattenings ("K", "A") re-index by the argument's own strides: two arrays of
        one shape are then aligned only if they happen to share a memory layout -- a contract violation for layout-independent code."""
        if order not in ("C", "F", "K", "A"):
            raise Unsupported("flatten order")
        if order in ("K", "A"):
            cur().oblige(f"layout-independence({what}(order={order!r}) orders the elements by the memory layout of its argument)", z3.BoolVal(False))
        cur().event("arr-copy", self.buf)
        return VArr(self.term, self.dtype_name, self.space)

    def ravel(self, order="C"):
        return self._flat(order, "ravel")

    def flatten(self, order="C"):
        return self._flat(order, "flatten")

    def astype(self, dt, **k):
        dt = _dtype_name(dt)
        cp = k.pop("copy", True)
        if set(k) - {"casting", "order", "subok"}:
            raise Unsupported("astype options")
        if isinstance(cp, Sym):
            raise Unsupported("symbolic copy flag")
        if not cp and dt == self.dtype_name:
            return self  # astype(copy=False) with an unchanged dtype returns the array itself: later writes hit the same buffer
        cur().event("arr-astype", self.buf, dt)
        return VArr(z3.simplify(_cast_term(self.term, self.dtype_name, dt)), dt, self.space)

    def nonzero_term(self):
        t = self.term
        if z3.is_bool(t):
            return t
        return t != 0

    # comparisons --------------------------------------------------------------
    def _cmp(self, o, f):
        if isinstance(o, VArr):
            _same_space(self, o)
            a, b = _num_terms(self.term, o.term)
            return self.new(f(a, b), "bool")
        if o is None:
            return self.new(z3.BoolVal(f is not _EQ), "bool")
        a, b = _num_terms(self.term, to_term(o))
        return self.new(f(a, b), "bool")

    def elementwise_eq(self, o):
        return self._cmp(o, _EQ)

    def __eq__(self, o):
        return self._cmp(o, _EQ)

    def __ne__(self, o):
        return self._cmp(o, lambda a, b: a != b)

    def __lt__(self, o):
        return self._cmp(o, lambda a, b: a < b)

    def __le__(self, o):
        return self._cmp(o, lambda a, b: a <= b)

    def __gt__(self, o):
        return self._cmp(o, lambda a, b: a > b)

    def __ge__(self, o):
        return self._cmp(o, lambda a, b: a >= b)

    __hash__ = object.__hash__

    def logical_not(self):
        return self.new(z3.Not(self.nonzero_term()), "bool")

    def __invert__(self):
        if self.dtype_name != "bool":
            raise Unsupported("~ on a non-boolean array")
        return self.new(z3.Not(self.term), "bool")

    def __and__(self, o):
        return _boolop(self, o, z3.And)

    def __or__(self, o):
        return _boolop(self, o, z3.Or)

    def __xor__(self, o):
        return _boolop(self, o, z3.Xor)

    # arithmetic -----------------------------------------------------------------
    def _arith(self, o, f, rev=False, opname="+"):
        eng = cur()
        if isinstance(o, VArr):
            _same_space(self, o)
            rd = _array_array_dtype(self.dtype_name, o.dtype_name)
            a, b = (o, self) if rev else (self, o)
            return VArr(z3.simplify(_apply(f, a.term, a.dtype_name, b.term, b.dtype_name, rd, opname)), rd, self.space)
        if not isinstance(o, (int, float, bool, Sym)):
            return NotImplemented
        rd = _array_scalar_dtype(eng, self.dtype_name, o)
        ot = to_term(o)
        od = getattr(o, "dtype", None) or ("float64" if z3.is_real(ot) else "int64")
        if rev:
            t = _apply(f, ot, od, self.term, self.dtype_name, rd, opname)
        else:
            t = _apply(f, self.term, self.dtype_name, ot, od, rd, opname)
        return VArr(z3.simplify(t), rd, self.space)

    def __add__(self, o):
        return self._arith(o, lambda a, b: a + b, opname="+")

    def __radd__(self, o):
        return self._arith(o, lambda a, b: a + b, True, opname="+")

    def __sub__(self, o):
        return self._arith(o, lambda a, b: a - b, opname="-")

    def __mul__(self, o):
        return self._arith(o, lambda a, b: a * b, opname="*")

    def __rmul__(self, o):
        return self._arith(o, lambda a, b: a * b, True, opname="*")

    def inplace_op(self, op, o):
        """a += o etc.: the result is cast back into a's own dtype (same_kind)."""
        import ast
        f = {ast.Add: lambda a, b: a + b, ast.Sub: lambda a, b: a - b, ast.Mult: lambda a, b: a * b}.get(op)
        if f is None:
            raise Unsupported("in-place array operator")
        r = self._arith(o, f, opname={ast.Add: "+", ast.Sub: "-", ast.Mult: "*"}[op])
        if not _same_kind_castable(r.dtype_name, self.dtype_name):
            raise PyRaise(PyExc(TypeError, (f"Cannot cast ufunc output from dtype('{r.dtype_name}') to dtype('{self.dtype_name}') with casting rule 'same_kind'",)))
        cur().event("arr-write", self.buf, self.owner)
        self.term = z3.simplify(_cast_term(r.term, r.dtype_name, self.dtype_name))
        return self

    # reductions --------------------------------------------------------------------
    def sum(self, *a, **k):
        if a or k:
            raise Unsupported("sum with axis")
        if self.dtype_name == "bool":
            return SymInt(card(self.term, self.space), True, "int64")
        if is_int_dtype(self.dtype_name):
            acc = "uint64" if self.dtype_name in UINT_BITS else "int64"
            if _is_mask_term(self.term) or _is_region_constant_term(self.term):
                return SymInt(vsum(self.term, self.space), True, acc)
            if self.dtype_name in UINT_BITS:
                # sum of an unsigned label array: only "non-negative, zero iff all elements are zero" is modelled
                # (assumption: no overflow of the uint64 accumulator)
                eng = cur()
                sm = eng.fresh("labelsum", I_)
                eng.assume(z3.And(sm >= 0, (sm == 0) == (card(self.term != 0, self.space) == 0)), why="np.sum of an unsigned array")
                return SymInt(sm, True, acc)
            raise Unsupported("sum of a signed non-mask array")
        raise Unsupported("sum of float array")

    def max(self, *a, **k):
        if a or k:
            raise Unsupported("max with axis")
        eng = cur()
        if not eng.truth(wrap(self.space.size > 0)):
            raise PyRaise(PyExc(ValueError, ("zero-size array to reduction operation maximum which has no identity",)))
        mx = eng.fresh("amax", R_ if z3.is_real(self.term) else I_)
        w = eng.fresh("amax_w", Vox)
        v = z3.Const(f"v_amax{eng.fresh_n}", Vox)
        tt = z3.If(self.term, z3.IntVal(1), z3.IntVal(0)) if z3.is_bool(self.term) else self.term
        at = lambda q: z3.substitute(tt, (self.space.x, q))
        eng.assume(z3.And(at(w) == mx, z3.ForAll([v], at(v) <= mx)), why="np.ndarray.max")
        return wrap(mx, True, self.dtype_name)

    def any(self):
        return wrap(card(self.nonzero_term(), self.space) > 0)

    # indexing -------------------------------------------------------------------------
    def pyvc_setitem(self, k, v):
        eng = cur()
        if isinstance(k, VArr) and k.dtype_name == "bool":
            _same_space(self, k)
            if isinstance(v, VArr):
                raise Unsupported("masked assignment of an array")
            vt = _cast_scalar(v, self.dtype_name)
            eng.event("arr-write", self.buf, self.owner)
            self.term = z3.simplify(z3.If(k.term, vt, self.term))
            return
        raise Unsupported(f"array item assignment with index {k!r}")

    def pyvc_getitem(self, k):
        if isinstance(k, VArr) and k.dtype_name == "bool":
            _same_space(self, k)
            return VSel(self, k.term)
        if hasattr(k, "crop_of"):
            return k.crop_of(self)
        if isinstance(k, tuple) and k and all(isinstance(x, slice) for x in k):
            return box_from_slices(cur(), self.space, k).crop_of(self)
        if isinstance(k, slice) and isinstance(self.space.ndim, int) and self.space.ndim == 1:
            return box_from_slices(cur(), self.space, (k,)).crop_of(self)
        raise Unsupported(f"array indexing with {k!r}")


class TArr:
    """A 1-D lookup table (np.arange / fancy-index assigned): index term -> value term."""

    def __init__(self, length, fn, dtype):
        self.length = length  # z3 Int term
        self.fn = fn
        self.dtype_name = dtype

    @property
    def dtype(self):
        return DType(self.dtype_name)

    def pyvc_setitem(self, k, v):
        eng = cur()
        if not (isinstance(k, ParArr) and isinstance(v, ParArr) and k.m is v.m and k.which == "keys" and v.which == "values"):
            raise Unsupported("table assignment other than T[keys(map)] = values(map)")
        m = k.m
        kap = z3.Function(f"tkey!{eng.fresh_n + 1}", I_, I_)
        hit = z3.Function(f"thit!{eng.fresh_n + 1}", I_, B_)
        eng.fresh_n += 1
        q, i = z3.Int(f"tq!{eng.fresh_n}"), z3.Int(f"ti!{eng.fresh_n}")
        ck = lambda t: _cast_term(t, "int64", k.dtype_name)
        cv = lambda t: _cast_term(t, "int64", v.dtype_name)
        inb = z3.ForAll([q], z3.Implies(z3.Select(m.dom, q), z3.And(ck(q) >= 0, ck(q) < self.length)))
        if not eng.truth(wrap(inb)):
            raise PyRaise(PyExc(IndexError, ("index out of bounds for table assignment",)))
        eng.assume(z3.And(
            z3.ForAll([q], z3.Implies(z3.Select(m.dom, q), hit(ck(q))), patterns=[z3.Select(m.dom, q)]),
            z3.ForAll([i], z3.Implies(hit(i), z3.And(z3.Select(m.dom, kap(i)), ck(kap(i)) == i)), patterns=[hit(i)])), why="fancy-index assignment")
        old = self.fn
        dt = self.dtype_name
        self.fn = lambda t, old=old: z3.If(hit(t), _cast_term(cv(z3.Select(m.val, kap(t))), v.dtype_name, dt), old(t))
        self.hit, self.kap = hit, kap

    def pyvc_getitem(self, k):
        eng = cur()
        if isinstance(k, VArr):
            t = k.term
            v = z3.Const(f"tv!{eng.fresh_n + 1}", Vox)
            eng.fresh_n += 1
            inb = z3.ForAll([v], z3.And(k.at(v) >= 0, k.at(v) < self.length))
            if not eng.truth(wrap(inb)):
                raise PyRaise(PyExc(IndexError, ("index out of bounds for table lookup",)))
            return VArr(z3.simplify(self.fn(t)), self.dtype_name, k.space)
        raise Unsupported("table indexing")


class ParArr:
    """np.array(list(d.keys()|d.values()), dtype=D) of a symbolic dict: keys and values arrays are parallel."""

    def __init__(self, m, which, dtype):
        self.m = m
        self.which = which
        self.dtype_name = dtype

    @property
    def dtype(self):
        return DType(self.dtype_name)

    def pyvc_max(self):
        eng = cur()
        m = self.m
        q = z3.Int(f"pq!{eng.fresh_n + 1}")
        eng.fresh_n += 1
        val = (lambda t: _cast_term(t, "int64", self.dtype_name)) if self.which == "keys" else (lambda t: _cast_term(z3.Select(m.val, t), "int64", self.dtype_name))
        if not eng.truth(wrap(z3.Exists([q], z3.Select(m.dom, q)))):
            raise PyRaise(PyExc(ValueError, ("max() arg is an empty sequence",)))
        mx, w = eng.fresh("pmax", I_), eng.fresh("pmax_w", I_)
        eng.assume(z3.And(z3.Select(m.dom, w), val(w) == mx, z3.ForAll([q], z3.Implies(z3.Select(m.dom, q), val(q) <= mx))), why="max of array")
        return wrap(mx, True, self.dtype_name)


class Box:
    """a crop region: inbox(v) says whether voxel v lies inside"""

    def __init__(self, inbox, slices=None, name="box"):
        self.inbox = inbox
        self.slices = slices
        self.name = name

    def crop_of(self, arr):
        zero = z3.BoolVal(False) if z3.is_bool(arr.term) else (z3.RealVal(0) if z3.is_real(arr.term) else z3.IntVal(0))
        # modelling contract: cropping to a box == masking by the box for every foreground-determined quantity (same buffer: a view)
        out = VArr(z3.simplify(z3.If(self.inbox(arr.space.x), arr.term, zero)), arr.dtype_name, arr.space, buf=arr.buf, owner=arr.owner)
        out.box = self
        cur().event("arr-crop", arr.buf, self.name)
        return out


def box_from_slices(eng, space, slices):
    if not (isinstance(space.ndim, int) and len(slices) == space.ndim and all(isinstance(sl, slice) and sl.step is None for sl in slices)):
        raise Unsupported("indexing with something other than one slice per axis")
    space.declare_coords(eng)

    def inbox(v, slices=slices):
        cs = []
        for k, sl in enumerate(slices):
            c = space.coord(k)(v)
            if sl.start is not None:
                cs.append(c >= to_term(sl.start))
            if sl.stop is not None:
                cs.append(c < to_term(sl.stop))
        return z3.And(*cs) if cs else z3.BoolVal(True)
    return Box(inbox, slices)


class Proj:
    """np.any(img, axis=all axes but `keep`): 1-D boolean profile along axis keep"""

    def __init__(self, arr, keep):
        self.arr, self.keep = arr, keep


class IdxSeq:
    """np.where(profile)[0]: increasing indices along one axis at which some foreground voxel exists"""

    def __init__(self, proj):
        self.proj = proj

    def pyvc_getitem(self, k):
        eng = cur()
        if isinstance(k, int) and k == 0:
            return self
        if isinstance(k, list) and k == [0, -1]:
            arr, ax = self.proj.arr, self.proj.keep
            sp = arr.space
            sp.declare_coords(eng)
            fg = arr.nonzero_term()
            if not eng.truth(wrap(card(fg, sp) > 0)):
                raise PyRaise(PyExc(IndexError, ("index 0 is out of bounds for axis 0 with size 0",)))
            eng.fresh_n += 1
            n = eng.fresh_n
            lo, hi = z3.Int(f"lo{ax}!{n}"), z3.Int(f"hi{ax}!{n}")
            wl, wh = z3.Const(f"wlo{ax}!{n}", Vox), z3.Const(f"whi{ax}!{n}", Vox)
            v = z3.Const(f"pv!{n}", Vox)
            at = lambda q: z3.substitute(fg, (sp.x, q))
            c = sp.coord(ax)
            eng.assume(z3.And(at(wl), c(wl) == lo, at(wh), c(wh) == hi, lo <= hi,
                              z3.ForAll([v], z3.Implies(at(v), z3.And(lo <= c(v), c(v) <= hi)))), why="np.any/np.where: extreme foreground indices along an axis")
            out = [SymInt(lo, True, "int64"), SymInt(hi, True, "int64")]
            eng.__dict__.setdefault("bbox_extremes", []).append((ax, lo, hi, arr))
            return out
        raise Unsupported("index into np.where result")


class SmallArr:
    """a short 1-D array with a concrete number of (possibly symbolic) elements"""

    def __init__(self, items, dtype):
        self.items, self.dtype_name = list(items), dtype

    def __mul__(self, o):
        if isinstance(o, (int, Sym)):
            return SmallArr([x * o for x in self.items], self.dtype_name)
        return NotImplemented

    __rmul__ = __mul__

    def pyvc_len(self):
        return len(self.items)

    def pyvc_getitem(self, k):
        if isinstance(k, int):
            return self.items[k]
        raise Unsupported("symbolic index into a small array")

    def pyvc_iterate(self):
        return list(self.items)

    def astype(self, dt, **k):
        dt = _dtype_name(dt)
        out = []
        for x in self.items:
            t = to_term(x)
            out.append(wrap(z3.simplify(_cast_term(t, self.dtype_name, dt)), True, dt))
        return SmallArr(out, dt)

    @property
    def dtype(self):
        return DType(self.dtype_name)


class SetArr:
    """np.asarray(<collection of labels known only through membership>): a 1-D array used as a label list"""

    def __init__(self, sset, dtype):
        self.sset, self.dtype_name = sset, dtype

    @property
    def dtype(self):
        return DType(self.dtype_name)

    def astype(self, dt, **k):
        dt = _dtype_name(dt)
        src = self.sset
        cur().fresh_n += 1
        v = z3.Int(f"castsrc!{cur().fresh_n}")
        dn = self.dtype_name
        # the image of the label set under the (possibly wrapping) cast
        member = lambda t, src=src, v=v, dn=dn, dt=dt: z3.Exists([v], z3.And(src.member(v), _cast_term(v, dn, dt) == t))
        return SetArr(SymSet(member, name=src.name + f".astype({dt})"), dt)


class VSel:
    """arr[mask]: the 1-D selection of the values at the voxels where mask holds."""

    def __init__(self, arr, cond):
        self.arr = arr
        self.cond = cond


def _EQ(a, b):
    return a == b


def _num_terms(a, b):
    if z3.is_bool(a) and not z3.is_bool(b):
        a = z3.If(a, z3.IntVal(1), z3.IntVal(0))
    if z3.is_bool(b) and not z3.is_bool(a):
        b = z3.If(b, z3.IntVal(1), z3.IntVal(0))
    if z3.is_real(a) and z3.is_int(b):
        b = z3.ToReal(b)
    if z3.is_real(b) and z3.is_int(a):
        a = z3.ToReal(a)
    return a, b


def _same_space(a, b):
    if a.space is not b.space:
        raise PyRaise(PyExc(ValueError, ("operands could not be broadcast together",)))


def _boolop(a, o, f):
    if not isinstance(o, VArr) or a.dtype_name != "bool" or o.dtype_name != "bool":
        raise Unsupported("bitwise operator on non-boolean arrays")
    _same_space(a, o)
    return a.new(f(a.term, o.term), "bool")


def _dtype_name(dt):
    if isinstance(dt, DType):
        return dt.name
    if isinstance(dt, str):
        return dt
    nm = getattr(dt, "__name__", None)
    if dt is bool or nm == "py_bool":
        return "bool"
    if dt is int or nm == "py_int":
        return "int64"
    if dt is float or nm == "py_float":
        return "float64"
    raise Unsupported(f"dtype {dt!r}")


def _cast_term(t, src, dst):
    if dst == "bool":
        return t if z3.is_bool(t) else (t != 0)
    if z3.is_bool(t):
        t = z3.If(t, z3.IntVal(1), z3.IntVal(0))
    if dst.startswith("float"):
        return z3.ToReal(t) if z3.is_int(t) else t
    if z3.is_real(t):
        # float -> integer: truncation toward zero when the value fits; out of range the C conversion is undefined (numpy's result
        # is platform dependent), modelled as an unspecified function of the value
        r = dtype_range(dst)
        tr = z3.If(t >= 0, z3.ToInt(t), -z3.ToInt(-t))
        if r is None:
            return tr
        unspec = z3.Function(f"float_to_{dst}_out_of_range", R_, I_)
        return z3.If(z3.And(tr >= r[0], tr <= r[1]), tr, unspec(t))
    if src == dst:
        return t
    r_src, r_dst = dtype_range(src), dtype_range(dst)
    if r_src and r_dst and r_dst[0] <= r_src[0] and r_src[1] <= r_dst[1]:
        return t  # widening: value preserved
    return wrap_mod(t, dst)


def _kind_rank(dt):
    return 0 if dt == "bool" else 1 if dt in UINT_BITS else 2 if dt in INT_BITS else 3


def _same_kind_castable(src, dst):
    """np.can_cast(src, dst, 'same_kind'): within a kind any size, or towards a higher kind (bool < unsigned < signed < float)"""
    return _kind_rank(src) <= _kind_rank(dst)


def _cast_scalar(v, dst):
    t = to_term(v)
    return _cast_term(t, getattr(v, "dtype", None) or ("float64" if z3.is_real(t) else ("bool" if z3.is_bool(t) else "int64")), dst)


_UORD = ["uint8", "uint16", "uint32", "uint64"]
_IORD = ["int8", "int16", "int32", "int64"]


def _array_array_dtype(a, b):
    if a == b:
        return a
    if a == "bool":
        return b
    if b == "bool":
        return a
    return _scalar_result_dtype(a, b, None, None)


def _array_scalar_dtype(eng, ad, s):
    """numpy 1.26 legacy value-based casting for array (op) scalar."""
    st = to_term(s)
    if z3.is_real(st) or (getattr(s, "dtype", None) or "").startswith("float"):
        return "float64" if not ad.startswith("float") else ad
    if ad.startswith("float") or z3.is_bool(st):
        return ad
    v = wrap(st)
    if eng.truth(v < 0):
        need = {"uint8": 1, "uint16": 2, "uint32": 3, "uint64": 4, "bool": 0}.get(ad)
        if need is None:
            need = _IORD.index(ad)
        for i, dt in enumerate(_IORD):
            if i >= need and eng.truth(v >= dtype_range(dt)[0]):
                return dt
        return "float64"
    if ad in UINT_BITS or ad == "bool":
        start = _UORD.index(ad) if ad in UINT_BITS else 0
        for dt in _UORD[start:]:
            if eng.truth(v <= dtype_range(dt)[1]):
                return dt
        return "float64"
    for dt in _IORD[_IORD.index(ad):]:
        if eng.truth(v <= dtype_range(dt)[1]):
            return dt
    return "float64"


def _apply(f, ta, da, tb, db, rd, opname):
    if rd == "bool":
        a = ta if z3.is_bool(ta) else (ta != 0)
        b = tb if z3.is_bool(tb) else (tb != 0)
        if opname == "+":
            return z3.Or(a, b)  # numpy: bool + bool is logical or
        if opname == "*":
            return z3.And(a, b)
        raise Unsupported("boolean subtract")
    if z3.is_bool(ta):
        ta = z3.If(ta, z3.IntVal(1), z3.IntVal(0))
    if z3.is_bool(tb):
        tb = z3.If(tb, z3.IntVal(1), z3.IntVal(0))
    if rd.startswith("float"):
        ta = z3.ToReal(ta) if z3.is_int(ta) else ta
        tb = z3.ToReal(tb) if z3.is_int(tb) else tb
        return f(ta, tb)
    # operands are converted to the result dtype, then combined modulo its width
    ca, cb = _cast_term(ta, da, rd), _cast_term(tb, db, rd)
    if _fits(f, ca, da if ca is ta else rd, cb, db if cb is tb else rd, rd):
        return f(ca, cb)
    return wrap_mod(f(ca, cb), rd)


def base_array(eng, name, dtype, space, owner="caller", binary=False):
    """A symbolic input array: uninterpreted function Vox->Int with a range axiom for its dtype (assumed).
    binary=True: a 0/1 mask stored in an integer dtype."""
    if dtype == "bool" or binary:
        f = z3.Function(name, Vox, B_)
        t = f(space.x) if dtype == "bool" else z3.If(f(space.x), z3.IntVal(1), z3.IntVal(0))
        return VArr(t, dtype, space, owner=owner, base=f)
    srt = R_ if dtype.startswith("float") else I_
    f = z3.Function(name, Vox, srt)
    r = dtype_range(dtype)
    if r is not None:
        v = z3.Const(f"v_{name}", Vox)
        eng.assume(z3.ForAll([v], z3.And(f(v) >= r[0], f(v) <= r[1]), patterns=[f(v)]), why=f"dtype range of {name}")
    return VArr(f(space.x), dtype, space, owner=owner, base=f)


# ---------------------------------------------------------------------------
# aggregates over python lists / symbolic sequences of numbers
_AR = z3.ArraySort(I_, R_)
AGG = {nm: z3.Function("np_" + nm, _AR, I_, R_) for nm in ("average", "pstd", "sstd", "sum", "min", "max")}


def seq_array(eng, v):
    """(Array Int Real, length term) of a list-like value of numbers."""
    if isinstance(v, SymSeq):
        t = v.template
        if not isinstance(t, (Sym, int, float)):
            raise Unsupported("aggregate over a sequence of non-scalars")
        tt = to_term(t, "real")
        if z3.is_select(tt) and tt.arg(1).eq(v.i0) and z3.is_const(tt.arg(0)) and tt.arg(0).decl().kind() == z3.Z3_OP_UNINTERPRETED:
            return tt.arg(0), to_term(v.length)
        return z3.Lambda([v.i0], tt), to_term(v.length)
    if isinstance(v, SymList):
        if v.arr.range() != R_:
            raise Unsupported("aggregate over int SymList")
        return v.arr, v.length
    if isinstance(v, (list, tuple)):
        arr = z3.K(I_, z3.RealVal(0))
        v = [_present(eng, x) for x in v]
        for i, x in enumerate(v):
            if isinstance(x, float) and (x != x or x in (float("inf"), float("-inf"))):
                raise Unsupported("non-finite element in aggregate")
            arr = z3.Store(arr, i, to_term(x, "real"))
        return arr, z3.IntVal(len(v))
    raise Unsupported(f"aggregate over {type(v).__name__}")


def _present(eng, x):
    """an optional list element used as a number: None would be a TypeError in numpy"""
    if isinstance(x, SymOpt):
        if eng.truth(wrap(x.is_none)):
            raise PyRaise(PyExc(TypeError, ("unsupported operand type(s): NoneType",)))
        return x.value
    return x


class NpModule:
    """Stands for the numpy module inside interpreted code."""

    def __init__(self, eng):
        self.eng = eng
        for n in list(UINT_BITS) + list(INT_BITS) + ["float64", "float32"]:
            setattr(self, n, DType(n))
        self.bool_ = DType("bool")
        self.integer = AbstractDType("integer", is_int_dtype)
        self.unsignedinteger = AbstractDType("unsignedinteger", lambda d: d in UINT_BITS)
        self.signedinteger = AbstractDType("signedinteger", lambda d: d in INT_BITS)
        self.floating = AbstractDType("floating", lambda d: d.startswith("float"))
        self.inf = float("inf")
        self.nan = float("nan")
        self.ndarray = _NDArrayType()

    def issubdtype(self, d, T):
        dn = _dtype_name(d)
        if isinstance(T, AbstractDType):
            return T.pred(dn)
        if getattr(T, "__name__", "") == "py_int" or T is int:
            return dn in INT_BITS
        return dn == _dtype_name(T)

    def all(self, v, **k):
        if isinstance(v, VArr):
            return wrap(card(z3.Not(v.nonzero_term()), v.space) == 0)
        if isinstance(v, SymSeq):
            t = v.template
            if isinstance(t, bool):
                return t or wrap(to_term(v.length) <= 0)
            if not isinstance(t, SymBool):
                raise Unsupported("np.all of a symbolic sequence of non-bools")
            return wrap(z3.ForAll([v.i0], z3.Implies(z3.And(v.i0 >= 0, v.i0 < to_term(v.length)), t.term)))
        rs = []
        for x in self.eng.iterate(v):
            if isinstance(x, bool):
                if not x:
                    return False
            elif isinstance(x, SymBool):
                rs.append(x)
            else:
                raise Unsupported("np.all of non-bool list")
        return sym_and(*rs) if rs else True

    def any(self, a=None, axis=None, **k):
        if a is None:
            a = k.get("a")
        if isinstance(a, VArr):
            if axis is not None:
                nd = a.space.ndim
                axes = tuple(axis) if isinstance(axis, (tuple, list)) else (axis,)
                if not isinstance(nd, int) or any(isinstance(x, Sym) for x in axes):
                    raise Unsupported("np.any with a symbolic axis")
                keep = [k for k in range(nd) if k not in axes]
                if len(keep) != 1:
                    raise Unsupported("np.any reducing to other than one axis")
                return Proj(a, keep[0])
            return a.any()
        for x in self.eng.iterate(a):
            if self.eng.truth(x):
                return True
        return False

    def count_nonzero(self, a):
        if isinstance(a, VArr):
            return SymInt(card(a.nonzero_term(), a.space), True, "int64")
        raise Unsupported("count_nonzero")

    def isinf(self, v):
        if hasattr(v, "isinf") and not isinstance(v, float):
            return v.isinf()
        if isinstance(v, float):
            return v in (float("inf"), float("-inf"))
        if isinstance(v, (int, Sym)):
            return False
        raise Unsupported("np.isinf")

    def isfinite(self, v):
        if hasattr(v, "isinf") and not isinstance(v, float):
            return sym_not(sym_or(v.isinf(), v.isnan()))
        if isinstance(v, float):
            return v == v and v not in (float("inf"), float("-inf"))
        if isinstance(v, (int, Sym)):
            return True
        raise Unsupported("np.isfinite")

    def isnan(self, v):
        if hasattr(v, "isnan") and not isinstance(v, float):
            return v.isnan()
        if isinstance(v, float):
            return v != v
        if isinstance(v, (int, Sym)):
            return False
        if v is None:
            raise PyRaise(PyExc(TypeError, ("isnan(None)",)))
        from .objects import ClassInfo
        if isinstance(v, (str, ClassInfo)):
            # numpy: "ufunc 'isnan' not supported for the input types" for strings and arbitrary objects such as classes
            raise PyRaise(PyExc(TypeError, ("ufunc 'isnan' not supported for the input types",)))
        raise Unsupported("np.isnan")

    def _logical(self, a, b, f, out=None, **k):
        if k:
            raise Unsupported("ufunc options")
        _same_space(a, b)
        res = f(a.nonzero_term(), b.nonzero_term())
        if out is None:
            return a.new(res, "bool")
        if not isinstance(out, VArr):
            raise Unsupported("out= of a logical ufunc is not an array")
        # out=<array>: the result is written INTO that buffer (cast to its dtype) and the same array object is returned
        _same_space(a, out)
        out.term = z3.simplify(_cast_term(res, "bool", out.dtype_name))
        cur().event("arr-write", out.buf, out.owner)
        return out

    def isclose(self, a, b, rtol=1e-05, atol=1e-08, **k):
        """np.isclose for scalars: |a - b| <= atol + rtol * |b| (nan / inf operands are not modelled)"""
        if k or any(isinstance(x, (VArr, list, tuple)) for x in (a, b)) or isinstance(rtol, Sym) or isinstance(atol, Sym):
            raise Unsupported("np.isclose outside the scalar form")
        ta, tb = to_term(a, "real"), to_term(b, "real")
        rt, at = z3.RealVal(repr(float(rtol))), z3.RealVal(repr(float(atol)))
        ab = lambda t: z3.If(t >= 0, t, -t)
        return wrap(ab(ta - tb) <= at + rt * ab(tb))

    def logical_and(self, a, b, out=None, **k):
        return self._logical(a, b, lambda x, y: z3.And(x, y), out, **k)

    def logical_or(self, a, b, out=None, **k):
        return self._logical(a, b, lambda x, y: z3.Or(x, y), out, **k)

    def isin(self, arr, test, invert=False, assume_unique=False, **k):
        if not isinstance(arr, VArr):
            raise Unsupported("np.isin on non-array")
        if k:
            raise Unsupported("np.isin options")
        if isinstance(assume_unique, Sym):
            raise Unsupported("symbolic assume_unique flag")
        if assume_unique:
            # numpy: "If True, the input arrays are both assumed to be unique"; an array of voxel labels has repeated values, and on
            # the sort-based code path the result is then wrong -- the call's precondition is not met and its result is unspecified
            cur().oblige("np.isin(assume_unique=True) precondition: both inputs have no repeated element (a label array has)", z3.BoolVal(False), structural=True)
            cur().fresh_n += 1
            unspec = z3.Function(f"isin_unspecified!{cur().fresh_n}", Vox, B_)
            return arr.new(unspec(arr.space.x), "bool")
        t = arr.term
        if z3.is_bool(t):
            t = z3.If(t, z3.IntVal(1), z3.IntVal(0))
        if isinstance(test, SetArr):
            test = test.sset
        if isinstance(test, SmallArr):
            test = list(test.items)
        if isinstance(test, SymSet):
            m = test.member(t)
        elif isinstance(test, (list, tuple, set)):
            items = [to_term(x) for x in test]
            m = z3.Or(*[t == x for x in items]) if items else z3.BoolVal(False)
        elif isinstance(test, (int, Sym)):
            m = t == to_term(test)
        else:
            raise Unsupported(f"np.isin with {type(test).__name__}")
        if isinstance(invert, Sym):
            raise Unsupported("symbolic invert flag")
        return arr.new(z3.Not(m) if invert else m, "bool")

    def sum(self, v, *a, **k):
        if isinstance(v, VArr):
            return v.sum(*a, **k)
        return _agg_list(self, "sum", v, a, k)

    def unique(self, v, **k):
        if k:
            raise Unsupported("np.unique with options")
        return np_unique(self.eng, v)

    def atleast_1d(self, v, *more):
        if more:
            raise Unsupported("np.atleast_1d of several arguments")
        if isinstance(v, (VArr, SmallArr, SetArr)):
            return v
        if isinstance(v, (int, SymInt)) and not isinstance(v, bool):
            return self.array([v])
        return self.array(v)

    def asarray(self, v, dtype=None, **k):
        if isinstance(v, VArr):
            return v.astype(dtype) if dtype is not None and _dtype_name(dtype) != v.dtype_name else v  # no copy when nothing changes
        return self.array(v, dtype, **k)

    def array(self, v, dtype=None, **k):
        from .builtins_model import MapView
        if isinstance(v, VArr):
            return v.astype(dtype) if dtype is not None else v.copy()
        dt = _dtype_name(dtype) if dtype is not None else None
        if isinstance(v, (list, tuple)) and len(v) <= 16 and all(isinstance(x, (int, SymInt)) and not isinstance(x, bool) for x in v):
            arr = SmallArr([x if isinstance(x, Sym) else wrap(z3.IntVal(x), True, "int64") for x in v], "int64")
            return arr.astype(dt) if dt else arr
        if isinstance(v, SymSet) and getattr(v, "of_map", None) is None:
            arr = SetArr(v, "int64")
            return arr.astype(dt) if dt else arr
        if isinstance(v, SymSet) and getattr(v, "of_map", None) is not None and dt:
            return ParArr(v.of_map[0], v.of_map[1], dt)
        if isinstance(v, MapView) and dt and v.kind in ("keys", "values"):
            return ParArr(v.m, v.kind, dt)
        raise Unsupported(f"np.array of {type(v).__name__}")

    def arange(self, n, dtype=None):
        dt = _dtype_name(dtype) if dtype is not None else "int64"
        nt = to_term(n)
        if z3.is_real(nt):
            nt = z3.ToInt(nt)
        return TArr(nt, (lambda t, dt=dt: _cast_term(t, "int64", dt)), dt)

    def min_scalar_type(self, v):
        eng = self.eng
        vv = wrap(to_term(v) if not z3.is_real(to_term(v)) else z3.ToInt(to_term(v)))
        if eng.truth(vv < 0):
            for dt in _IORD:
                if eng.truth(vv >= dtype_range(dt)[0]):
                    return DType(dt)
            return DType("float64")
        for dt in _UORD:
            if eng.truth(vv <= dtype_range(dt)[1]):
                return DType(dt)
        return DType("float64")

    def promote_types(self, a, b):
        return DType(_array_array_dtype(_dtype_name(a), _dtype_name(b)))

    def result_type(self, a, b):
        return DType(_array_array_dtype(_dtype_name(a), _dtype_name(b)))

    def iinfo(self, d):
        r = dtype_range(_dtype_name(d))
        return type("iinfo", (), {"min": r[0], "max": r[1]})()

    def ones_like(self, a, dtype=None):
        if not isinstance(a, VArr):
            raise Unsupported("ones_like of non-array")
        dt = _dtype_name(dtype) if dtype is not None else a.dtype_name
        one = z3.BoolVal(True) if dt == "bool" else (z3.RealVal(1) if dt.startswith("float") else z3.IntVal(1))
        return VArr(one, dt, a.space)

    def zeros_like(self, a, dtype=None):
        dt = _dtype_name(dtype) if dtype is not None else a.dtype_name
        zero = z3.BoolVal(False) if dt == "bool" else (z3.RealVal(0) if dt.startswith("float") else z3.IntVal(0))
        return VArr(zero, dt, a.space)

    def logical_not(self, a):
        return a.logical_not()

    def _minmax(self, a, b, is_max):
        if not isinstance(a, VArr):
            a, b = b, a
        if not isinstance(a, VArr):
            raise Unsupported("np.maximum of non-arrays")
        if isinstance(b, VArr):
            _same_space(a, b)
            rd = _array_array_dtype(a.dtype_name, b.dtype_name)
            ta, tb = _num_terms(a.term, b.term)
        else:
            rd = _array_scalar_dtype(self.eng, a.dtype_name, b)
            ta, tb = _num_terms(a.term, to_term(b))
        return VArr(z3.simplify(z3.If((ta >= tb) if is_max else (ta <= tb), ta, tb)), rd, a.space)

    def maximum(self, a, b):
        return self._minmax(a, b, True)

    def minimum(self, a, b):
        return self._minmax(a, b, False)

    def where(self, c, a=None, b=None):
        if a is None and isinstance(c, Proj):
            return (IdxSeq(c),)
        if a is None or not isinstance(c, VArr):
            raise Unsupported("np.where in index form")
        ta = a.term if isinstance(a, VArr) else to_term(a)
        tb = b.term if isinstance(b, VArr) else to_term(b)
        ta, tb = _num_terms(ta, tb)
        if isinstance(a, VArr) and isinstance(b, VArr):
            dt = _array_array_dtype(a.dtype_name, b.dtype_name)
            ta, tb = _cast_term(a.term, a.dtype_name, dt), _cast_term(b.term, b.dtype_name, dt)
            ta, tb = _num_terms(ta, tb)
        elif isinstance(a, VArr) or isinstance(b, VArr):
            arr, sc = (a, b) if isinstance(a, VArr) else (b, a)
            dt = _array_scalar_dtype(cur(), arr.dtype_name, sc)
            ta = _cast_term(ta, arr.dtype_name if isinstance(a, VArr) else dt, dt) if isinstance(a, VArr) else ta
            tb = _cast_term(tb, arr.dtype_name if isinstance(b, VArr) else dt, dt) if isinstance(b, VArr) else tb
            ta, tb = _num_terms(ta, tb)
        else:
            dt = "int64"
        return VArr(z3.simplify(z3.If(c.nonzero_term(), ta, tb)), dt, c.space)

    def _shape_space(self, shape):
        """arrays created with the same concrete shape live in the same index space"""
        key = tuple(shape) if isinstance(shape, (tuple, list)) else (shape,)
        if any(isinstance(d, Sym) for d in key):
            return Space(ndim=len(key))
        cache = self.__dict__.setdefault("_spaces", {})
        if key not in cache:
            cache[key] = Space(name="shape" + "x".join(str(d) for d in key), ndim=len(key))
        return cache[key]

    def ones(self, shape, dtype=None):
        if isinstance(shape, int) and shape <= 4:
            dt = _dtype_name(dtype) if dtype is not None else "float64"
            return SmallArr([np_scalar(1, dt) for _ in range(shape)], dt)
        sp = self._shape_space(shape)
        dt = _dtype_name(dtype) if dtype is not None else "float64"
        n = 1
        for d in (shape if isinstance(shape, tuple) else (shape,)):
            n = n * d
        self.eng.assume(wrap(sp.size == to_term(n)))
        return VArr(z3.RealVal(1) if dt.startswith("float") else z3.IntVal(1), dt, sp)

    def zeros(self, shape, dtype=None):
        sp = self._shape_space(shape)
        dt = _dtype_name(dtype) if dtype is not None else "float64"
        return VArr(z3.RealVal(0) if dt.startswith("float") else z3.IntVal(0), dt, sp)


def _agg_list(self, name, v, a, k):
    eng = self.eng
    if isinstance(v, (list, tuple)) and len(v) == 0:
        if name in ("min", "max"):
            raise PyRaise(PyExc(ValueError, ("zero-size array to reduction operation",)))
        if name == "sum":
            return np_scalar(0, "float64")
        eng.event("np-empty-mean")
        return float("nan")
    fn = name
    if name == "std":
        ddof = k.get("ddof", 0)
        if ddof == 0:
            fn = "pstd"
        elif ddof == 1:
            fn = "sstd"
        else:
            raise Unsupported("np.std ddof")
    elif k or a:
        if not (name in ("average", "mean") and not a and set(k) <= {"axis"} and k.get("axis") is None):
            raise Unsupported(f"np.{name} with extra arguments")
    if name == "mean":
        fn = "average"
    arr, n = seq_array(eng, v)
    if isinstance(v, (SymSeq, SymList)):
        if not eng.truth(wrap(n > 0)):
            if name in ("min", "max"):
                raise PyRaise(PyExc(ValueError, ("zero-size array to reduction operation",)))
            if name == "sum":
                return np_scalar(0, "float64")
            eng.event("np-empty-mean")
            return float("nan")
    return SymReal(AGG[fn](arr, n), True, "float64")


def _mk_agg(name):
    def f(self, v, *a, **k):
        if isinstance(v, VArr):
            return getattr(v, name)(*a, **k)
        if name in ("min", "max") and not a and not k:
            if isinstance(v, (Sym, int, float)) and not isinstance(v, bool):
                return v  # reduction of a scalar
            if isinstance(v, SymSeq) and isinstance(v.template, Sym) and not z3.is_real(v.template.term):
                return self.eng.seq_extreme(v, name == "max")
            if isinstance(v, (list, tuple)) and v and all(isinstance(x, (Sym, int)) for x in v):
                return self.eng.builtins[name](list(v))
        return _agg_list(self, name, v, a, k)
    return f


for _nm in ("average", "std", "min", "max", "mean"):
    setattr(NpModule, _nm, _mk_agg(_nm))


def np_unique(eng, v):
    """np.unique: the strictly increasing sequence of the attained values (trusted contract)."""
    if isinstance(v, VSel):
        arr, cond = v.arr, v.cond
    elif isinstance(v, VArr):
        arr, cond = v, z3.BoolVal(True)
    else:
        raise Unsupported("np.unique of a non-array")
    sp = arr.space
    tt = arr.term
    if z3.is_bool(tt):
        tt = z3.If(tt, z3.IntVal(1), z3.IntVal(0))
    srt = tt.sort()
    eng.fresh_n += 1
    k = eng.fresh_n
    u = z3.Function(f"uniq!{k}", I_, srt)
    wit = z3.Function(f"uniq_wit!{k}", I_, Vox)
    idx = z3.Function(f"uniq_idx!{k}", srt, I_)
    n = z3.Int(f"uniq_n!{k}")
    i, j = z3.Int(f"ui!{k}"), z3.Int(f"uj!{k}")
    v_ = z3.Const(f"uv!{k}", Vox)
    at = lambda t, q: z3.substitute(t, (sp.x, q))
    eng.assume(z3.And(
        n >= 0,
        z3.ForAll([i, j], z3.Implies(z3.And(0 <= i, i < j, j < n), u(i) < u(j)), patterns=[z3.MultiPattern(u(i), u(j))]),
        z3.ForAll([i], z3.Implies(z3.And(0 <= i, i < n), z3.And(at(cond, wit(i)), at(tt, wit(i)) == u(i))), patterns=[u(i)]),
        z3.ForAll([v_], z3.Implies(at(cond, v_), z3.And(0 <= idx(at(tt, v_)), idx(at(tt, v_)) < n, u(idx(at(tt, v_))) == at(tt, v_)))),
    ), why="np.unique")
    if srt == I_:
        # consequence of "strictly increasing integers" (induction): u(i) >= u(0) + i
        eng.assume(z3.And(z3.ForAll([i], z3.Implies(z3.And(0 <= i, i < n), u(i) >= u(0) + i), patterns=[u(i)]),
                          z3.Implies(n >= 1, u(n - 1) >= u(0) + n - 1)), why="np.unique (spacing of distinct integers)")
    out = SymSeq(wrap(n), lambda q: wrap(u(q), True, arr.dtype_name), name=f"unique!{k}")
    out.unique_of = (arr, cond, u, wit, idx, n)
    return out


class _NDArrayType:
    def pyvc_isinstance(self, v):
        return isinstance(v, VArr)


_SKEL = {}


def _skeleton_model(kind):
    """skimage skeletonize / skeletonize_3d: an uninterpreted function of the input mask (assumed: skimage)."""
    def f(arr, *a, **k):
        if not isinstance(arr, VArr):
            raise Unsupported("skeletonize of non-array")
        key = (kind, arr.space.name, arr.nonzero_term().sexpr())
        if key not in _SKEL:
            _SKEL[key] = z3.Function(f"{kind}!{len(_SKEL)}", Vox, B_)
        cur().event("skeleton", kind)
        sk = _SKEL[key](arr.space.x)
        if kind == "skeletonize":
            out = VArr(sk, "bool", arr.space)  # skimage 0.22: 2-D skeleton is a bool array
        elif arr.dtype_name == "bool":
            out = VArr(z3.If(sk, z3.IntVal(255), z3.IntVal(0)), "uint8", arr.space)  # 3-D skeleton of a bool mask: uint8 0/255 (observed)
        else:
            out = VArr(z3.If(sk, z3.IntVal(1), z3.IntVal(0)), "uint8", arr.space)  # 3-D skeleton of a 0/1 integer mask: uint8 0/1 (observed)
        out.skeleton_of = (kind, arr)
        return out
    return f


class CCModel:
    """cc3d.connected_components / scipy.ndimage.label: uninterpreted labelling with the assumed contract
    (foreground preserved, labels 1..N all attained); the connectivity semantics itself is assumed (C05)."""
    calls = []

    def __init__(self, eng):
        self.eng = eng
        self.n = 0

    def _label(self, backend, arr):
        eng = self.eng
        if not isinstance(arr, VArr):
            raise Unsupported("connected components of non-array")
        self.n += 1
        k = self.n
        cc = z3.Function(f"cc_{backend}!{k}", Vox, I_)
        N = z3.Int(f"ccN_{backend}!{k}")
        v = z3.Const(f"ccv!{k}", Vox)
        j = z3.Int(f"ccj!{k}")
        wit = z3.Function(f"ccwit_{backend}!{k}", I_, Vox)
        def inp_nz(q):
            t = arr.at(q)
            return t if z3.is_bool(t) else (t != 0)  # a boolean mask is foreground where it is True
        eng.assume(z3.And(N >= 0,
                          z3.ForAll([v], z3.And((cc(v) != 0) == inp_nz(v), cc(v) >= 0, cc(v) <= N), patterns=[cc(v)]),
                          z3.ForAll([j], z3.Implies(z3.And(1 <= j, j <= N), cc(wit(j)) == j), patterns=[wit(j)])),
                   why=f"assumed contract of the {backend} connected-components backend")
        out = VArr(cc(arr.space.x), "uint32" if backend == "cc3d" else "int32", arr.space)
        rec = {"backend": backend, "input": arr, "input_term": arr.term, "input_dtype": arr.dtype_name, "out": out, "N": N}
        eng.event("cc-call", backend, k)
        eng.__dict__.setdefault("cc_calls", []).append(rec)
        return out, SymInt(N)

    def connected_components(self, arr, return_N=False, **k):
        if k:
            raise Unsupported("cc3d options (connectivity etc.)")
        out, N = self._label("cc3d", arr)
        return (out, N) if return_N else out

    def label(self, arr, structure=None, **k):
        if structure is not None or k:
            raise Unsupported("scipy.ndimage.label with a structure")
        return self._label("scipy", arr)


def install(eng):
    np = NpModule(eng)
    ccm = CCModel(eng)
    eng.models["cc3d"] = ccm
    eng.models["scipy.ndimage.label!obj"] = ccm.label
    eng.models["numpy"] = np
    eng.np = np
    eng.models["skimage.morphology.skeletonize!obj"] = _skeleton_model("skeletonize")
    eng.models["skimage.morphology.skeletonize_3d!obj"] = _skeleton_model("skeletonize_3d")
    return np
