"""MANIFEST.setup_cmd: nothing is built or fetched; verify the two
interpreters, z3 and cvc5 are usable, /repo parses, and the interpreter agrees with CPython on pyvc/corpus (concrete and symbolic)."""
import subprocess, sys, os
def main():
    import z3
    s = z3.Solver(); x = z3.Int("x"); s.add(x > 1, x < 1)
    assert s.check() == z3.unsat
    out = subprocess.run(["/usr/bin/cvc5", "--version"], capture_output=True, text=True).stdout
    assert "cvc5" in out
    r = subprocess.run(["/venv/bin/python", "-c", "import panoptica, numpy; print(numpy.__version__)"], capture_output=True, text=True,
                       env=dict(os.environ, PANOPTICA_CITATION_REMINDER="false"))
    assert r.returncode == 0, r.stderr
    from pyvc.engine import Engine
    e = Engine(); e.load_module("panoptica")
    from pyvc import difftest
    d = difftest.main()
    for b in d["mismatches"][:20]:
        print("  ENGINE/CPYTHON MISMATCH", b)
    assert not d["mismatches"], "the interpreter disagrees with CPython on the differential corpus"
    from pyvc import npdiff
    nd = npdiff.main()
    for b in nd["mismatches"][:20]:
        print("  NUMPY-MODEL MISMATCH", b)
    assert not nd["mismatches"], "the numpy model disagrees with numpy 1.26.4 on the differential corpus"
    print("selftest ok: z3", z3.get_version_string(), "| numpy", r.stdout.strip().splitlines()[-1], "| modules", len(e.modules),
          f"| engine-vs-CPython differential: {d['concrete_cases']} concrete cases, {d['symbolic_points']} symbolic grid points, 0 mismatches",
          f"| numpy-model differential: {nd['cases']} snippet x dtype-pair cases, 0 mismatches, not modelled: {sorted(nd['unsupported'])}")
main()
