"""Check driver: builds the obligations of one property from /repo's working
tree, discharges them, replays counter-models on the real code, runs the
bounded stand-ins, matches known findings, writes evidence, sets exit code."""
from __future__ import annotations
import os, re, sys, json, time, subprocess, hashlib, traceback, importlib
import z3
from .engine import Engine
from .values import Unsupported
from .solve import Obligation, discharge

VERIF = os.path.dirname(os.path.dirname(os.path.abspath(__file__)))
REPO = os.environ.get("PYVC_REPO", "/repo")
VENV_PY = os.environ.get("PYVC_VENV_PY", "/venv/bin/python")

ASSUMPTIONS = [
    "A-INT: Python int is mathematical; numpy integers are machine integers with numpy 1.26.4 promotion (trusted table pyvc/npmodel.py, conformance-tested bounded)",
    "A-FP: float/np.float64 arithmetic is treated as real arithmetic (replays compare with tolerance 1e-9)",
    "A-DIV: // and % are floor division/modulo",
    "A-ORD: dict preserves insertion order; sorted is a stable sort",
    "A-EXC: exceptions are an extra path outcome; assert failure raises AssertionError (no -O)",
    "extraction drops: docstrings, type annotations, print(...) calls (no-ops); generators are evaluated eagerly",
    "_Enum_Compare.__eq__/__hash__ modelled as identity of the member within its enum class",
    "A-SIZE: arrays have at most 2^40 elements (sums of masks do not overflow int64)",
]


class Ctx:
    def __init__(self, prop, tier, seed):
        self.prop = prop
        self.tier = tier
        self.seed = seed
        self.obls = []
        self.undecided = []  # (unit, reason)
        self.trusted = []
        self.assumptions = list(ASSUMPTIONS)
        self.functions = {}  # qualname -> source hash
        self.bounded = []  # (name, kind, params)
        self.units = []
        self.expectations = []  # (desc, ok)
        self._names = set()
        self._seen = {}
        self.engines = []
        self.replayers = {}
        self.notes = []
        self._pending_units = []
        self.assume_whys = {}  # reason -> number of times an `assume` with that reason entered a path condition (mechanical scan)

    # engines -----------------------------------------------------------
    def engine(self, **kw):
        kw.setdefault("feas_timeout_ms", 400)
        e = Engine(repo=REPO, **kw)
        self.engines.append(e)
        return e

    def trust(self, *items):
        for it in items:
            if it not in self.trusted:
                self.trusted.append(it)

    def assume_note(self, s):
        if s not in self.assumptions:
            self.assumptions.append(s)

    # obligations -------------------------------------------------------
    def oblige(self, name, hyps, goal, func=None, kind="post", replay=None, info=None, expect="valid"):
        full = f"{self.prop}/{name}"
        from .npmodel import used_cards, venn_axioms
        hyps = list(hyps)
        cards = used_cards(hyps + [goal])
        info = dict(info or {})
        if cards:
            vax = venn_axioms(cards)
            hyps += vax
            # for replay: region sizes and the base-array values at each region's witness voxel
            regs = _venn_regions(vax)
            fns = _vox_functions(hyps + [goal])
            ev = dict(info.get("evals") or {})
            preds = _int_predicates(hyps + [goal])
            for rn, wn in regs:
                ev[rn] = rn
                for fnm in fns:
                    ev[f"{fnm}@{wn}"] = f"({fnm} {wn})"
                    for pn in preds:
                        ev[f"{pn}({fnm})@{wn}"] = f"({pn} ({fnm} {wn}))"
            info["evals"] = ev
            info["venn_regions"] = regs
            info["vox_functions"] = fns
        o = Obligation(full, hyps, goal, prop=self.prop, func=func, kind=kind, info=info, replay=replay, expect=expect)
        o.smt2 = o.to_smt2()
        h = hashlib.sha256(o.smt2.encode()).hexdigest()
        key = (full.rsplit("#", 1)[0], h)
        if key in self._seen:
            return self._seen[key]
        if full in self._names:
            i = 2
            while f"{full}~{i}" in self._names:
                i += 1
            o.name = f"{full}~{i}"
        self._names.add(o.name)
        self._seen[key] = o
        self.obls.append(o)
        return o

    def canary(self, name, hyps, func=None):
        """Vacuity guard: the hypotheses must be satisfiable (False must NOT be
        provable from them)."""
        return self.oblige(name + ".canary", hyps, z3.BoolVal(False), func=func, kind="canary", expect="refutable")

    def side_obligations(self, paths, prefix, func=None, replay=None, skip=lambda nm: False, info=None):
        for pi, p in enumerate(paths):
            for (nm, pc, f, inf) in p.side:
                if skip(nm):
                    continue
                i2 = dict(info or {})
                i2.update({k: str(v) for k, v in inf.items()})
                self.oblige(f"{prefix}/{nm}#p{pi}", pc, f, func=func, kind="side", replay=replay, info=i2)

    def expect(self, desc, ok):
        self.expectations.append((desc, bool(ok)))

    def unit(self, name, fn):
        """Register one proof unit (run later, in parallel, by run_units)."""
        self._pending_units.append((name, fn))

    def _run_unit_here(self, name, fn):
        """Run one proof unit; Unsupported => undecided (never a violation)."""
        t0 = time.time()
        n0 = len(self.obls)
        try:
            fn()
            self.units.append({"unit": name, "status": "generated", "obligations": len(self.obls) - n0, "gen_s": round(time.time() - t0, 3)})
        except Unsupported as ex:
            del self.obls[n0:]
            self.undecided.append((name, f"engine: {ex}"))
            self.units.append({"unit": name, "status": "undecided", "reason": str(ex)})
        except Exception as ex:  # engine defect: undecided, reported loudly
            del self.obls[n0:]
            tb = traceback.format_exc()
            self.undecided.append((name, f"engine error: {type(ex).__name__}: {ex}"))
            self.units.append({"unit": name, "status": "undecided", "reason": f"{type(ex).__name__}: {ex}", "traceback": tb[-1500:]})

    def _child(self, idx):
        name, fn = self._pending_units[idx]
        self.obls, self.units, self.undecided, self.expectations = [], [], [], []
        self.engines, self.notes = [], []
        self._names, self._seen = set(), {}
        nt, na = len(self.trusted), len(self.assumptions)
        self._run_unit_here(name, fn)
        self.collect_functions()
        return {
            "obls": [{"name": o.name, "smt2": o.smt2, "func": o.func, "kind": o.kind, "info": o.info, "replay": o.replay, "expect": o.expect} for o in self.obls],
            "units": self.units, "undecided": self.undecided, "expectations": self.expectations,
            "functions": self.functions, "trusted": self.trusted[nt:], "assumptions": self.assumptions[na:], "notes": self.notes,
            "assume_whys": self._assume_whys(),
        }

    def _assume_whys(self):
        out = {}
        for e in self.engines:
            for w, n in getattr(e, "assume_whys", {}).items():
                out[w] = out.get(w, 0) + n
        return out

    def run_units(self, procs=16):
        import multiprocessing as mp
        global _CTX
        _CTX = self
        n = len(self._pending_units)
        if n == 0:
            return
        limit = 150 if self.tier == "quick" else 1200  # seconds per unit; beyond that the unit is undecided
        if os.environ.get("PYVC_SERIAL"):
            results = [_child_entry(i) for i in range(n)]
        else:
            pool = mp.get_context("fork").Pool(min(procs, n), maxtasksperchild=1)  # one fresh process per unit: no verifier-side global state (fresh-name counters, Venn caches) leaks between units
            try:
                asyncs = [pool.apply_async(_child_entry, (i,)) for i in range(n)]
                results = []
                t_start = time.time()
                for i, a_ in enumerate(asyncs):
                    # the first `procs` units start at once: one common deadline; later ones get a fresh budget
                    remaining = (t_start + limit - time.time()) if i < procs else limit
                    try:
                        results.append(a_.get(timeout=max(remaining, 2.0)))
                    except mp.TimeoutError:
                        nm = self._pending_units[i][0]
                        results.append({"obls": [], "units": [{"unit": nm, "status": "undecided", "reason": f"obligation generation exceeded {limit}s"}],
                                        "undecided": [(nm, f"engine: obligation generation exceeded {limit}s (path explosion?)")], "expectations": [],
                                        "functions": {}, "trusted": [], "assumptions": [], "notes": [], "assume_whys": {}})
            finally:
                pool.terminate()
                pool.join()
        obls, units, und, exps, funcs = [], [], [], [], {}
        for r in results:
            for d in r["obls"]:
                o = Obligation(d["name"], [], None, prop=self.prop, func=d["func"], kind=d["kind"], info=d["info"], replay=d["replay"], expect=d["expect"])
                o.smt2 = d["smt2"]
                nm = o.name
                i = 2
                while o.name in {x.name for x in obls}:
                    o.name = f"{nm}~{i}"
                    i += 1
                obls.append(o)
            units += r["units"]
            und += [tuple(x) for x in r["undecided"]]
            exps += [tuple(x) for x in r["expectations"]]
            funcs.update(r["functions"])
            self.trust(*r["trusted"])
            for a_ in r["assumptions"]:
                self.assume_note(a_)
            self.notes += r["notes"]
            for w, n in (r.get("assume_whys") or {}).items():
                self.assume_whys[w] = self.assume_whys.get(w, 0) + n
        self.obls, self.units, self.undecided, self.expectations = obls, units, und, exps
        self.functions = funcs

    def add_bounded(self, name, kind, **params):
        self.bounded.append({"name": name, "kind": kind, "params": params})

    def collect_functions(self):
        for e in self.engines:
            self.functions.update(e.fn_hashes)


def _venn_regions(axioms):
    import re
    out, seen = [], set()
    for a in axioms:
        for m in re.finditer(r"region!([^ ()]+)", a.sexpr()):
            rn = "region!" + m.group(1)
            if rn not in seen:
                seen.add(rn)
                out.append((rn, "wit!" + m.group(1)))
    return out


def _int_predicates(exprs):
    names, seen = [], set()

    def walk(t):
        if t.get_id() in seen:
            return
        seen.add(t.get_id())
        if z3.is_app(t):
            d = t.decl()
            if d.arity() == 1 and d.kind() == z3.Z3_OP_UNINTERPRETED and d.domain(0) == z3.IntSort() and d.range() == z3.BoolSort() and d.name() not in names:
                names.append(d.name())
            for c in t.children():
                walk(c)
        elif z3.is_quantifier(t):
            walk(t.body())
    for e in exprs:
        walk(e)
    return names


def _vox_functions(exprs):
    names, seen = [], set()

    def walk(t):
        if t.get_id() in seen:
            return
        seen.add(t.get_id())
        if z3.is_app(t):
            d = t.decl()
            if d.arity() == 1 and d.kind() == z3.Z3_OP_UNINTERPRETED and d.domain(0).name() == "Vox" and d.name() not in names:
                names.append(d.name())
            for c in t.children():
                walk(c)
        elif z3.is_quantifier(t):
            walk(t.body())
    for e in exprs:
        walk(e)
    return names


_CTX = None


def _child_entry(idx):
    return _CTX._child(idx)


def run_replay(kind, payload, timeout=300):
    """Run a replay / bounded job on the real code under /venv/bin/python."""
    env = dict(os.environ)
    env["PANOPTICA_CITATION_REMINDER"] = "false"
    # a scratch copy of the repository (PYVC_REPO, used only to evaluate seeded changes) must also be what the replay imports
    env["PYTHONPATH"] = (REPO + os.pathsep if REPO != "/repo" else "") + VERIF + os.pathsep + env.get("PYTHONPATH", "")
    env.setdefault("PANOPTICA_VERIF", "1")
    p = subprocess.run(
        [VENV_PY, "-W", "ignore", "-m", "replay.run", kind],
        input=json.dumps(payload), capture_output=True, text=True, timeout=timeout, cwd=VERIF, env=env,
    )
    out = p.stdout.strip().splitlines()
    for line in reversed(out):
        if line.startswith("{"):
            try:
                return json.loads(line)
            except Exception:
                pass
    return {"error": True, "returncode": p.returncode, "stdout": p.stdout[-2000:], "stderr": p.stderr[-3000:]}


def load_known():
    p = os.path.join(VERIF, "known_findings.json")
    if not os.path.exists(p):
        return []
    return json.load(open(p)).get("findings", [])


def match_known(prop, witness_class, known):
    for k in known:
        if k.get("property") == prop and k.get("status") == "open" and k.get("witness_class") == witness_class:
            return k
    return None


def main(argv=None):
    argv = argv or sys.argv[1:]
    import argparse

    ap = argparse.ArgumentParser()
    ap.add_argument("prop")
    ap.add_argument("--tier", default=os.environ.get("VERIF_TIER", "quick"))
    ap.add_argument("--no-bounded", action="store_true")
    ap.add_argument("--list", action="store_true")
    ap.add_argument("--verbose", "-v", action="store_true")
    a = ap.parse_args(argv)
    tier = a.tier if a.tier in ("quick", "thorough") else "quick"
    seed = int(os.environ.get("VERIF_SEED", "0") or 0)
    t0 = time.time()
    prop = a.prop
    try:
        mod = importlib.import_module(f"props.{prop}")
    except ModuleNotFoundError:
        print(f"no check for {prop}")
        return 3
    ctx = Ctx(prop, tier, seed)
    mod.build(ctx)
    ctx.run_units()
    if a.list:
        for o in ctx.obls:
            print(o.name, o.kind, o.expect)
        return 0
    timeout_ms = 30000 if tier == "quick" else 180000
    tg = time.time()
    discharge(ctx.obls, timeout_ms=timeout_ms, seed=seed, both=False)
    solver_wall = time.time() - tg

    known = load_known()
    violations = []  # (replay path, suffix, text)
    known_lines = []
    n_valid = 0
    n_discharged = 0
    undecided = list(ctx.undecided)
    by_backend = {}
    solver_s = 0.0
    vac_fail = []
    evdir = os.environ.get("PYVC_EVIDENCE_DIR") or os.path.join(VERIF, "evidence")
    repdir = os.path.join(evdir, "replays")
    os.makedirs(repdir, exist_ok=True)
    sat_obls = []
    for o in ctx.obls:
        r = o.result or {"verdict": "unknown", "backend": "none", "time": 0}
        solver_s += r.get("time", 0)
        if o.expect == "refutable":
            if r["verdict"] == "unsat":
                vac_fail.append(o.name)
            continue
        n_valid += 1
        if r["verdict"] == "unsat":
            n_discharged += 1
            by_backend[r["backend"]] = by_backend.get(r["backend"], 0) + 1
            continue
        if r["verdict"] == "unknown":
            undecided.append((o.name, f"solver unknown: {r.get('reason')}"))
            continue
        sat_obls.append(o)

    # counter-models: concretise and replay on the real code (at most MAXR, in parallel;
    # one per function first).  Further refuted obligations are listed in the evidence.
    MAXR, MAXTOTAL = 10, 60
    seen_f, first, rest = set(), [], []
    for o in sat_obls:
        (first if o.func not in seen_f else rest).append(o)
        seen_f.add(o.func)
    queue = first + rest
    fn_conc = getattr(mod, "concretise", None)
    replay_cache = {}

    def do_replay(o):
        r = o.result
        payload, detail, verdict = None, None, None
        if fn_conc is not None and o.replay:
            try:
                payload = fn_conc(ctx, o, r)
            except Exception as ex:
                detail = f"concretiser failed: {ex}"
        if payload is not None:
            ck = (o.replay, json.dumps(payload, sort_keys=True, default=str))
            res = replay_cache.get(ck)
            if res is None:
                res = run_replay(o.replay, payload)
                replay_cache[ck] = res
            detail = res
            if res.get("error"):
                verdict = "replay-error"
            elif res.get("violated"):
                verdict = "confirmed"
            else:
                verdict = "spurious"
        return o, payload, detail, verdict

    from concurrent.futures import ThreadPoolExecutor
    done = 0
    # batches of MAXR: stop as soon as a batch yields a reportable violation; refuted obligations whose counter-models do not
    # replay are undecided, never violations (unless structural)
    while queue and done < MAXTOTAL and not violations and not known_lines:
        chosen, queue = queue[:MAXR], queue[MAXR:]
        done += len(chosen)
        not_replayed = [o.name for o in queue]
        with ThreadPoolExecutor(8) as tp:
            replayed = list(tp.map(do_replay, chosen))
        for o, payload, detail, verdict in replayed:
            r = o.result
            wclass = o.info.get("witness_class")
            if verdict == "confirmed" and isinstance(detail, dict):
                wclass = detail.get("witness_class", wclass)
            fname = os.path.join(repdir, f"{prop}_{hashlib.sha256(o.name.encode()).hexdigest()[:10]}.json")
            doc = {"property": prop, "obligation": o.name, "function": o.func, "kind": o.kind,
                   "solver": {k: v for k, v in r.items() if k != "model"}, "model": r.get("model"),
                   "evals": r.get("evals"), "replay_kind": o.replay, "replay_input": payload,
                   "replay_result": detail, "verdict": verdict or "no-failing-input-found",
                   "witness_class": wclass, "other_refuted_obligations_not_replayed": not_replayed}
            if r.get("weakened") and verdict != "confirmed":
                # candidate model of a weakened query: without a confirming replay it decides nothing
                undecided.append((o.name, "solver unknown; a candidate counter-model of the quantifier-free part did not replay on the real code"
                                  if verdict == "spurious" else "solver unknown; candidate counter-model of the quantifier-free part, no replay available"))
                json.dump(doc, open(fname, "w"), indent=1, default=str)
                continue
            if verdict == "spurious" and o.info.get("structural"):
                # the obligation is a structural fact of the code (lock held, frame, ordering): the refutation stands even though
                # the bounded replay could not turn it into a failing run
                verdict = None
                doc["verdict"] = "no-failing-input-found"
                doc["note"] = "structural obligation refuted; the replay harness found no failing run within its bound"
            if verdict == "spurious":
                undecided.append((o.name, "counter-model did not replay on the real code (abstraction imprecision)"))
                json.dump(doc, open(fname, "w"), indent=1, default=str)
                continue
            k = match_known(prop, wclass, known) if wclass else None
            if k is not None:
                known_lines.append(f"KNOWN-FINDING: property={prop} {k['what']} [{o.name}]")
                continue
            json.dump(doc, open(fname, "w"), indent=1, default=str)
            violations.append((fname, "" if verdict == "confirmed" else " no-failing-input-found", o.name))
    not_replayed = [o.name for o in queue]
    if queue and not violations and not known_lines:
        for o in queue:
            undecided.append((o.name, f"refuted by the solver; not replayed (the first {done} counter-models of this run did not replay on the real code)"))

    # bounded stand-ins / conformance (run on the real code) -------------
    bounded_results = []
    if not a.no_bounded:
        for b in ctx.bounded:
            params = dict(b["params"])
            params["tier"] = tier
            params["seed"] = seed
            tb = time.time()
            res = run_replay(b["kind"], params, timeout=1500 if tier == "thorough" else 400)
            res["name"] = b["name"]
            res["kind"] = b["kind"]
            res["wall_s"] = round(time.time() - tb, 2)
            bounded_results.append(res)
            if res.get("error"):
                undecided.append((b["name"], "bounded stand-in crashed: " + str(res.get("stderr", ""))[-400:]))
                continue
            for f in res.get("failures", []):
                wclass = f.get("witness_class")
                k = match_known(prop, wclass, known) if wclass else None
                if k is not None:
                    line = f"KNOWN-FINDING: property={prop} {k['what']} [{b['name']}]"
                    if line not in known_lines:
                        known_lines.append(line)
                    continue
                fname = os.path.join(repdir, f"{prop}_{b['name']}_{hashlib.sha256(json.dumps(f, sort_keys=True, default=str).encode()).hexdigest()[:8]}.json")
                json.dump({"property": prop, "bounded_check": b["name"], "replay_kind": f.get("replay_kind", b["kind"]), "replay_input": f.get("input"), "failure": f, "witness_class": wclass}, open(fname, "w"), indent=1, default=str)
                violations.append((fname, "", b["name"]))
                if len(violations) > 5:
                    break

    exp_fail = [d for d, ok in ctx.expectations if not ok]
    for d in exp_fail:
        undecided.append(("expectation", d))
    # A canary is attached to one explored path.  Path enumeration keeps a path when its feasibility check times out, so under load an
    # infeasible path can be explored; its canary is then (correctly) unsat, which only says that this path has no executions.  The
    # vacuity failure that matters is a unit ALL of whose canaries are unsat: then nothing reachable was verified.
    groups = {}
    for o in ctx.obls:
        if o.expect == "refutable":
            key = re.sub(r"#p\d+", "", o.name)
            groups.setdefault(key, []).append(o.name)
    infeasible_paths = []
    for key, names in groups.items():
        failed = [nm for nm in names if nm in vac_fail]
        if failed and len(failed) == len(names):
            for nm in failed:
                undecided.append((nm, "vacuity guard failed: hypotheses are contradictory"))
        else:
            infeasible_paths += failed
    vac_fail = [v for v in vac_fail if v not in infeasible_paths]

    wall = time.time() - t0
    level = getattr(mod, "LEVEL", "proof")
    samples = []
    for o in ctx.obls[:: max(1, len(ctx.obls) // 8)][:8]:
        samples.append({"obligation": o.name, "function": o.func, "kind": o.kind, "smt2_bytes": len(o.smt2 or ""),
                        "verdict": (o.result or {}).get("verdict"), "backend": (o.result or {}).get("backend"),
                        "time_s": round((o.result or {}).get("time", 0), 3)})
    cov = {
        "obligations": n_valid,
        "discharged": n_discharged,
        "checker_cmd": f"./check {prop} --tier {tier}",
        "trusted_base": ctx.trusted,
        "by_backend": by_backend,
        "solver_cpu_s": round(solver_s, 2),
        "solver_wall_s": round(solver_wall, 2),
        "functions_under_contract": ctx.functions,
        "units": ctx.units,
        "undecided": [{"what": n, "why": w} for n, w in undecided],
        "assumed_in_path_conditions": [{"reason": w, "times": n} for w, n in sorted(ctx.assume_whys.items())],
        "vacuity_guards": {"canaries": sum(1 for o in ctx.obls if o.expect == "refutable"), "failed": vac_fail, "infeasible_paths_explored": infeasible_paths,
                           "expectations": [{"what": d, "ok": ok} for d, ok in ctx.expectations]},
        "bounded_standins": [{k: v for k, v in b.items() if k not in ("failures",)} for b in bounded_results],
        "known_findings_reported": known_lines,
        "refuted_obligations": [o.name for o in sat_obls],
        "samples": samples,
        "explanation": getattr(mod, "EXPLANATION", ""),
        "notes": ctx.notes,
    }
    # exploration-style counts from the bounded stand-ins (never counted as proved)
    ev = sum(int(b.get("evaluations", 0)) for b in bounded_results)
    dn = sum(int(b.get("distinct_nontrivial", 0)) for b in bounded_results)
    if ev:
        cov["evaluations"] = ev
        cov["distinct_nontrivial"] = dn
        cov["rule"] = "; ".join(str(b.get("rule")) for b in bounded_results if b.get("rule"))
    evd = {
        "property_id": prop, "tier": tier, "seed": seed, "level": level, "coverage": cov,
        "assumptions": ctx.assumptions, "wall_s": round(wall, 2), "violations": len(violations),
    }
    os.makedirs(evdir, exist_ok=True)
    json.dump(evd, open(os.path.join(evdir, f"{prop}.json"), "w"), indent=1, default=str)

    print(f"[{prop}] tier={tier} obligations={n_valid} discharged={n_discharged} undecided={len(undecided)} "
          f"canaries={cov['vacuity_guards']['canaries']} bounded={len(bounded_results)} wall={wall:.1f}s")
    for n, w in undecided:
        print(f"UNDECIDED {n}: {w}")
    for l in known_lines:
        print(l)
    for fname, suffix, nm in violations:
        print(f"VIOLATION property={prop} replay={fname}{suffix}")
    if violations:
        return 1
    if undecided:
        # undecided is not a violation; the bounded stand-ins above decided.
        print(f"[{prop}] NOTE: {len(undecided)} obligation(s) undecided - not counted as proved")
    return 0
