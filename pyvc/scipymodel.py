"""Assumed contracts of the scipy.ndimage surface used by metrics/assd.py (C07):
generate_binary_structure(d, 1) = centre + 2d face neighbours; binary_erosion(m, structure=s, iterations=1) with the default
border_value=0: x survives iff x and all its face neighbours are foreground, out-of-array counting as background;
euclidean_feature_transform(inp, None, ft): ft[:, x] = coordinates of a zero element of inp nearest to x."""
from __future__ import annotations
import z3
from .values import *
from .objects import *
from .interp import PyRaise
from .npmodel import VArr, VSel, Vox, Space, ShapeTok, DType, _dtype_name, I_, R_, B_, _cast_term

RSQRT = z3.Function("real_sqrt", R_, R_)
VMEAN = z3.Function("mean_over", z3.ArraySort(Vox, R_), z3.ArraySort(Vox, B_), R_)


def nbr(space, k, s):
    return z3.Function(f"nbr{k}{'p' if s > 0 else 'm'}_{space.name}", Vox, Vox)


def has_nbr(space, k, s, x):
    c = space.coord(k)(x)
    return z3.And(c + s >= 0, c + s < space.extent(k))


def dist2(space, x, y):
    return z3.Sum([(z3.ToReal(space.coord(k)(x)) - z3.ToReal(space.coord(k)(y))) * (z3.ToReal(space.coord(k)(x)) - z3.ToReal(space.coord(k)(y))) for k in range(space.ndim)])


class Footprint:
    def __init__(self, ndim, connectivity):
        self.ndim, self.connectivity = ndim, connectivity


class StackShape:
    def __init__(self, n, space):
        self.n, self.space = n, space


class StackArr:
    """an array of shape (d,) + shape: d component arrays over the same index space"""

    def __init__(self, comps, dtype):
        self.comps, self.dtype_name = comps, dtype

    @property
    def dtype(self):
        return DType(self.dtype_name)

    def __sub__(self, o):
        if isinstance(o, StackArr) and len(o.comps) == len(self.comps):
            return StackArr([a - b for a, b in zip(self.comps, o.comps)], self.dtype_name)
        raise Unsupported("stack arithmetic")

    def astype(self, dt, **k):
        return StackArr([c.astype(dt) for c in self.comps], _dtype_name(dt))

    def pyvc_iterate(self):
        return list(self.comps)  # iterating over the first axis yields the component arrays

    def pyvc_len(self):
        return len(self.comps)


def _install_shape_add():
    def radd(self, other):
        if isinstance(other, tuple) and len(other) == 1 and isinstance(other[0], int):
            return StackShape(other[0], self.space)
        return NotImplemented
    ShapeTok.__radd__ = radd


def install(eng):
    _install_shape_add()
    M = eng.models

    def generate_binary_structure(rank, connectivity):
        if isinstance(rank, Sym) or isinstance(connectivity, Sym):
            raise Unsupported("symbolic footprint")
        return Footprint(rank, connectivity)

    def binary_erosion(arr, structure=None, iterations=1, **k):
        if not isinstance(arr, VArr) or arr.dtype_name != "bool" or k or iterations != 1:
            raise Unsupported("binary_erosion outside the modelled call shape")
        sp = arr.space
        if not isinstance(sp.ndim, int) or not isinstance(structure, Footprint) or structure.ndim != sp.ndim:
            raise Unsupported("binary_erosion: dimension mismatch / symbolic dimension")
        if structure.connectivity != 1:
            raise Unsupported("binary_erosion with a structure other than the face neighbourhood")
        sp.declare_coords(eng)
        x = sp.x
        conj = [arr.term]
        for kk in range(sp.ndim):
            for s in (-1, 1):
                conj.append(z3.And(has_nbr(sp, kk, s, x), z3.substitute(arr.term, (x, nbr(sp, kk, s)(x)))))
        eng.event("erosion", arr.buf)
        return VArr(z3.And(*conj), "bool", sp)

    def euclidean_feature_transform(inp, sampling, ft):
        if not isinstance(inp, VArr) or sampling is not None or not isinstance(ft, StackArr):
            raise Unsupported("euclidean_feature_transform outside the modelled call shape")
        sp = inp.space
        sp.declare_coords(eng)
        eng.fresh_n += 1
        nz = z3.Function(f"nearest_zero!{eng.fresh_n}", Vox, Vox)
        v, y = z3.Const(f"ev!{eng.fresh_n}", Vox), z3.Const(f"ey!{eng.fresh_n}", Vox)
        isz = lambda q: z3.Not(z3.substitute(inp.nonzero_term(), (sp.x, q)))
        eng.assume(z3.ForAll([v], z3.And(isz(nz(v)), z3.ForAll([y], z3.Implies(isz(y), dist2(sp, v, nz(v)) <= dist2(sp, v, y))))),
                   why="assumed contract of scipy euclidean_feature_transform (nearest zero element)")
        for kk in range(sp.ndim):
            c = ft.comps[kk]
            c.term = sp.coord(kk)(nz(sp.x))
        eng.__dict__.setdefault("edt_calls", []).append({"input": inp, "nz": nz})
        eng.event("arr-write", ft.comps[0].buf, ft.comps[0].owner)
        return None

    M["scipy.ndimage.generate_binary_structure!obj"] = generate_binary_structure
    M["scipy.ndimage.binary_erosion!obj"] = binary_erosion
    M["scipy.ndimage._nd_image.euclidean_feature_transform!obj"] = euclidean_feature_transform
    M["scipy.ndimage._ni_support!obj"] = Opaque("scipy.ndimage._ni_support")

    np = eng.np
    NpModule = type(np)

    base_atleast_1d = NpModule.atleast_1d

    def atleast_1d(self, a, *more):
        # arrays (and the verifier-side array stand-ins of this model) are returned as they are; scalars and label collections
        # become 1-D label arrays through the numpy model (so that a later cast wraps as numpy's does)
        from .values import SymInt, SymSet
        if more or (isinstance(a, (int, SymInt, list, tuple, SymSet)) and not isinstance(a, bool)):
            return base_atleast_1d(self, a, *more)
        return a
    NpModule.atleast_1d = atleast_1d
    old_zeros = NpModule.zeros

    def zeros(self, shape, dtype=None):
        if isinstance(shape, StackShape):
            dt = _dtype_name(dtype) if dtype is not None else "float64"
            return StackArr([VArr(z3.IntVal(0), dt, shape.space) for _ in range(shape.n)], dt)
        return old_zeros(self, shape, dtype)
    NpModule.zeros = zeros

    def indices(self, shape, dtype=None):
        if not isinstance(shape, ShapeTok) or not isinstance(shape.space.ndim, int):
            raise Unsupported("np.indices of a non-array shape")
        sp = shape.space
        sp.declare_coords(self.eng)
        dt = _dtype_name(dtype) if dtype is not None else "int64"
        return StackArr([VArr(sp.coord(k)(sp.x), dt, sp) for k in range(sp.ndim)], dt)
    NpModule.indices = indices

    def multiply(self, a, b, out=None):
        if isinstance(a, StackArr) and isinstance(b, StackArr) and out is a and a is b:
            for c in a.comps:
                prod = c * c  # VArr arithmetic: numpy promotion and machine-integer wrap of the element type
                from .npmodel import INT_BITS, UINT_BITS
                if c.dtype_name in INT_BITS or c.dtype_name in UINT_BITS:
                    lo, hi = (-(2 ** (INT_BITS[c.dtype_name] - 1)), 2 ** (INT_BITS[c.dtype_name] - 1) - 1) if c.dtype_name in INT_BITS else (0, 2 ** UINT_BITS[c.dtype_name] - 1)
                    self.eng.oblige(f"no-overflow(np.multiply squares {c.dtype_name} elements in place)", z3.And(c.term * c.term >= lo, c.term * c.term <= hi), dtype=c.dtype_name)
                c.term = z3.simplify(_cast_term(prod.term, prod.dtype_name, c.dtype_name))
                self.eng.event("arr-write", c.buf, c.owner)
            return a
        raise Unsupported("np.multiply outside the modelled call shape")
    NpModule.multiply = multiply

    class _Add:
        def reduce(self_, a, axis=None):
            if isinstance(a, StackArr) and axis == 0:
                t = a.comps[0].term
                for c in a.comps[1:]:
                    t = t + c.term
                return VArr(z3.simplify(t), a.dtype_name, a.comps[0].space)
            raise Unsupported("np.add.reduce outside the modelled call shape")
    NpModule.add = _Add()

    def hypot(self, *args, **k):
        """np.hypot(x1, x2[, out]): element-wise sqrt(x1^2 + x2^2); a third positional argument is the OUTPUT buffer"""
        if k or not (2 <= len(args) <= 3):
            raise PyRaise(PyExc(TypeError, (f"hypot() takes from 2 to 3 positional arguments but {len(args)} were given",)))
        a, b = args[0], args[1]
        if not (isinstance(a, VArr) and isinstance(b, VArr)):
            raise Unsupported("np.hypot of non-arrays")
        ta = a.term if z3.is_real(a.term) else z3.ToReal(a.term)
        tb = b.term if z3.is_real(b.term) else z3.ToReal(b.term)
        res = VArr(RSQRT(z3.simplify(ta * ta + tb * tb)), "float64", a.space)
        if len(args) == 3:
            out = args[2]
            if not isinstance(out, VArr):
                raise Unsupported("np.hypot out= non-array")
            out.term = z3.simplify(_cast_term(res.term, "float64", out.dtype_name)) if out.dtype_name != "float64" else res.term
            self.eng.event("arr-write", out.buf, out.owner)
            return out
        return res
    NpModule.hypot = hypot

    def sqrt(self, a):
        if isinstance(a, VArr):
            t = a.term if z3.is_real(a.term) else z3.ToReal(a.term)
            return VArr(RSQRT(t), "float64", a.space)
        raise Unsupported("np.sqrt of a non-array")
    NpModule.sqrt = sqrt

    # mean of a selection dt[border]: an uninterpreted functional of (value function, selection set)
    def vsel_mean(self):
        arr, cond = self.arr, self.cond
        x = arr.space.x
        t = arr.term if z3.is_real(arr.term) else z3.ToReal(arr.term)
        r = SymReal(VMEAN(z3.Lambda([x], t), z3.Lambda([x], cond)), True, "float64")
        cur().__dict__.setdefault("vmeans", []).append({"value": arr, "cond": cond, "result": r})
        return r
    VSel.mean = vsel_mean

    old_mean = NpModule.mean

    def mean(self, v, *a, **k):
        if isinstance(v, tuple) and v and all(isinstance(x, (Sym, int, float)) for x in v) and not a and not k:
            tot = v[0]
            for x in v[1:]:
                tot = tot + x
            return tot / len(v)
        return old_mean(self, v, *a, **k)
    NpModule.mean = mean
