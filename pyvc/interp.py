"""AST interpreter (statements and expressions) of the pyvc engine."""
from __future__ import annotations
import ast, operator
import z3
from .values import *
from .objects import *


class _Return(Exception):
    def __init__(self, value):
        self.value = value


class _Break(Exception):
    pass


class _Continue(Exception):
    pass


class PathEnd(Exception):
    """The current path ends here (e.g. after the 'arbitrary iteration' of a
    loop verified by invariant)."""

    def __init__(self, why="end"):
        self.why = why


class PyRaise(Exception):
    def __init__(self, exc):
        self.exc = exc

    def __str__(self):
        return f"PyRaise({self.exc.name()}: {self.exc.args})"


class SuperProxy:
    def __init__(self, cls, obj):
        self.cls = cls
        self.obj = obj


class LoopSpec:
    """Invariant-based treatment of `for x in <symbolic collection>`.

    havoc(engine, scope): replace everything the loop may modify by fresh
        symbolic values (must be deterministic in naming).
    inv(engine, scope, k): list[(name, z3 Bool)] - invariant after k iterations.
    elem(engine, scope, k): optional override for the k-th element.
    """

    def __init__(self, inv, havoc, length=None, elem=None, axioms=None):
        self.inv = inv
        self.havoc = havoc
        self.length = length
        self.elem = elem
        self.axioms = axioms  # ghost definitions (well-founded recursion), assumed


_BINOPS = {
    ast.Add: operator.add,
    ast.Sub: operator.sub,
    ast.Mult: operator.mul,
    ast.Div: operator.truediv,
    ast.FloorDiv: operator.floordiv,
    ast.Mod: operator.mod,
    ast.Pow: operator.pow,
    ast.BitAnd: operator.and_,
    ast.BitOr: operator.or_,
    ast.BitXor: operator.xor,
    ast.LShift: operator.lshift,
    ast.RShift: operator.rshift,
    ast.MatMult: operator.matmul,
}


def _has_yield(node):
    for ch in ast.iter_child_nodes(node):
        if isinstance(ch, (ast.FunctionDef, ast.Lambda, ast.ClassDef, ast.AsyncFunctionDef)):
            continue
        if isinstance(ch, (ast.Yield, ast.YieldFrom)):
            return True
        if _has_yield(ch):
            return True
    return False


class InterpMixin:
    # ------------------------------------------------------------ statements
    def exec_block(self, body, scope):
        for st in body:
            self.exec_stmt(st, scope)

    def exec_stmt(self, st, scope):
        m = getattr(self, "st_" + type(st).__name__, None)
        if m is None:
            raise Unsupported(f"statement {type(st).__name__} (line {st.lineno})")
        return m(st, scope)

    def st_Pass(self, st, scope):
        pass

    def st_Expr(self, st, scope):
        v = st.value
        if isinstance(v, ast.Constant):
            return  # docstring
        if isinstance(v, (ast.Yield, ast.YieldFrom)):
            ys = self._find_yields(scope)
            if isinstance(v, ast.Yield):
                ys.append(self.eval(v.value, scope) if v.value else None)
            else:
                ys.extend(self.iterate(self.eval(v.value, scope)))
            return
        self.eval(v, scope)

    def _find_yields(self, scope):
        s = scope
        while s is not None:
            if "__yields__" in s.vars:
                return s.vars["__yields__"]
            s = s.parent
        raise Unsupported("yield outside generator")

    def st_Return(self, st, scope):
        raise _Return(self.eval(st.value, scope) if st.value is not None else None)

    def st_Break(self, st, scope):
        raise _Break()

    def st_Continue(self, st, scope):
        raise _Continue()

    def st_Global(self, st, scope):
        scope.globals_decl.update(st.names)

    def st_Nonlocal(self, st, scope):
        scope.__dict__.setdefault("nonlocal_decl", set()).update(st.names)

    def st_Import(self, st, scope):
        for a in st.names:
            name = a.name
            top = name.split(".")[0]
            if a.asname:
                self.store_name(scope, a.asname, self.import_obj(name))
            else:
                self.store_name(scope, top, self.import_obj(top))

    def import_obj(self, name):
        m = self.load_module(name)
        if m is not None:
            return m
        if name in self.models:
            return self.models[name]
        return Opaque(name)

    def st_ImportFrom(self, st, scope):
        modname = st.module
        m = self.load_module(modname)
        for a in st.names:
            if m is not None:
                if a.name in m.ns:
                    v = m.ns[a.name]
                else:
                    sub = self.load_module(modname + "." + a.name)
                    if sub is None:
                        raise Unsupported(f"cannot import {a.name} from {modname}")
                    v = sub
            else:
                dotted = f"{modname}.{a.name}"
                v = self.models.get(dotted + "!obj", None)
                if v is None and modname in self.models and not isinstance(self.models[modname], Opaque):
                    try:
                        v = getattr(self.models[modname], a.name)  # `from functools import reduce` with a modelled module object
                    except (AttributeError, Unsupported):
                        v = None
                if v is None:
                    v = Opaque(dotted)
            self.store_name(scope, a.asname or a.name, v)

    def st_Assign(self, st, scope):
        v = self.eval(st.value, scope)
        for t in st.targets:
            self.assign(t, v, scope)

    def st_AnnAssign(self, st, scope):
        if st.value is not None:
            self.assign(st.target, self.eval(st.value, scope), scope)

    def st_AugAssign(self, st, scope):
        t = st.target
        cur_v = self.eval(
            ast.copy_location(
                {
                    ast.Name: lambda: ast.Name(id=t.id, ctx=ast.Load()),
                    ast.Attribute: lambda: ast.Attribute(value=t.value, attr=t.attr, ctx=ast.Load()),
                    ast.Subscript: lambda: ast.Subscript(value=t.value, slice=t.slice, ctx=ast.Load()),
                }[type(t)](),
                t,
            ),
            scope,
        )
        rhs = self.eval(st.value, scope)
        if hasattr(cur_v, "inplace_op"):
            nv = cur_v.inplace_op(type(st.op), rhs)
        elif isinstance(cur_v, list) and isinstance(st.op, ast.Add):
            cur_v.extend(self.iterate(rhs))
            nv = cur_v
        else:
            nv = self.binop(type(st.op), cur_v, rhs)
        self.assign(t, nv, scope)

    def st_Delete(self, st, scope):
        for t in st.targets:
            if isinstance(t, ast.Name):
                scope.vars.pop(t.id, None)
            elif isinstance(t, ast.Subscript):
                c = self.eval(t.value, scope)
                k = self.eval_slice(t.slice, scope)
                self.delitem(c, k)
            else:
                raise Unsupported("del of attribute")

    def st_Assert(self, st, scope):
        c = self.eval(st.test, scope)
        if not self.truth(c):
            raise PyRaise(PyExc(AssertionError, ("assert line %d" % st.lineno,)))

    def st_Raise(self, st, scope):
        if st.exc is None:
            ex = scope_lookup_exc(scope)
            if ex is None:
                raise Unsupported("bare raise outside except")
            raise PyRaise(ex)
        v = self.eval(st.exc, scope)
        raise PyRaise(self.to_exc(v))

    def to_exc(self, v):
        if isinstance(v, PyExc):
            return v
        if isinstance(v, SObj):
            return PyExc(v.cls, v.attrs.get("args", ()), obj=v)
        if isinstance(v, ClassInfo):
            o = self.instantiate(v, [], {})
            return PyExc(v, (), obj=o)
        if isinstance(v, type) and issubclass(v, BaseException):
            return PyExc(v, ())
        if isinstance(v, BaseException):
            return PyExc(type(v), v.args)
        raise Unsupported(f"raise of {v!r}")

    def exc_matches(self, exc, handler_type):
        if handler_type is None:
            return True
        if isinstance(handler_type, tuple):
            return any(self.exc_matches(exc, h) for h in handler_type)
        if isinstance(handler_type, ClassInfo):
            return isinstance(exc.cls, ClassInfo) and exc.cls.is_subclass_of(handler_type)
        if isinstance(handler_type, type):
            return issubclass(exc.pyclass(), handler_type)
        raise Unsupported(f"except {handler_type!r}")

    def exc_value(self, exc):
        if exc.obj is not None:
            return exc.obj
        return exc

    def st_Try(self, st, scope):
        try:
            try:
                self.exec_block(st.body, scope)
            except PyRaise as e:
                for h in st.handlers:
                    ht = self.eval(h.type, scope) if h.type is not None else None
                    if self.exc_matches(e.exc, ht):
                        if h.name:
                            scope.vars[h.name] = self.exc_value(e.exc)
                        old = scope.vars.get("__exc__")
                        scope.vars["__exc__"] = e.exc
                        try:
                            self.exec_block(h.body, scope)
                        finally:
                            scope.vars["__exc__"] = old
                        break
                else:
                    raise
            else:
                self.exec_block(st.orelse, scope)
        finally:
            if st.finalbody:
                self.exec_block(st.finalbody, scope)

    def st_If(self, st, scope):
        # `if TYPE_CHECKING:` is False at run time
        if isinstance(st.test, ast.Name) and st.test.id == "TYPE_CHECKING":
            return self.exec_block(st.orelse, scope)
        if self.truth(self.eval(st.test, scope)):
            self.exec_block(st.body, scope)
        else:
            self.exec_block(st.orelse, scope)

    def st_While(self, st, scope):
        n = 0
        while self.truth(self.eval(st.test, scope)):
            n += 1
            if n > 200:
                raise Unsupported("while loop exceeds 200 unrollings")
            try:
                self.exec_block(st.body, scope)
            except _Break:
                return
            except _Continue:
                continue
        self.exec_block(st.orelse, scope)

    def st_With(self, st, scope):
        mgrs = []
        for item in st.items:
            cm = self.eval(item.context_expr, scope)
            v = self.call(self.getattr(cm, "__enter__"), [], {})
            mgrs.append(cm)
            if item.optional_vars is not None:
                self.assign(item.optional_vars, v, scope)
        try:
            self.exec_block(st.body, scope)
        except PyRaise as e:
            swallowed = False
            for cm in reversed(mgrs):
                if swallowed:
                    self.call(self.getattr(cm, "__exit__"), [None, None, None], {})
                    continue
                r = self.call(self.getattr(cm, "__exit__"), [e.exc.cls, e.exc, None], {})
                if r is not None and r is not False and self.truth(r):
                    swallowed = True  # a true result of __exit__ suppresses the exception
            if not swallowed:
                raise
        except (_Return, _Break, _Continue):
            for cm in reversed(mgrs):
                self.call(self.getattr(cm, "__exit__"), [None, None, None], {})
            raise
        else:
            for cm in reversed(mgrs):
                self.call(self.getattr(cm, "__exit__"), [None, None, None], {})

    def loop_ordinal(self, st, scope):
        f = getattr(self._func_scope(scope), "func", None)
        if f is None:
            return None, None
        if not hasattr(f, "_loops"):
            loops = [
                n
                for n in ast.walk(f.node)
                if isinstance(n, (ast.For, ast.While))
            ]
            loops.sort(key=lambda n: (n.lineno, n.col_offset))
            f._loops = {id(n): i for i, n in enumerate(loops)}
        return f.qualname, f._loops.get(id(st))

    def _func_scope(self, scope):
        s = scope
        while s is not None and not hasattr(s, "func"):
            s = s.parent
        return s if s is not None else scope

    def st_For(self, st, scope):
        it = self.eval(st.iter, scope)
        if self.is_symbolic_collection(it):
            return self.symbolic_for(st, it, scope)
        items = self.iterate(it)
        for x in items:
            self.assign(st.target, x, scope)
            try:
                self.exec_block(st.body, scope)
            except _Break:
                return
            except _Continue:
                continue
        self.exec_block(st.orelse, scope)

    def is_symbolic_collection(self, it):
        return isinstance(it, (SymSeq, SymSet, SymMap)) or getattr(it, "symbolic_iter", False)

    def symbolic_for(self, st, it, scope):
        qn, ordn = self.loop_ordinal(st, scope)
        spec = self.loop_specs.get((qn, ordn))
        if spec is None:
            raise Unsupported(f"loop {ordn} of {qn} iterates a symbolic collection and has no invariant")
        fs = self._func_scope(scope)
        tag = f"{qn.split('.')[-1]}.loop{ordn}"
        n = spec.length(self, fs, it) if spec.length else it.length
        if spec.axioms:
            for nm, f in spec.axioms(self, fs, it):
                self.assume(f, why=f"ghost-definition:{nm}")
        for nm, f in spec.inv(self, fs, 0, it):
            self.oblige(f"{tag}.{nm}.init", f, loop=(qn, ordn))
        mode_body = self.branch(self.fresh_bool(f"{tag}.mode"))
        spec.havoc(self, fs, it)
        if mode_body:
            k = self.fresh(f"{tag}.k", z3.IntSort())
            self.assume(wrap(z3.And(k >= 0, k < to_term(n))))
            for nm, f in spec.inv(self, fs, k, it):
                self.assume(f)
            x = spec.elem(self, fs, it, k) if spec.elem else it.elem(k)
            self.assign(st.target, x, scope)
            self.tags.add(f"{tag}.body")
            try:
                self.exec_block(st.body, scope)
            except _Continue:
                pass
            except _Break:
                raise Unsupported("break inside invariant-verified loop")
            for nm, f in spec.inv(self, fs, k + 1, it):
                self.oblige(f"{tag}.{nm}.preserved", f, loop=(qn, ordn))
            raise PathEnd(f"{tag}.body")
        else:
            self.assume(wrap(to_term(n) >= 0))
            for nm, f in spec.inv(self, fs, to_term(n), it):
                self.assume(f)
            self.tags.add(f"{tag}.exit")
            self.exec_block(st.orelse, scope)

    def st_FunctionDef(self, st, scope):
        f = self.make_func(st, scope)
        v = f
        for d in reversed(st.decorator_list):
            v = self.apply_decorator(d, v, scope)
        self.store_name(scope, st.name, v)

    def make_func(self, node, scope):
        mod = scope.module
        cls = scope.cls if getattr(scope, "is_class_body", False) else getattr(scope, "cls", None)
        closure = None if scope.vars is (mod.ns if mod else None) else scope
        if getattr(scope, "is_class_body", False):
            closure = scope.parent if scope.parent and scope.parent.vars is not mod.ns else None
        name = getattr(node, "name", "<lambda>")
        if getattr(scope, "is_class_body", False):
            qn = f"{scope.cls.qualname}.{name}"
        elif closure is None:
            qn = f"{mod.name}.{name}" if mod else name
        else:
            outer = getattr(self._func_scope(scope), "func", None)
            qn = f"{outer.qualname if outer else '?'}.<locals>.{name}"
        f = FuncInfo(node, mod, closure=closure, cls=cls, qualname=qn)
        a = node.args
        f.defaults = [self.eval(d, scope) for d in a.defaults]
        f.kw_defaults = {
            k.arg: self.eval(d, scope)
            for k, d in zip(a.kwonlyargs, a.kw_defaults)
            if d is not None
        }
        f.is_generator = not isinstance(node, ast.Lambda) and _has_yield(node)
        return f

    def apply_decorator(self, d, v, scope):
        name = d.id if isinstance(d, ast.Name) else (d.attr if isinstance(d, ast.Attribute) else None)
        if name in ("property", "classmethod", "staticmethod") and isinstance(v, FuncInfo):
            v.kind = name
            return v
        if name in ("abstractmethod",):
            return v
        dec = self.eval(d, scope)
        if isinstance(dec, _PropSetter):
            dec.prop.setter = v
            return dec.prop
        return self.call(dec, [v], {})

    def st_ClassDef(self, st, scope):
        bases = [self.eval(b, scope) for b in st.bases]
        cls = ClassInfo(st.name, scope.module, bases, st)
        for b in cls.mro()[1:]:
            if getattr(b, "is_enum", False) or b is _EnumBase:
                cls.is_enum = True
        body = Scope(parent=scope, module=scope.module, cls=cls)
        body.is_class_body = True
        self.exec_block(st.body, body)
        ann = [
            s.target.id
            for s in st.body
            if isinstance(s, ast.AnnAssign) and isinstance(s.target, ast.Name)
        ]
        for k, v in body.vars.items():
            cls.attrs[k] = v
        if cls.is_enum:
            idx = 0
            for k, v in list(body.vars.items()):
                if k.startswith("_") or isinstance(v, (FuncInfo, _PropSetter)) or callable(v) and not isinstance(v, (SObj, ClassInfo)):
                    continue
                idx += 1
                if isinstance(v, _Auto):
                    v = idx
                mem = EnumMember(cls, k, v, idx)
                cls.members[k] = mem
                cls.attrs[k] = mem
        for d in st.decorator_list:
            nm = d.id if isinstance(d, ast.Name) else None
            if nm == "dataclass":
                from .engine import _MISSING

                cls.dataclass_fields = {a: body.vars.get(a, _MISSING) for a in ann}
            else:
                raise Unsupported(f"class decorator {ast.dump(d)}")
        # __init_subclass__ hook of bases
        for b in cls.mro()[1:]:
            if isinstance(b, ClassInfo) and "__init_subclass__" in b.attrs:
                f = b.attrs["__init_subclass__"]
                self.call_func(f, [cls], {})
                break
        self.store_name(scope, st.name, cls)

    # ------------------------------------------------------------ assignment
    def store_name(self, scope, name, v):
        if getattr(scope, "is_class_body", False) and name.startswith("__") and not name.endswith("__"):
            name = "_" + scope.cls.name.lstrip("_") + name  # private names are mangled in class bodies
        if name in scope.globals_decl and scope.module is not None:
            scope.module.ns[name] = v
        elif name in getattr(scope, "nonlocal_decl", ()):
            s_ = scope.parent
            while s_ is not None and not (name in s_.vars and not getattr(s_, "is_class_body", False)):
                s_ = s_.parent
            if s_ is None:
                raise Unsupported(f"nonlocal {name}: no enclosing binding")
            s_.vars[name] = v
        else:
            scope.vars[name] = v

    def mangle(self, name, scope):
        cls = getattr(scope, "cls", None)
        s = scope
        while cls is None and s is not None:
            cls = getattr(s, "cls", None)
            s = s.parent
        if cls is not None and name.startswith("__") and not name.endswith("__"):
            return "_" + cls.name.lstrip("_") + name
        return name

    def assign(self, t, v, scope):
        if isinstance(t, ast.Name):
            self.store_name(scope, self.mangle(t.id, scope) if False else t.id, v)
        elif isinstance(t, (ast.Tuple, ast.List)):
            items = self.iterate(v)
            stars = [i for i, e in enumerate(t.elts) if isinstance(e, ast.Starred)]
            if stars:
                if len(stars) > 1 or not isinstance(items, (list, tuple)):
                    raise Unsupported("starred assignment")
                i, n_after = stars[0], len(t.elts) - stars[0] - 1
                if len(items) < len(t.elts) - 1:
                    raise PyRaise(PyExc(ValueError, (f"not enough values to unpack (expected at least {len(t.elts) - 1}, got {len(items)})",)))
                items = list(items)
                for e, x in zip(t.elts[:i], items[:i]):
                    self.assign(e, x, scope)
                self.assign(t.elts[i].value, items[i:len(items) - n_after], scope)
                for e, x in zip(t.elts[i + 1:], items[len(items) - n_after:] if n_after else []):
                    self.assign(e, x, scope)
                return
            if len(items) != len(t.elts):
                raise PyRaise(
                    PyExc(ValueError, (f"cannot unpack {len(items)} values into {len(t.elts)}",))
                )
            for e, x in zip(t.elts, items):
                self.assign(e, x, scope)
        elif isinstance(t, ast.Attribute):
            o = self.eval(t.value, scope)
            self.setattr(o, self.mangle(t.attr, scope), v)
        elif isinstance(t, ast.Subscript):
            c = self.eval(t.value, scope)
            k = self.eval_slice(t.slice, scope)
            self.setitem(c, k, v)
        else:
            raise Unsupported(f"assignment target {type(t).__name__}")

    # ----------------------------------------------------------- expressions
    def eval(self, e, scope):
        m = getattr(self, "ex_" + type(e).__name__, None)
        if m is None:
            raise Unsupported(f"expression {type(e).__name__} (line {getattr(e,'lineno','?')})")
        return m(e, scope)

    def ex_Constant(self, e, scope):
        return e.value

    def ex_Name(self, e, scope):
        v, ok = scope.lookup(e.id)
        if ok:
            return v
        mod = scope.module
        s = scope
        while mod is None and s is not None:
            mod = s.module
            s = s.parent
        if mod is not None and e.id in mod.ns:
            return mod.ns[e.id]
        if e.id in self.builtins:
            return self.builtins[e.id]
        import builtins as _pyb
        if hasattr(_pyb, e.id) and not self._is_local(e.id, scope):
            raise Unsupported(f"builtin {e.id} is not modelled")
        raise PyRaise(PyExc(UnboundLocalError if self._is_local(e.id, scope) else NameError, (e.id,)))

    def _is_local(self, name, scope):
        f = getattr(self._func_scope(scope), "func", None)
        if f is None:
            return False
        if not hasattr(f, "_assigned"):
            names = set()
            for n in ast.walk(f.node):
                if isinstance(n, ast.Name) and isinstance(n.ctx, ast.Store):
                    names.add(n.id)
            f._assigned = names
        return name in f._assigned

    def ex_Tuple(self, e, scope):
        return tuple(self._elts(e.elts, scope))

    def ex_List(self, e, scope):
        return list(self._elts(e.elts, scope))

    def ex_Set(self, e, scope):
        return set(self._elts(e.elts, scope))

    def _elts(self, elts, scope):
        out = []
        for x in elts:
            if isinstance(x, ast.Starred):
                out.extend(self.iterate(self.eval(x.value, scope)))
            else:
                out.append(self.eval(x, scope))
        return out

    def ex_Dict(self, e, scope):
        d = {}
        for k, v in zip(e.keys, e.values):
            if k is None:
                d.update(self.eval(v, scope))
            else:
                d[self.hashable(self.eval(k, scope))] = self.eval(v, scope)
        return d

    def hashable(self, k):
        return k

    def ex_JoinedStr(self, e, scope):
        parts = []
        for p in e.values:
            if isinstance(p, ast.Constant):
                parts.append(p.value)
            else:
                try:
                    v = self.eval(p.value, scope)
                    spec = None
                    if p.format_spec is not None:
                        spec = self.ex_JoinedStr(p.format_spec, scope)
                    if p.conversion != -1 or spec not in (None, ""):
                        plain = isinstance(v, (int, float, str, bool, type(None))) or (isinstance(v, (list, tuple, dict, set)) and not self.contains_symbolic(v))
                        if plain and isinstance(spec, (str, type(None))):
                            if p.conversion == ord("r"):
                                v = repr(v)
                            elif p.conversion == ord("s"):
                                v = str(v)
                            elif p.conversion == ord("a"):
                                v = ascii(v)
                            try:
                                parts.append(format(v, spec or ""))
                            except (ValueError, TypeError) as ex:
                                raise PyRaise(PyExc(type(ex), ex.args))
                        else:
                            parts.append(SymStr(self.fresh("fstr", z3.StringSort())))  # formatted symbolic value: unconstrained text
                    else:
                        parts.append(self.to_str(v))
                except Unsupported:
                    parts.append(SymStr(self.fresh("fstr", z3.StringSort())))
        out = ""
        for p in parts:
            out = out + p
        return out

    def to_str(self, v):
        if isinstance(v, (str, SymStr)):
            return v
        if isinstance(v, PyExc):
            a = v.args
            if len(a) == 0:
                return ""
            if len(a) == 1:
                return self.to_str(a[0]) if not (v.cls is KeyError) else (repr(a[0]) if isinstance(a[0], (str, int, float)) else self.to_str(a[0]))
            return self.to_str(tuple(a))
        if isinstance(v, Sym) or self.is_symbolic_collection(v):
            return SymStr(self.fresh("str", z3.StringSort()))
        if isinstance(v, (SObj, EnumMember)):
            cls = v.cls
            f, _ = cls.lookup("__str__")
            if f is not None:
                return self.call(BoundMethod(f, v), [], {})
            return SymStr(self.fresh("objstr", z3.StringSort()))
        if isinstance(v, (list, tuple, dict, set)):
            if self.contains_symbolic(v):
                return SymStr(self.fresh("str", z3.StringSort()))
            try:
                return str(v)
            except Exception:
                return SymStr(self.fresh("str", z3.StringSort()))
        if isinstance(v, (ClassInfo, FuncInfo, BoundMethod, Opaque)):
            return SymStr(self.fresh("str", z3.StringSort()))
        if hasattr(v, "pyvc_str"):
            return v.pyvc_str()
        return str(v)

    def contains_symbolic(self, v, depth=0):
        if isinstance(v, Sym) or isinstance(v, (SObj, EnumMember, SymSeq, SymMap, SymSet)):
            return True
        if depth > 4:
            return True
        if isinstance(v, (list, tuple, set)):
            return any(self.contains_symbolic(x, depth + 1) for x in v)
        if isinstance(v, dict):
            return any(
                self.contains_symbolic(k, depth + 1) or self.contains_symbolic(x, depth + 1)
                for k, x in v.items()
            )
        return not isinstance(v, (int, float, str, bool, type(None)))

    def ex_BoolOp(self, e, scope):
        is_and = isinstance(e.op, ast.And)
        v = None
        for i, x in enumerate(e.values):
            v = self.eval(x, scope)
            if i == len(e.values) - 1:
                return v
            t = self.truth(v)
            if is_and and not t:
                return v
            if not is_and and t:
                return v
        return v

    def ex_UnaryOp(self, e, scope):
        v = self.eval(e.operand, scope)
        if isinstance(e.op, ast.Not):
            if isinstance(v, SymBool):
                return sym_not(v)
            return not self.truth(v)
        if isinstance(e.op, ast.USub):
            return -v
        if isinstance(e.op, ast.UAdd):
            return +v
        if isinstance(e.op, ast.Invert):
            return ~v
        raise Unsupported("unary op")

    def ex_BinOp(self, e, scope):
        return self.binop(type(e.op), self.eval(e.left, scope), self.eval(e.right, scope))

    def binop(self, op, a, b):
        if isinstance(a, (SymOpt, SymEnum)):
            a = self.concretize(a)
        if isinstance(b, (SymOpt, SymEnum)):
            b = self.concretize(b)
        if isinstance(a, (SObj, EnumMember)) or isinstance(b, (SObj, EnumMember)):
            raise Unsupported("operator on interpreted objects")
        if op is ast.Mod and isinstance(a, str):
            return a % b
        if op is ast.Pow:
            if isinstance(a, Sym) or isinstance(b, Sym):
                if isinstance(b, int) and b == 2:
                    return a * a
                raise Unsupported("symbolic power")
        try:
            return _BINOPS[op](a, b)
        except ZeroDivisionError as ex:
            raise PyRaise(PyExc(ZeroDivisionError, ex.args))
        except TypeError as ex:
            plain = (int, float, str, bool, list, dict, tuple, set, frozenset, type(None), bytes)
            if not (isinstance(a, plain) and isinstance(b, plain)):
                # a verifier-side value (symbolic scalar, modelled array, ...) lacks the operator: a modelling gap, not a TypeError of the program
                raise Unsupported(f"binop {op.__name__} on {type(a).__name__},{type(b).__name__}")
            raise PyRaise(PyExc(TypeError, ex.args))

    def ex_IfExp(self, e, scope):
        if self.truth(self.eval(e.test, scope)):
            return self.eval(e.body, scope)
        return self.eval(e.orelse, scope)

    def ex_Lambda(self, e, scope):
        return self.make_func(e, scope)

    def ex_Compare(self, e, scope):
        left = self.eval(e.left, scope)
        result = True
        for i, (op, rn) in enumerate(zip(e.ops, e.comparators)):
            right = self.eval(rn, scope)
            r = self.compare(op, left, right)
            if len(e.ops) == 1:
                return r
            if i < len(e.ops) - 1:
                if not self.truth(r):
                    return r
            result = r
            left = right
        return result

    def compare(self, op, a, b):
        t = type(op)
        if t in (ast.Is, ast.IsNot):
            num = lambda x: (isinstance(x, (int, float)) and not isinstance(x, bool)) or isinstance(x, (SymInt, SymReal))
            if num(a) and num(b):
                # `is` between two numbers compares object identity: true for CPython's cached small ints, false for most other equal
                # values -- implementation dependent, so no verdict can rest on it
                raise Unsupported("identity comparison (`is`) between numbers")
        if t is ast.Is:
            return self.py_is(a, b)
        if t is ast.IsNot:
            r = self.py_is(a, b)
            return sym_not(r) if isinstance(r, SymBool) else (not r)
        if t is ast.In:
            return self.contains(b, a)
        if t is ast.NotIn:
            r = self.contains(b, a)
            return sym_not(r) if isinstance(r, SymBool) else (not r)
        if t is ast.Eq:
            return self.py_eq(a, b)
        if t is ast.NotEq:
            r = self.py_eq(a, b)
            if isinstance(r, (bool, SymBool)):
                return sym_not(r)
            if hasattr(r, "logical_not"):
                return r.logical_not()
            return not self.truth(r)
        f = {ast.Lt: operator.lt, ast.LtE: operator.le, ast.Gt: operator.gt, ast.GtE: operator.ge}[t]
        if isinstance(a, (SObj, EnumMember)) or isinstance(b, (SObj, EnumMember)):
            raise Unsupported("ordering on interpreted objects")
        if a is None or b is None:
            raise PyRaise(PyExc(TypeError, ("ordering with None",)))
        try:
            return f(a, b)
        except TypeError as ex:
            raise PyRaise(PyExc(TypeError, ex.args))

    def py_is(self, a, b):
        tm = getattr(self, "type_models", {})
        if isinstance(a, type) and a in tm:
            a = tm[a]
        if isinstance(b, type) and b in tm:
            b = tm[b]
        if isinstance(a, SymOpt) or isinstance(b, SymOpt):
            if isinstance(b, SymOpt):
                a, b = b, a
            if b is None:
                return wrap(a.is_none)
            return self.py_is(self.concretize(a), b)
        if isinstance(a, SymEnum) or isinstance(b, SymEnum):
            if a is None or b is None:
                return False
            return self.py_eq(a, b)
        if isinstance(a, Sym) or isinstance(b, Sym):
            if a is None or b is None:
                return False
            if isinstance(a, bool) or isinstance(b, bool):
                # `x is True` on symbolic bool
                if isinstance(a, SymBool) or isinstance(b, SymBool):
                    return self.py_eq(a, b)
                return False
            return a is b
        if isinstance(a, EnumMember) and isinstance(b, EnumMember):
            return a.cls is b.cls and a._name == b._name
        return a is b

    def py_eq(self, a, b):
        if isinstance(a, SymOpt) or isinstance(b, SymOpt):
            return self.py_eq(self.concretize(a), self.concretize(b))
        if isinstance(a, SymEnum) or isinstance(b, SymEnum):
            if isinstance(b, SymEnum) and not isinstance(a, SymEnum):
                a, b = b, a
            if isinstance(b, SymEnum):
                return wrap(a.idx == b.idx) if a.cls is b.cls else False
            if isinstance(b, EnumMember) and b.cls is a.cls:
                return wrap(a.idx == list(a.cls.members).index(b._name))
            if isinstance(b, str) and b in a.cls.members:
                return wrap(a.idx == list(a.cls.members).index(b))
            return False
        if isinstance(a, SObj) and isinstance(b, SObj) and a.cls is b.cls and a.cls.dataclass_fields is not None and a.cls.lookup("__eq__")[0] is None:
            # @dataclass(eq=True): field-wise tuple comparison
            return self.py_eq(tuple(a.attrs.get(k) for k in a.cls.dataclass_fields), tuple(b.attrs.get(k) for k in b.cls.dataclass_fields))
        if isinstance(a, SObj):
            f, owner = a.cls.lookup("__eq__")
            if f is not None:
                return self.call(BoundMethod(f, a), [b], {})
            return a is b
        if isinstance(b, SObj):
            f, owner = b.cls.lookup("__eq__")
            if f is not None:
                return self.call(BoundMethod(f, b), [a], {})
            return a is b
        if isinstance(a, EnumMember) or isinstance(b, EnumMember):
            if isinstance(b, EnumMember) and not isinstance(a, EnumMember):
                a, b = b, a
            if isinstance(b, Sym):
                return False
            return a == b
        if isinstance(a, (tuple, list)) and isinstance(b, (tuple, list)) and type(a) is type(b):
            if len(a) != len(b):
                return False
            rs = [self.py_eq(x, y) for x, y in zip(a, b)]
            if all(isinstance(r, bool) for r in rs):
                return all(rs)
            return sym_and(*rs)
        if hasattr(a, "elementwise_eq"):
            return a.elementwise_eq(b)
        if hasattr(b, "elementwise_eq"):
            return b.elementwise_eq(a)
        r = a == b
        if r is NotImplemented:
            return False
        return r

    def contains(self, c, x):
        if isinstance(c, SymSet):
            return wrap(z3.simplify(c.member(self.key_term(x, c.sort))))
        if isinstance(c, SymMap):
            return wrap(z3.simplify(z3.Select(c.dom, self.key_term(x, c.dom.domain()))))
        if hasattr(c, "sym_contains"):
            return c.sym_contains(x)
        if isinstance(c, SymSeq):
            i = self.fresh("ix", z3.IntSort())
            el = c.elem(i)
            eq = self.py_eq(el, x)
            return wrap(z3.Exists([i], z3.And(i >= 0, i < to_term(c.length), to_term(eq))))
        if isinstance(c, (list, tuple, set, frozenset)) or isinstance(c, type({}.keys())) or isinstance(c, type({}.values())):
            rs = []
            for y in c:
                r = self.py_is(y, x) or self.py_eq(y, x)
                if isinstance(r, bool):
                    if r:
                        return True
                else:
                    rs.append(r)
            if not rs:
                return False
            return sym_or(*rs)
        if isinstance(c, dict):
            return self.contains(list(c.keys()), x)
        if isinstance(c, (str,)) and isinstance(x, str):
            return x in c
        if isinstance(c, (str, SymStr)) and isinstance(x, (str, SymStr)):
            return wrap(z3.Contains(to_term(c), to_term(x)))
        if isinstance(c, SObj):
            f, _ = c.cls.lookup("__contains__")
            if f is not None:
                return self.call(BoundMethod(f, c), [x], {})
        if isinstance(c, ClassInfo) and c.is_enum:
            return any(self.py_eq(m, x) is True for m in c.members.values())
        raise Unsupported(f"`in` on {type(c).__name__}")

    def key_term(self, x, sort):
        t = to_term(x)
        if sort == z3.RealSort() and z3.is_int(t):
            t = z3.ToReal(t)
        return t

    def ex_Attribute(self, e, scope):
        o = self.eval(e.value, scope)
        return self.getattr(o, self.mangle(e.attr, scope))

    def ex_Subscript(self, e, scope):
        c = self.eval(e.value, scope)
        k = self.eval_slice(e.slice, scope)
        return self.getitem(c, k)

    def eval_slice(self, s, scope):
        if isinstance(s, ast.Slice):
            return slice(
                self.eval(s.lower, scope) if s.lower else None,
                self.eval(s.upper, scope) if s.upper else None,
                self.eval(s.step, scope) if s.step else None,
            )
        return self.eval(s, scope)

    def ex_Slice(self, e, scope):
        return self.eval_slice(e, scope)

    def ex_Starred(self, e, scope):
        raise Unsupported("starred expression")

    def ex_Call(self, e, scope):
        # super() without arguments
        if isinstance(e.func, ast.Name) and e.func.id == "super" and not e.args:
            fs = self._func_scope(scope)
            f = getattr(fs, "func", None)
            first = f.node.args.args[0].arg
            return SuperProxy(f.cls, fs.vars[first])
        # print(...) has no effect on any observed value: no-op (DESIGN 2.1)
        if isinstance(e.func, ast.Name) and e.func.id == "print" and "print" not in scope.vars:
            self.event("print")
            return None
        f = self.eval(e.func, scope)
        args = []
        for a in e.args:
            if isinstance(a, ast.Starred):
                args.extend(self.iterate(self.eval(a.value, scope)))
            else:
                args.append(self.eval(a, scope))
        kwargs = {}
        for k in e.keywords:
            if k.arg is None:
                d = self.eval(k.value, scope)
                if not isinstance(d, dict):
                    raise Unsupported("** of non-dict")
                kwargs.update(d)
            else:
                kwargs[k.arg] = self.eval(k.value, scope)
        return self.call(f, args, kwargs)

    # comprehensions --------------------------------------------------------
    def ex_ListComp(self, e, scope):
        r = self.comprehension(e, scope, lambda s: self.eval(e.elt, s))
        return r if not isinstance(r, _Items) else r.items

    def ex_GeneratorExp(self, e, scope):
        r = self.comprehension(e, scope, lambda s: self.eval(e.elt, s))
        return r if not isinstance(r, _Items) else r.items

    def ex_SetComp(self, e, scope):
        r = self.comprehension(e, scope, lambda s: self.eval(e.elt, s))
        return set(r.items) if isinstance(r, _Items) else r

    def ex_DictComp(self, e, scope):
        r = self.comprehension(
            e, scope, lambda s: (self.eval(e.key, s), self.eval(e.value, s))
        )
        if not isinstance(r, _Items):
            raise Unsupported("dict comprehension over symbolic collection")
        return {k: v for k, v in r.items}

    def comprehension(self, e, scope, elt):
        inner = Scope(parent=scope, module=scope.module, cls=getattr(scope, "cls", None))
        gens = e.generators
        first = self.eval(gens[0].iter, scope)
        if self.is_symbolic_collection(first):
            if len(gens) != 1:
                raise Unsupported("nested comprehension over symbolic collection")
            return self.symbolic_comprehension(gens[0], first, inner, elt)
        out = []

        def rec(i):
            if i == len(gens):
                out.append(elt(inner))
                return
            g = gens[i]
            it = first if i == 0 else self.eval(g.iter, inner)
            if self.is_symbolic_collection(it):
                raise Unsupported("inner symbolic generator")
            for x in self.iterate(it):
                self.assign(g.target, x, inner)
                if all(self.truth(self.eval(c, inner)) for c in g.ifs):
                    rec(i + 1)

        rec(0)
        return _Items(out)

    def symbolic_comprehension(self, gen, coll, inner, elt):
        """[elt for target in coll if conds] with coll symbolic."""
        ntaken = len(self.taken)
        if isinstance(coll, SymSeq):
            def body(elem_value, s2):
                self.assign(gen.target, elem_value, s2)
                conds = []
                for c in gen.ifs:
                    r = self.eval(c, s2)
                    if not isinstance(r, (bool, SymBool)):
                        raise Unsupported("non-boolean filter in symbolic comprehension")
                    conds.append(to_term(r))
                return elt(s2), (z3.And(*conds) if conds else None)

            return self.seq_map_filter(coll, lambda ev: body(ev, Scope(parent=inner.parent, module=inner.module, cls=getattr(inner, "cls", None))))
        # filtered: result known through membership only
        mem, sort, ev = self.coll_member(coll)
        x = self.fresh("ce", sort)
        self.assign(gen.target, ev(x), inner)
        conds = []
        for c in gen.ifs:
            r = self.eval(c, inner)
            if isinstance(r, bool):
                conds.append(z3.BoolVal(r))
            elif isinstance(r, SymBool):
                conds.append(r.term)
            else:
                raise Unsupported("non-boolean filter in symbolic comprehension")
        v = elt(inner)
        if len(self.taken) != ntaken:
            raise Unsupported("forking inside symbolic comprehension")
        cond = z3.And(mem(x), *conds) if conds else mem(x)
        if isinstance(v, Sym) and v.term.eq(x):
            return SymSet(lambda t, x=x, cond=cond: z3.substitute(cond, (x, t)), sort=sort, name=f"filter({getattr(coll,'name','?')})")
        if isinstance(v, Sym):
            vt = v.term
            return SymSet(
                lambda t, x=x, cond=cond, vt=vt: z3.Exists([x], z3.And(cond, vt == t)),
                sort=vt.sort(),
                name=f"image({getattr(coll,'name','?')})",
            )
        raise Unsupported("structured element in filtered symbolic comprehension")

    def eval_template(self, base, fn):
        """Evaluate fn(element at a fresh index i0) once, under 0<=i0<len.
        Forks are not allowed; assumptions made during evaluation are kept,
        universally closed over i0."""
        i0 = self.fresh("ti", z3.IntSort())
        guard = z3.And(i0 >= 0, i0 < to_term(base.length))
        npc = len(self.pc)
        npend = len(self.pending)
        self.pc.append(guard)
        try:
            v = fn(base.elem(i0))
        finally:
            new = self.pc[npc + 1 :]
            del self.pc[npc:]
        if len(self.pending) != npend:
            del self.pending[npend:]
            raise Unsupported("forking while evaluating the element expression of a symbolic sequence")
        if new:
            self.pc.append(z3.ForAll([i0], z3.Implies(guard, z3.And(*new))))
        return i0, v

    def seq_map_filter(self, base, fn):
        """[elt for x in base if cond]; fn(elem)->(value, cond-term|None)."""
        i0, (v, cond) = self.eval_template(base, fn)
        if cond is None:
            return SymSeq(base.length, None, name=f"map({base.name})", i0=i0, template=v)
        # filtered list comprehension semantics (language axiom): the result
        # enumerates, in order, exactly the positions of base satisfying cond.
        I = z3.IntSort()
        nF = self.fresh("flen", I)
        src = z3.Function(f"src!{self.fresh_n}", I, I)
        pos = z3.Function(f"pos!{self.fresh_n}", I, I)
        j, j2 = z3.Int(f"fj!{self.fresh_n}"), z3.Int(f"fk!{self.fresh_n}")
        nB = to_term(base.length)
        c_at = lambda t: z3.substitute(cond, (i0, t))
        ax = z3.And(
            nF >= 0, nF <= nB,
            z3.ForAll([j], z3.Implies(z3.And(j >= 0, j < nF), z3.And(src(j) >= 0, src(j) < nB, c_at(src(j)), pos(src(j)) == j), ), patterns=[src(j)]),
            z3.ForAll([j, j2], z3.Implies(z3.And(j >= 0, j < j2, j2 < nF), src(j) < src(j2)), patterns=[z3.MultiPattern(src(j), src(j2))]),
            z3.ForAll([j], z3.Implies(z3.And(j >= 0, j < nB, c_at(j)), z3.And(pos(j) >= 0, pos(j) < nF, src(pos(j)) == j)), patterns=[pos(j)]),
        )
        self.assume(ax, why="semantics of filtered list comprehension")
        k0 = self.fresh("fi", I)
        if isinstance(v, SymOpt):
            # the filter may guarantee that an optional element is present (`x is not None`)
            chk = z3.Solver()
            chk.set("timeout", 1000)
            chk.add(cond, v.is_none)
            if chk.check() == z3.unsat:
                v = v.value
        tmpl = subst_value(v, [(i0, src(k0))])
        out = SymSeq(wrap(nF), None, name=f"filter({base.name})", i0=k0, template=tmpl)
        out.src = src
        out.pos = pos
        out.base = base
        out.cond = (i0, cond)
        return out

    def coll_member(self, coll):
        """(member predicate on raw term, element sort, term->value)."""
        if isinstance(coll, SymSet):
            return coll.member, coll.sort, (lambda t: wrap(t, getattr(coll, "np", False)))
        if isinstance(coll, SymMap):
            return (lambda t: z3.Select(coll.dom, t)), coll.dom.domain(), wrap
        if hasattr(coll, "coll_member"):
            return coll.coll_member()
        raise Unsupported(f"membership view of {coll!r}")

    # --------------------------------------------------------------- helpers
    def iterate(self, v):
        if isinstance(v, (list, tuple)):
            return list(v)
        if isinstance(v, (set, frozenset)):
            if sum(1 for x in v if isinstance(x, str)) >= 2 and not getattr(self, "_order_insensitive", False):
                # CPython randomises str hashes per process: the iteration order of this set differs between interpreter runs
                self.oblige("order-independence(iteration over a set of strings: the order depends on the per-process hash seed)", z3.BoolVal(False),
                            elements=str(sorted(v))[:160])
            elif len(v) >= 2 and not getattr(self, "_order_insensitive", False):
                # the order of a set of numbers follows the hash table layout: it depends on the values AND on the insertion history
                # (list(set(xs)) need not equal list(set(list(set(xs))))); the interpreter uses sorted order, which is not CPython's
                self.oblige("order-independence(iteration over a set: the order is an artefact of the hash table, not a function of the elements)", z3.BoolVal(False),
                            elements=str(sorted(v, key=repr))[:160])
            try:
                return sorted(v)
            except TypeError:
                return list(v)
        if isinstance(v, dict):
            return list(v.keys())
        if isinstance(v, (str, range)) or isinstance(v, (type({}.keys()), type({}.values()), type({}.items()))):
            return list(v)
        if isinstance(v, (enumerate, zip, map, filter, reversed)) or hasattr(v, "__next__"):
            return list(v)
        if isinstance(v, ClassInfo) and v.is_enum:
            return list(v.members.values())
        if isinstance(v, SObj):
            f, _ = v.cls.lookup("__iter__")
            if f is not None:
                return self.iterate(self.call(BoundMethod(f, v), [], {}))
        if isinstance(v, _Items):
            return v.items
        if hasattr(v, "pyvc_iterate"):
            return v.pyvc_iterate()
        if self.is_symbolic_collection(v):
            raise Unsupported(f"concrete iteration of symbolic collection {v!r}")
        raise Unsupported(f"iteration over {type(v).__name__}")

    def getitem(self, c, k):
        if isinstance(c, SymMap):
            kt = self.key_term(k, c.dom.domain())
            if not self.truth(wrap(z3.simplify(z3.Select(c.dom, kt)))):
                raise PyRaise(PyExc(KeyError, (k,)))
            return wrap(z3.simplify(z3.Select(c.val, kt)))
        if isinstance(c, SymSeq):
            if isinstance(k, slice):
                if k.step not in (None, 1) or isinstance(k.start, Sym) or isinstance(k.stop, Sym) or (k.start or 0) < 0 or (k.stop is not None and k.stop < 0):
                    raise Unsupported("slice of symbolic sequence")
                a = k.start or 0
                nt = to_term(c.length)
                hi = nt if k.stop is None else z3.If(nt < k.stop, nt, z3.IntVal(k.stop))
                ln = z3.simplify(z3.If(hi - a > 0, hi - a, z3.IntVal(0)))
                out = SymSeq(SymInt(ln), lambda t, c=c, a=a: c.elem(t + a), name=f"{c.name}[{a}:{'' if k.stop is None else k.stop}]")
                out.slice_of = (c, a)
                return out
            n = c.length
            inb = sym_and(k >= 0, k < n) if (is_sym(k) or is_sym(n)) else (0 <= k < n)
            if not self.truth(inb):
                if not is_sym(k) and k < 0:
                    raise Unsupported("negative index into symbolic sequence")
                raise PyRaise(PyExc(IndexError, ("index out of range",)))
            return c.elem(to_term(k))
        if isinstance(k, (SymEnum, SymOpt)):
            k = self.concretize(k)
        if isinstance(c, dict):
            if isinstance(k, Sym):
                for kk in c:
                    r = self.py_eq(kk, k)
                    if self.truth(r):
                        return c[kk]
                raise PyRaise(PyExc(KeyError, (k,)))
            try:
                if k in c:
                    return c[k]
            except TypeError:
                raise Unsupported("unhashable dict key")
            for kk in c:
                if self.py_eq(kk, k) is True:
                    return c[kk]
            raise PyRaise(PyExc(KeyError, (k,)))
        if isinstance(c, (list, tuple, str)):
            if isinstance(k, SymInt) and len(c) <= 16:
                n = len(c)
                for i in range(-n, n):
                    if self.branch(wrap(k.term == i)):
                        return c[i]
                raise PyRaise(PyExc(IndexError, ("index out of range",)))
            if isinstance(k, Sym):
                raise Unsupported("symbolic index into concrete list")
            try:
                return c[k]
            except IndexError as ex:
                raise PyRaise(PyExc(IndexError, ex.args))
            except TypeError as ex:
                raise PyRaise(PyExc(TypeError, ex.args))
        if isinstance(c, ClassInfo) and c.is_enum:
            if isinstance(k, str) and k in c.members:
                return c.members[k]
            raise PyRaise(PyExc(KeyError, (k,)))
        if isinstance(c, SObj):
            f, _ = c.cls.lookup("__getitem__")
            if f is not None:
                return self.call(BoundMethod(f, c), [k], {})
        if hasattr(c, "pyvc_getitem"):
            return c.pyvc_getitem(k)
        if isinstance(c, Opaque) or isinstance(c, type):
            return c  # typing subscripts: list[int]
        raise Unsupported(f"subscript of {type(c).__name__}")

    def setitem(self, c, k, v):
        if isinstance(c, SymMap):
            kt = self.key_term(k, c.dom.domain())
            vt = to_term(v)
            if c.val.range() == z3.RealSort() and z3.is_int(vt):
                vt = z3.ToReal(vt)
            c.dom = z3.Store(c.dom, kt, True)
            c.val = z3.Store(c.val, kt, vt)
            self.event("map-store", c.name)
            return
        if isinstance(k, (SymEnum, SymOpt)):
            k = self.concretize(k)
        if isinstance(c, dict):
            if isinstance(k, Sym):
                # symbolic (string) key: decide equality with the existing keys on this path
                for kk in list(c):
                    if isinstance(kk, (Sym, str, int)) and self.truth(self.py_eq(kk, k)):
                        c[kk] = v
                        return
                c[k] = v
                return
            for kk in list(c):
                if kk is not k and not isinstance(kk, (int, str, float, bool, tuple, type(None))) and self.py_eq(kk, k) is True:
                    c[kk] = v
                    return
            c[k] = v
            return
        if isinstance(c, list):
            if isinstance(k, Sym):
                raise Unsupported("symbolic index store")
            c[k] = v
            return
        if hasattr(c, "pyvc_setitem"):
            return c.pyvc_setitem(k, v)
        if isinstance(c, SObj):
            f, _ = c.cls.lookup("__setitem__")
            if f is not None:
                return self.call(BoundMethod(f, c), [k, v], {})
        raise Unsupported(f"item assignment on {type(c).__name__}")

    def delitem(self, c, k):
        if isinstance(c, dict):
            if k not in c:
                raise PyRaise(PyExc(KeyError, (k,)))
            del c[k]
            return
        if isinstance(c, list):
            del c[k]
            return
        raise Unsupported("del item")


class _Items:
    def __init__(self, items):
        self.items = items


class _Auto:
    pass


class _EnumBase:
    """Stands for enum.Enum."""
    is_enum = True


class _PropSetter:
    def __init__(self, prop):
        self.prop = prop


def scope_lookup_exc(scope):
    s = scope
    while s is not None:
        if s.vars.get("__exc__") is not None:
            return s.vars["__exc__"]
        s = s.parent
    return None
