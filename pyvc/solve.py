"""Obligation discharge: every obligation is a named validity query
(hypotheses |- goal), serialised to SMT-LIB2 and decided in a worker process
by z3 (python API, fresh context) and, on `unknown`, by the cvc5 CLI."""
from __future__ import annotations
import os, time, subprocess, tempfile, re, json
import multiprocessing as mp
import z3


class Obligation:
    def __init__(self, name, hyps, goal, prop=None, func=None, kind="post", info=None,
                 replay=None, expect="valid"):
        self.name = name
        self.hyps = list(hyps)
        self.goal = goal
        self.prop = prop
        self.func = func
        self.kind = kind
        self.info = info or {}
        self.replay = replay  # name of concretiser
        self.expect = expect  # 'valid' | 'refutable' (canary / reachability)
        self.smt2 = None
        self.result = None  # dict

    def to_smt2(self):
        s = z3.Solver()
        for h in self.hyps:
            s.add(h)
        s.add(z3.Not(self.goal))
        return s.to_smt2()


_DECL = re.compile(r"\(declare-fun (\|[^|]*\||\S+) \(\) (Int|Real|Bool|\(Array Int Int\)|\(Array Int Real\))\)")


def _complete_consts(m, ctx, smt2, out):
    """constants that the model leaves unconstrained still need a value for replay"""
    for name, sort in _DECL.findall(smt2 or ""):
        name = name.strip("|")
        if name in out:
            continue
        try:
            if sort == "Int":
                out[name] = str(m.eval(z3.Int(name, ctx), model_completion=True))
            elif sort == "Real":
                out[name] = str(m.eval(z3.Real(name, ctx), model_completion=True))
            elif sort == "Bool":
                out[name] = str(m.eval(z3.Bool(name, ctx), model_completion=True))
            else:
                rng = z3.IntSort(ctx) if sort.endswith("Int)") else z3.RealSort(ctx)
                c = z3.Const(name, z3.ArraySort(z3.IntSort(ctx), rng))
                out[name] = [str(m.eval(z3.Select(c, z3.IntVal(i, ctx)), model_completion=True)) for i in range(8)]
        except Exception:
            pass


def _model_to_dict(m, ctx=None, smt2=None):
    out = {}
    for d in m.decls():
        try:
            v = m[d]
            if d.arity() == 0 and z3.is_array_sort(d.range()) and d.range().domain() == z3.IntSort(ctx):
                c = d()
                out[d.name()] = [str(m.eval(z3.Select(c, z3.IntVal(i, ctx)), model_completion=True)) for i in range(8)]
            elif d.arity() == 0:
                out[d.name()] = str(v)
            elif d.arity() == 1 and d.domain(0) == z3.IntSort(ctx):
                # tabulate unary functions over Int at 0..7 (sequence models)
                out[d.name()] = [str(m.eval(d(z3.IntVal(i, ctx)), model_completion=True)) for i in range(8)]
            else:
                out[d.name()] = str(v)
        except Exception:
            pass
    _complete_consts(m, ctx, smt2, out)
    return out


def _eval_terms(m, ctx, smt2, evals):
    """Evaluate extra named terms (given as smt2 expression strings over the
    declared symbols) in the model."""
    out = {}
    if not evals:
        return out
    decls = "\n".join(l for l in smt2.splitlines() if l.startswith("(declare-") or l.startswith("(define-"))
    for name, expr in evals.items():
        try:
            fs = z3.parse_smt2_string(decls + f"\n(assert (= {expr} {expr}))", ctx=ctx)
            t = fs[0].arg(0)
            out[name] = str(m.eval(t, model_completion=True))
        except Exception as ex:
            out[name] = f"<eval failed: {ex}>"
    return out


def run_z3(smt2, timeout_ms, evals=None, seed=0, prefer=None):
    ctx = z3.Context()
    s = z3.Solver(ctx=ctx)
    s.set("timeout", int(timeout_ms))
    if seed:
        s.set("random_seed", int(seed) % 1000)
    t0 = time.time()
    try:
        s.from_string(smt2)
        r = s.check()
    except z3.Z3Exception as ex:
        return {"verdict": "unknown", "backend": "z3", "time": time.time() - t0, "reason": f"z3 exception: {ex}"}
    dt = time.time() - t0
    if r == z3.unsat:
        return {"verdict": "unsat", "backend": "z3", "time": dt}
    if r == z3.sat:
        m = s.model()
        if prefer:
            # look for a smaller / more generic counter-model (same query + extra bounds).
            # `prefer` is a list of constraint strings, or a list of such lists tried in order.
            levels = prefer if prefer and isinstance(prefer[0], list) else [prefer]
            decls = "\n".join(l for l in smt2.splitlines() if l.startswith("(declare-") or l.startswith("(define-"))
            for lvl in levels:
                try:
                    s.push()
                    for p in lvl:
                        try:
                            fs = z3.parse_smt2_string(decls + f"\n(assert {p})", ctx=ctx)
                        except z3.Z3Exception:
                            continue  # mentions a symbol this query does not have
                        for f in fs:
                            s.add(f)
                    ok = s.check() == z3.sat
                    if ok:
                        m = s.model()
                    s.pop()
                    if ok:
                        break
                except z3.Z3Exception:
                    try:
                        s.pop()
                    except Exception:
                        pass
        res = {"verdict": "sat", "backend": "z3", "time": dt, "model": _model_to_dict(m, ctx, smt2)}
        res["evals"] = _eval_terms(m, ctx, smt2, evals)
        return res
    reason = s.reason_unknown()
    if prefer:
        # unknown on a quantified query: look for a *small* counter-model (adding size
        # bounds only strengthens the query, so a model found is a model of the original)
        decls = "\n".join(l for l in smt2.splitlines() if l.startswith("(declare-") or l.startswith("(define-"))
        try:
            s2 = z3.Solver(ctx=ctx)
            s2.set("timeout", int(timeout_ms // 2))
            s2.from_string(smt2)
            for p in (prefer[-1] if isinstance(prefer[0], list) else prefer):
                try:
                    fs = z3.parse_smt2_string(decls + f"\n(assert {p})", ctx=ctx)
                except z3.Z3Exception:
                    continue
                for f in fs:
                    s2.add(f)
            if s2.check() == z3.sat:
                m = s2.model()
                res = {"verdict": "sat", "backend": "z3", "time": time.time() - t0, "model": _model_to_dict(m, ctx, smt2), "note": "found with size bounds"}
                res["evals"] = _eval_terms(m, ctx, smt2, evals)
                return res
        except z3.Z3Exception:
            pass
    return {"verdict": "unknown", "backend": "z3", "time": time.time() - t0, "reason": reason}


def _has_quantifier(e, seen=None):
    seen = set() if seen is None else seen
    stack = [e]
    while stack:
        x = stack.pop()
        if x.get_id() in seen:
            continue
        seen.add(x.get_id())
        if z3.is_quantifier(x):
            return True
        stack.extend(x.children())
    return False


def run_z3_weakened(smt2, timeout_ms, evals=None, seed=0, prefer=None):
    """Refutation aid for obligations both solvers left open: drop the quantified HYPOTHESES (keep the negated goal and every
    quantifier-free hypothesis) and look for a model.  Such a model is only a CANDIDATE counterexample -- it need not satisfy the
    dropped hypotheses -- so the result is marked `weakened` and counts as a refutation only if the replay on the real code confirms it."""
    ctx = z3.Context()
    t0 = time.time()
    try:
        fs = list(z3.parse_smt2_string(smt2, ctx=ctx))
        if len(fs) < 2:
            return None
        hyps, neg_goal = fs[:-1], fs[-1]
        kept = [h for h in hyps if not _has_quantifier(h)]
        if len(kept) == len(hyps):
            return None
        s = z3.Solver(ctx=ctx)
        s.set("timeout", int(timeout_ms))
        for h in kept:
            s.add(h)
        s.add(neg_goal)
        if prefer:
            decls = "\n".join(l for l in smt2.splitlines() if l.startswith("(declare-") or l.startswith("(define-"))
            s.push()
            for p in (prefer[-1] if isinstance(prefer[0], list) else prefer):
                try:
                    for f in z3.parse_smt2_string(decls + f"\n(assert {p})", ctx=ctx):
                        s.add(f)
                except z3.Z3Exception:
                    continue
            if s.check() != z3.sat:
                s.pop()
                if s.check() != z3.sat:
                    return None
        elif s.check() != z3.sat:
            return None
        m = s.model()
        res = {"verdict": "sat", "backend": "z3", "time": time.time() - t0, "model": _model_to_dict(m, ctx, smt2), "weakened": True,
               "note": f"candidate model of the negated goal and the {len(kept)} quantifier-free hypotheses ({len(hyps) - len(kept)} quantified hypotheses dropped)"}
        res["evals"] = _eval_terms(m, ctx, smt2, evals)
        return res
    except z3.Z3Exception:
        return None


def run_cvc5(smt2, timeout_ms, strings=False):
    t0 = time.time()
    txt = smt2
    if "(set-logic" not in txt:
        txt = "(set-logic ALL)\n" + txt
    txt = txt.replace("(check-sat)", "(check-sat)")
    with tempfile.NamedTemporaryFile("w", suffix=".smt2", delete=False) as f:
        f.write(txt)
        fn = f.name
    cmd = ["/usr/bin/cvc5", f"--tlimit={int(timeout_ms)}", "--strings-exp", fn]
    try:
        p = subprocess.run(cmd, capture_output=True, text=True, timeout=timeout_ms / 1000 + 5)
        out = p.stdout.strip().splitlines()
        v = out[0].strip() if out else "unknown"
    except subprocess.TimeoutExpired:
        v = "unknown"
    finally:
        os.unlink(fn)
    if v not in ("sat", "unsat"):
        v = "unknown"
    return {"verdict": v, "backend": "cvc5", "time": time.time() - t0}


def _work(job):
    name, smt2, timeout_ms, use_cvc5, evals, seed, both, prefer = job
    r = run_z3(smt2, timeout_ms, evals, seed, prefer)
    if r["verdict"] == "unknown" and use_cvc5:
        r2 = run_cvc5(smt2, timeout_ms)
        r2["z3_time"] = r["time"]
        r2["z3_reason"] = r.get("reason")
        if r2["verdict"] != "unknown":
            r2["time"] += r["time"]
            return name, r2
        r["cvc5"] = "unknown"
        rw = run_z3_weakened(smt2, min(timeout_ms, 10000), evals, seed, prefer)
        if rw is not None:
            rw["time"] += r["time"] + r2["time"]
            return name, rw
    elif both and r["verdict"] == "unsat":
        r2 = run_cvc5(smt2, timeout_ms)
        r["cvc5_verdict"] = r2["verdict"]
        r["cvc5_time"] = r2["time"]
    return name, r


def discharge(obls, timeout_ms=30000, procs=None, use_cvc5=True, seed=0, both=False):
    procs = procs or min(16, os.cpu_count() or 4)
    jobs = []
    for o in obls:
        if o.smt2 is None:
            o.smt2 = o.to_smt2()
        canary = o.expect == "refutable"
        jobs.append((o.name, o.smt2, min(timeout_ms, 2500) if canary else timeout_ms, use_cvc5 and not canary,
                     o.info.get("evals"), seed, both, o.info.get("prefer")))
    by = {o.name: o for o in obls}
    if len(by) != len(obls):
        seen = set()
        for o in obls:
            if o.name in seen:
                raise RuntimeError(f"duplicate obligation name {o.name}")
            seen.add(o.name)
    if not jobs:
        return
    _run_jobs(jobs, by, min(procs, len(jobs)))


def _job_entry(conn, job):
    try:
        conn.send(_work(job))
    except BaseException as ex:  # never let a solver crash look like a verdict
        conn.send((job[0], {"verdict": "unknown", "backend": "none", "time": 0.0, "reason": f"solver process error: {type(ex).__name__}: {ex}"[:200]}))
    finally:
        conn.close()


def _run_jobs(jobs, by, procs):
    """One forked process per obligation, at most `procs` at a time, each with a HARD wall-clock deadline (the solvers' own
    timeouts are soft: z3 occasionally ignores them inside preprocessing / nonlinear tactics).  A job killed at its deadline is
    `unknown`, never a verdict."""
    ctx = mp.get_context("fork")
    pending = list(reversed(jobs))
    running = {}  # conn -> (proc, job, deadline, t0)
    from multiprocessing.connection import wait
    while pending or running:
        while pending and len(running) < procs:
            job = pending.pop()
            pr, pw = ctx.Pipe(duplex=False)
            p = ctx.Process(target=_job_entry, args=(pw, job), daemon=True)
            p.start()
            pw.close()
            # z3 budget + optional cvc5 budget (+ second opinion) + model evaluation slack
            hard = 3.0 * job[2] / 1000.0 + 20.0
            running[pr] = (p, job, time.time() + hard, time.time())
        ready = wait(list(running), timeout=0.5)
        now = time.time()
        for c in ready:
            p, job, dl, t0 = running.pop(c)
            try:
                name, r = c.recv()
            except (EOFError, OSError):
                name, r = job[0], {"verdict": "unknown", "backend": "none", "time": now - t0, "reason": "solver process died"}
            by[name].result = r
            c.close()
            p.join(1)
        for c in [c for c, (p, job, dl, t0) in running.items() if now > dl]:
            p, job, dl, t0 = running.pop(c)
            p.kill()
            p.join(1)
            c.close()
            by[job[0]].result = {"verdict": "unknown", "backend": "none", "time": now - t0, "reason": f"hard deadline ({int(dl - t0)}s) exceeded; solver killed"}
