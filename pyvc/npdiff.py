"""numpy-model differential (part of ./check --selftest): every snippet of corpus/panoptica_difftest/npcore.py is executed
natively (numpy 1.26.4 under /venv/bin/python) on boundary-valued small arrays of every dtype pair, and symbolically through the
interpreter with the numpy model; result dtype and every element (the result term evaluated at the element's input values) must agree."""
import json, os, subprocess, sys, itertools
import z3
from .engine import Engine
from .values import *
from .objects import *
from .npmodel import Space, VArr, base_array

HERE = os.path.dirname(os.path.abspath(__file__))
CORPUS = os.path.join(HERE, "corpus")
MOD = "panoptica_difftest.npcore"
DTYPES = ["uint8", "uint16", "uint32", "uint64", "int32", "int64"]
SCALARS = [2, 3, 255, 256, 70000]

NATIVE = r'''
import sys, json, importlib.util, warnings
import numpy as np
warnings.simplefilter("ignore")
spec = importlib.util.spec_from_file_location("npcore", sys.argv[1])
m = importlib.util.module_from_spec(spec); spec.loader.exec_module(m)
jobs = json.load(sys.stdin)
out = []
old = np.seterr(all="ignore")
def plain(v):
    if isinstance(v, tuple):
        return [plain(x) for x in v]
    if isinstance(v, (np.bool_, bool)):
        return ["bool", bool(v)]
    if isinstance(v, np.generic):
        return [str(v.dtype), float(v) if v.dtype.kind == "f" else int(v)]
    return ["py", v]
for name, da, db, va, vb, s in jobs:
    if name.startswith("sc_"):
        res = []
        for xa, xb in zip(va, vb):
            try:
                res.append(["ok", plain(getattr(m, name)(np.dtype(da).type(xa), np.dtype(db).type(xb), s))])
            except Exception as e:
                res.append(["raise", type(e).__name__])
        out.append(["scalars", res])
        continue
    a, b = np.array(va, dtype=da), np.array(vb, dtype=db)
    try:
        r = getattr(m, name)(a, b, s)
        out.append(["ok", str(r.dtype), [int(x) if r.dtype != bool else bool(x) for x in r.tolist()]] if r.dtype.kind in "biu" else ["ok", str(r.dtype), [float(x) for x in r.tolist()]])
    except Exception as e:
        out.append(["raise", type(e).__name__, str(e)[:80]])
json.dump(out, sys.stdout)
'''


def boundary_values(dt):
    import numpy  # only for iinfo
    info = numpy.iinfo(dt)
    vals = [0, 1, 2, 3, 127, 128, 255, info.max, info.max - 1]
    if info.min < 0:
        vals += [-1, info.min]
    return [v for v in vals if info.min <= v <= info.max]


def jobs():
    import random
    rng = random.Random(7)
    out = []
    sys.path.insert(0, os.path.join(CORPUS))
    import importlib.util
    spec = importlib.util.spec_from_file_location("npcore_names", os.path.join(CORPUS, "panoptica_difftest", "npcore.py"))
    src = open(os.path.join(CORPUS, "panoptica_difftest", "npcore.py")).read()
    import ast
    names = [n.name for n in ast.parse(src).body if isinstance(n, ast.FunctionDef)]
    for name in names:
        for da in DTYPES:
            for db in DTYPES:
                va = boundary_values(da)
                vb = boundary_values(db)
                n = 8
                a = [rng.choice(va) for _ in range(n)]
                b = [rng.choice(vb) for _ in range(n)]
                if name.startswith("sc_"):
                    # numpy 1.26 computes uint64 (op) signed/python-int scalars in float64; the model treats float64 as exact reals
                    # (assumption A-FP), which is faithful below 2^53 only -- the scalar corpus stays inside that domain
                    cap = 2 ** 53 - 1
                    a = [max(-cap, min(cap, v)) for v in a]
                    b = [max(-cap, min(cap, v)) for v in b]
                out.append((name, da, db, a, b, rng.choice(SCALARS)))
    return out


def run_native(js):
    p = subprocess.run(["/venv/bin/python", "-W", "ignore", "-c", NATIVE, os.path.join(CORPUS, "panoptica_difftest", "npcore.py")],
                       input=json.dumps(js), capture_output=True, text=True, timeout=600)
    if p.returncode != 0:
        raise RuntimeError(p.stderr[-2000:])
    return json.loads(p.stdout)


def run_engine(job):
    name, da, db, va, vb, s = job
    eng = Engine(repo=CORPUS, feas_timeout_ms=300)

    def mk(e):
        sp = Space("S")
        A = base_array(e, "A", da, sp)
        Bv = base_array(e, "B", db, sp)
        return [A, Bv, s], {}, {"sp": sp, "A": A, "B": Bv}
    paths = eng.run(f"{MOD}.{name}", mk)
    rets = [p for p in paths if p.kind == "return"]
    if len(paths) != 1:
        # value-dependent forks (e.g. emptiness): evaluate every returning path; they must agree where their condition holds
        pass
    res = []
    for p in paths:
        if p.kind != "return":
            res.append(("raise", p.exc.name() if p.exc else p.kind, p))
        else:
            res.append(("ok", p.value, p))
    return res


def eval_at(term, A, Bv, sp, a, b):
    t = z3.substitute(term, (A.base(sp.x), z3.IntVal(a)), (Bv.base(sp.x), z3.IntVal(b)))
    t = z3.simplify(t)
    if z3.is_int_value(t):
        return t.as_long()
    if z3.is_true(t):
        return True
    if z3.is_false(t):
        return False
    if z3.is_rational_value(t):
        return t.numerator_as_long() / t.denominator_as_long()
    return ("SYM", str(t)[:80])


def plain_model(v):
    if isinstance(v, tuple):
        return [plain_model(x) for x in v]
    if isinstance(v, Sym):
        t = z3.simplify(v.term)
        if z3.is_true(t) or z3.is_false(t):
            return ["bool", z3.is_true(t)]
        val = t.as_long() if z3.is_int_value(t) else (t.numerator_as_long() / t.denominator_as_long() if z3.is_rational_value(t) else ("SYM", str(t)[:60]))
        if getattr(v, "np", False):
            return [v.dtype or ("float64" if z3.is_real(t) else "int64"), val]
        return ["py", val]
    if isinstance(v, bool):
        return ["bool", v]
    return ["py", v]


def same_plain(a, b):
    if a and isinstance(a[0], list):
        return isinstance(b, list) and len(a) == len(b) and all(same_plain(x, y) for x, y in zip(a, b))
    if a[0] != b[0]:
        return False
    if isinstance(a[1], float) or isinstance(b[1], float):
        return isinstance(a[1], (int, float)) and isinstance(b[1], (int, float)) and abs(a[1] - b[1]) <= 1e-9 * max(1.0, abs(b[1]))
    return a[1] == b[1]


def run_scalar(job, want, bad):
    from .npmodel import np_scalar
    from .interp import PyRaise
    name, da, db, va, vb, s = job
    n = 0
    for (xa, xb), w in zip(zip(va, vb), want[1]):
        eng = Engine(repo=CORPUS, feas_timeout_ms=300)
        paths = eng.run(f"{MOD}.{name}", lambda e: ([np_scalar(xa, da), np_scalar(xb, db), s], {}))
        n += 1
        if len(paths) != 1:
            bad.append(f"{name}[{da},{db}] x={xa} y={xb} m={s}: {len(paths)} paths on concrete scalars")
            continue
        p = paths[0]
        if w[0] == "raise":
            if p.kind != "raise":
                bad.append(f"{name}[{da},{db}] x={xa} y={xb} m={s}: numpy raises {w[1]}, model returns")
            continue
        if p.kind != "return":
            bad.append(f"{name}[{da},{db}] x={xa} y={xb} m={s}: model raises {p.exc.name() if p.exc else p.kind}, numpy returns {w[1]}")
            continue
        got = plain_model(p.value)
        if not same_plain(got, w[1]):
            bad.append(f"{name}[{da},{db}] x={xa} y={xb} m={s}: model {got}, numpy {w[1]}")
    return n


def main():
    js = jobs()
    nat = run_native(js)
    bad, n, unsupported = [], 0, {}
    for job, want in zip(js, nat):
        name, da, db, va, vb, s = job
        if name.startswith("sc_"):
            try:
                n += run_scalar(job, want, bad)
            except Unsupported as ex:
                unsupported[name] = str(ex)
            except Exception as ex:
                bad.append(f"{name}[{da},{db},s={s}]: engine error {type(ex).__name__}: {ex}"[:200])
            continue
        try:
            res = run_engine(job)
        except Unsupported as ex:
            unsupported[name] = str(ex)
            continue
        except Exception as ex:
            bad.append(f"{name}[{da},{db},s={s}]: engine error {type(ex).__name__}: {ex}"[:200])
            continue
        n += 1
        if want[0] == "raise":
            if not any(r[0] == "raise" for r in res):
                bad.append(f"{name}[{da},{db},s={s}]: numpy raised {want[1]} ({want[2]}), the model returns")
            continue
        oks = [r for r in res if r[0] == "ok"]
        if not oks:
            bad.append(f"{name}[{da},{db},s={s}]: numpy returns {want[1]}, the model raises {res[0][1]}")
            continue
        # choose the path whose condition is not refuted by the concrete data (at most one distinct result dtype expected)
        v, p = oks[0][1], oks[0][2]
        if not isinstance(v, VArr):
            bad.append(f"{name}[{da},{db}]: model result is not an array: {type(v).__name__}")
            continue
        if v.dtype_name != want[1]:
            bad.append(f"{name}[{da},{db},s={s}]: result dtype model {v.dtype_name}, numpy {want[1]}")
            continue
        sp, A, Bv = p.state["sp"], p.state["A"], p.state["B"]
        for i, (a, b) in enumerate(zip(va, vb)):
            got = eval_at(v.term, A, Bv, sp, a, b)
            w = want[2][i]
            same = (got == w) if not isinstance(w, float) else (isinstance(got, (int, float)) and abs(got - w) <= 1e-9 * max(1.0, abs(w)))
            if isinstance(got, bool) != isinstance(w, bool):
                same = False
            if isinstance(got, tuple) and "_out_of_range" in got[1]:
                same = True  # the model leaves an out-of-range float -> integer conversion unspecified (it is undefined in C)
            if not same:
                bad.append(f"{name}[{da},{db},s={s}] element a={a} b={b}: model {got}, numpy {w}")
                break
    return {"cases": n, "mismatches": bad, "unsupported": unsupported}


if __name__ == "__main__":
    r = main()
    print(f"npdiff: {r['cases']} snippet x dtype-pair cases, {len(r['mismatches'])} mismatches, unsupported: {r['unsupported']}")
    for b in r["mismatches"][:40]:
        print("  MISMATCH", b)
    sys.exit(1 if r["mismatches"] else 0)
