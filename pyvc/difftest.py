"""Engine-vs-CPython differential on pyvc/corpus (part of ./check --selftest).
1. concrete: every corpus function on every listed argument tuple, natively and through the interpreter: same value / same exception type;
2. symbolic: integer functions run once with symbolic arguments; for each grid point exactly one path condition must hold and that
   path's symbolic result, evaluated at the point, must equal the CPython result."""
import importlib.util, os, sys, copy
import z3
from .engine import Engine
from .values import *
from .objects import *

HERE = os.path.dirname(os.path.abspath(__file__))
CORPUS = os.path.join(HERE, "corpus")
MOD = "panoptica_difftest.core"


def native_module():
    spec = importlib.util.spec_from_file_location("panoptica_difftest_native", os.path.join(CORPUS, "panoptica_difftest", "core.py"))
    m = importlib.util.module_from_spec(spec)
    sys.modules[spec.name] = m
    spec.loader.exec_module(m)
    return m


def norm(v):
    """engine value -> plain python value"""
    if isinstance(v, Sym):
        t = z3.simplify(v.term)
        if z3.is_int_value(t):
            return t.as_long()
        if z3.is_rational_value(t):
            return t.numerator_as_long() / t.denominator_as_long()
        if z3.is_true(t):
            return True
        if z3.is_false(t):
            return False
        if z3.is_string_value(t):
            return t.as_string()
        return ("SYM", str(t))
    if isinstance(v, tuple):
        return tuple(norm(x) for x in v)
    if isinstance(v, list):
        return [norm(x) for x in v]
    if isinstance(v, dict):
        return {norm(k): norm(x) for k, x in v.items()}
    if isinstance(v, (set, frozenset)):
        return {norm(x) for x in v}
    if isinstance(v, EnumMember):
        return ("ENUM", v._name)
    return v


def close(a, b):
    if isinstance(a, float) or isinstance(b, float):
        import math
        if isinstance(a, float) and isinstance(b, float) and (math.isnan(a) or math.isnan(b) or math.isinf(a) or math.isinf(b)):
            return (math.isnan(a) and math.isnan(b)) or a == b
        try:
            return abs(a - b) <= 1e-12 * max(1.0, abs(a), abs(b)) and isinstance(a, bool) == isinstance(b, bool)
        except TypeError:
            return False
    if isinstance(a, (tuple, list)) and isinstance(b, (tuple, list)):
        return type(a) == type(b) and len(a) == len(b) and all(close(x, y) for x, y in zip(a, b))
    if isinstance(a, dict) and isinstance(b, dict):
        return list(a.keys()) == list(b.keys()) and all(close(a[k], b[k]) for k in a)
    if isinstance(a, bool) != isinstance(b, bool):
        return False
    return a == b


def native_run(f, args):
    try:
        return ("return", f(*copy.deepcopy(args)))
    except Exception as e:
        return ("raise", type(e).__name__)


def engine_run(eng, name, args):
    def mk(e):
        return [copy.deepcopy(a) for a in args], {}
    paths = eng.run(f"{MOD}.{name}", mk)
    if len(paths) != 1:
        return ("paths", len(paths))
    p = paths[0]
    if p.kind == "return":
        return ("return", norm(p.value))
    if p.kind == "raise":
        return ("raise", p.exc.name())
    return (p.kind, None)


def subst_eval(term, binding):
    t = z3.simplify(z3.substitute(term, *binding))
    return t


def sym_result_at(value, binding):
    if isinstance(value, Sym):
        t = subst_eval(value.term, binding)
        return norm(type(value)(t)) if not isinstance(value, SymInt) else norm(SymInt(t))
    if isinstance(value, tuple):
        return tuple(sym_result_at(x, binding) for x in value)
    if isinstance(value, list):
        return [sym_result_at(x, binding) for x in value]
    return norm(value)


def main(verbose=False):
    nat = native_module()
    bad, n_conc, n_sym = [], 0, 0
    for name, cases in nat.CASES.items():
        for args in cases:
            eng = Engine(repo=CORPUS)  # fresh engine per case: module state (mutable defaults) starts as in a fresh interpreter
            exp_mod = native_module()
            want = native_run(getattr(exp_mod, name), args)
            try:
                got = engine_run(eng, name, args)
            except Exception as ex:
                got = ("engine-error", f"{type(ex).__name__}: {ex}"[:120])
            n_conc += 1
            if got[0] != want[0] or (want[0] == "return" and not close(got[1], want[1])) or (want[0] == "raise" and got[1] != want[1]):
                bad.append(f"concrete {name}{args}: engine {got!r}  CPython {want!r}")
    for name, grid in nat.SYMBOLIC.items():
        f = getattr(nat, name)
        nargs = len(grid[0])
        syms = [z3.Int(f"a{i}") for i in range(nargs)]
        eng = Engine(repo=CORPUS)
        try:
            paths = eng.run(f"{MOD}.{name}", lambda e: ([SymInt(s) for s in syms], {}))
        except Exception as ex:
            bad.append(f"symbolic {name}: engine error {type(ex).__name__}: {ex}"[:200])
            continue
        for pt in grid:
            n_sym += 1
            binding = [(s, z3.IntVal(v)) for s, v in zip(syms, pt)]
            holds = [p for p in paths if z3.is_true(subst_eval(z3.And(*p.pc) if p.pc else z3.BoolVal(True), binding))]
            want = native_run(f, pt)
            if len(holds) != 1:
                bad.append(f"symbolic {name}{pt}: {len(holds)} path conditions hold (of {len(paths)})")
                continue
            p = holds[0]
            if p.kind == "raise":
                got = ("raise", p.exc.name())
            else:
                got = ("return", sym_result_at(p.value, binding))
            if got[0] != want[0] or (want[0] == "return" and not close(got[1], want[1])) or (want[0] == "raise" and got[1] != want[1]):
                bad.append(f"symbolic {name}{pt}: engine {got!r}  CPython {want!r}")
    return {"concrete_cases": n_conc, "symbolic_points": n_sym, "mismatches": bad}


if __name__ == "__main__":
    r = main()
    print(f"difftest: {r['concrete_cases']} concrete cases, {r['symbolic_points']} symbolic grid points, {len(r['mismatches'])} mismatches")
    for b in r["mismatches"][:40]:
        print("  MISMATCH", b)
    sys.exit(1 if r["mismatches"] else 0)
