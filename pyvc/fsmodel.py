"""Ghost file system, pathlib / open / csv models and extended floats (nan, +-inf) for the aggregator / statistics
code (C16-C18).  Trusted contracts: atomic create, atomic single-row append, csv round trip of a list of cells,
float(str(x)) == x."""
from __future__ import annotations
import z3
from .values import *
from .objects import *
from .interp import PyRaise


class XFloat:
    """float(cell): kind 0 finite (value), 1 nan, 2 +inf, 3 -inf"""

    def __init__(self, kind, value):
        self.kind = kind  # z3 Int
        self.value = value  # z3 Real

    def __ne__(self, o):
        if isinstance(o, float) and o == float("inf"):
            return wrap(self.kind != 2)
        if isinstance(o, float) and o == float("-inf"):
            return wrap(self.kind != 3)
        raise Unsupported("XFloat comparison")

    def __eq__(self, o):
        r = self.__ne__(o)
        return sym_not(r)

    __hash__ = object.__hash__

    def pyvc_float(self):
        return self

    def isnan(self):
        return wrap(self.kind == 1)

    def isinf(self):
        return wrap(z3.Or(self.kind == 2, self.kind == 3))


class Cell:
    """a csv cell as read back: empty or the text of a float"""

    def __init__(self, empty, xf, text=None):
        self.empty = empty  # z3 Bool
        self.xf = xf
        self.text = text

    def pyvc_len(self):
        return wrap(z3.If(self.empty, z3.IntVal(0), z3.IntVal(3)))

    def pyvc_float(self):
        if cur().truth(wrap(self.empty)):
            raise PyRaise(PyExc(ValueError, ("could not convert string to float: ''",)))
        return self.xf


class GhostFile:
    def __init__(self, fs, key, mode):
        self.fs, self.key, self.mode = fs, key, mode
        self.closed = False

    def __enter__(self):
        return self

    def __exit__(self, *a):
        self.close()
        return False

    def close(self):
        if not self.closed:
            self.closed = True
            self.fs.op("close", self.key)


class GhostFS:
    """path -> None (absent) | list of rows.  Every operation is logged with the set of locks held."""

    def __init__(self, eng):
        self.eng = eng
        self.files = {}
        self.dirs = set()
        self.crash_at = None  # index of the FS operation after which the process is killed
        self.nops = 0

    def key(self, p):
        if isinstance(p, PathModel):
            p = p.s
        if isinstance(p, SymStr):
            raise Unsupported("symbolic path")
        return str(p)

    def op(self, kind, key, **info):
        eng = self.eng
        held = tuple(getattr(eng, "held_locks", []))
        eng.event("fs", kind, key, held, info.get("rows"))
        self.nops += 1
        if self.crash_at is not None and self.nops > self.crash_at:
            from .interp import PathEnd
            raise PathEnd("crash")

    def exists(self, p):
        k = self.key(p)
        self.op("exists", k)
        return self.files.get(k) is not None or k in self.dirs

    def open(self, p, mode="r", **kw):
        k = self.key(p)
        if "a" in mode or "w" in mode:
            if self.files.get(k) is None or "w" in mode:
                self.files[k] = []
                self.op("create", k)
            else:
                self.op("open-append", k)
        else:
            if self.files.get(k) is None:
                self.op("open-missing", k)
                raise PyRaise(PyExc(FileNotFoundError, (k,)))
            self.op("open-read", k)
        return GhostFile(self, k, mode)

    def append_row(self, f, row):
        self.files[f.key] = list(self.files[f.key]) + [list(row)]
        self.op("append-row", f.key, rows=[list(row)])

    def read_rows(self, f):
        self.op("read", f.key)
        return [list(r) for r in self.files[f.key]]

    def remove(self, p):
        k = self.key(p)
        if self.files.get(k) is None:
            self.op("remove-missing", k)
            raise PyRaise(PyExc(FileNotFoundError, (k,)))
        self.files[k] = None
        self.op("remove", k)


class PathModel:
    def __init__(self, eng, s):
        self.eng = eng
        if isinstance(s, PathModel):
            s = s.s
        self.s = s

    @property
    def parent(self):
        s = self.s
        return PathModel(self.eng, s.rsplit("/", 1)[0] if "/" in s else ".")

    @property
    def name(self):
        return self.s.rsplit("/", 1)[-1]

    def joinpath(self, *parts):
        s = self.s
        for p in parts:
            s = s.rstrip("/") + "/" + (p.s if isinstance(p, PathModel) else p)
        return PathModel(self.eng, s)

    def exists(self):
        return self.eng.ghost_fs.exists(self)

    def mkdir(self, *a, **k):
        self.eng.ghost_fs.dirs.add(self.s)
        self.eng.ghost_fs.op("mkdir", self.s)

    def pyvc_str(self):
        return self.s

    def __fspath__(self):
        return self.s

    def __eq__(self, o):
        return isinstance(o, PathModel) and o.s == self.s

    def __hash__(self):
        return hash(self.s)

    def __repr__(self):
        return f"Path({self.s!r})"


class _PathType:
    def __init__(self, eng):
        self.eng = eng

    def __call__(self, s):
        return PathModel(self.eng, s)

    def pyvc_isinstance(self, v):
        return isinstance(v, PathModel)


class CsvModel:
    def __init__(self, eng):
        self.eng = eng

    def reader(self, f, **kw):
        return self.eng.ghost_fs.read_rows(f)

    def writer(self, f, **kw):
        fs = self.eng.ghost_fs

        class W:
            def writerow(self_, row):
                cells = [cell_of(fs.eng, c) for c in fs.eng.iterate(row)]
                fs.append_row(f, cells)
        return W()


class Written:
    """what csv.writer puts into the file for a python value (str(x) for non-strings, '' for None)"""

    def __init__(self, value):
        self.value = value

    def __repr__(self):
        return f"Written({self.value!r})"

    def __eq__(self, o):
        return isinstance(o, Written) and (o.value is self.value or (not isinstance(o.value, Sym) and not isinstance(self.value, Sym) and o.value == self.value))

    __hash__ = object.__hash__

    # reading it back --------------------------------------------------
    def pyvc_len(self):
        v = self.value
        if v is None:
            return 0
        if isinstance(v, str):
            return len(v)
        return 3

    def pyvc_float(self):
        v = self.value
        if v is None or (isinstance(v, str) and v == ""):
            raise PyRaise(PyExc(ValueError, ("could not convert string to float: ''",)))
        if isinstance(v, str):
            try:
                return float(v)
            except ValueError as ex:
                raise PyRaise(PyExc(ValueError, ex.args))
        if isinstance(v, bool):
            raise PyRaise(PyExc(ValueError, ("could not convert string to float: 'True'",)))
        return v  # trusted: float(str(x)) == x for ints below 2^53 and floats


def cell_of(eng, c):
    if isinstance(c, (str, SymStr, Cell, Written)):
        return c
    return Written(c)


def install(eng):
    eng.ghost_fs = GhostFS(eng)
    eng.models["pathlib.Path!obj"] = _PathType(eng)
    eng.models["csv"] = CsvModel(eng)

    def py_open(p, mode="r", *a, **k):
        return eng.ghost_fs.open(p, mode, **k)
    eng.builtins["open"] = py_open
