"""Object model of interpreted (repo) code: functions, classes, instances,
enum members, opaque externals."""
from __future__ import annotations
import ast


class FuncInfo:
    def __init__(self, node, module, closure=None, cls=None, qualname=None):
        self.node = node  # ast.FunctionDef | ast.Lambda
        self.module = module  # ModuleInfo
        self.closure = closure  # enclosing Scope or None
        self.cls = cls  # ClassInfo (for name mangling) or None
        self.name = getattr(node, "name", "<lambda>")
        self.qualname = qualname or self.name
        self.defaults = []  # evaluated at def time
        self.kw_defaults = {}
        self.kind = "function"  # function|property|classmethod|staticmethod
        self.wrapped_by = []  # decorator callables applied (outermost last)

    def __repr__(self):
        return f"<func {self.qualname}>"


class BoundMethod:
    def __init__(self, func, self_obj):
        self.func = func
        self.self_obj = self_obj

    def __repr__(self):
        return f"<bound {self.func!r} of {self.self_obj!r}>"


class ClassInfo:
    def __init__(self, name, module, bases, node=None):
        self.name = name
        self.module = module
        self.bases = bases  # list of ClassInfo | python classes
        self.node = node
        self.attrs = {}  # class namespace
        self.is_enum = False
        self.members = {}  # enum members by name (ordered)
        self.dataclass_fields = None
        self.qualname = f"{module.name}.{name}" if module else name

    def mro(self):
        out = [self]
        for b in self.bases:
            if isinstance(b, ClassInfo):
                for c in b.mro():
                    if c not in out:
                        out.append(c)
            else:
                if b not in out:
                    out.append(b)
        return out

    def lookup(self, name):
        for c in self.mro():
            if isinstance(c, ClassInfo) and name in c.attrs:
                return c.attrs[name], c
        return None, None

    def is_subclass_of(self, other):
        return other in self.mro()

    def __repr__(self):
        return f"<class {self.qualname}>"


class SObj:
    """Instance of an interpreted class."""
    _ids = [0]

    def __init__(self, cls):
        object.__setattr__(self, "cls", cls)
        object.__setattr__(self, "attrs", {})
        SObj._ids[0] += 1
        object.__setattr__(self, "oid", SObj._ids[0])

    def __repr__(self):
        return f"<{self.cls.name}#{self.oid}>"


class EnumMember:
    def __init__(self, cls, name, value, index):
        self.cls = cls
        self._name = name
        self._value = value
        self.index = index

    def __eq__(self, other):
        if isinstance(other, EnumMember):
            return self.cls is other.cls and self._name == other._name
        if isinstance(other, str):
            return self._name == other
        return False

    def __ne__(self, other):
        return not self.__eq__(other)

    def __hash__(self):
        return hash(("enum", self._name))

    def __repr__(self):
        return f"{self.cls.name}.{self._name}"


class SymEnum:
    """A symbolic member of an enum class: idx is a z3 Int constrained to
    [0, n).  Any use that needs the concrete member forks (Engine.concretize)."""

    def __init__(self, cls, idx):
        self.cls = cls
        self.idx = idx

    def __repr__(self):
        return f"SymEnum({self.cls.name},{self.idx})"

    def __hash__(self):
        return hash(("symenum", self.cls.name, self.idx.hash()))


class SymOpt:
    """value-or-None with a symbolic None-flag (`x is None` forks)."""

    def __init__(self, is_none, value):
        self.is_none = is_none  # z3 Bool
        self.value = value

    def __repr__(self):
        return f"SymOpt({self.is_none},{self.value!r})"


class PyExc:
    """An exception raised by interpreted code: cls is a python exception
    class or a ClassInfo deriving from one."""

    def __init__(self, cls, args=(), obj=None):
        self.cls = cls
        self.args = args
        self.obj = obj

    def pyclass(self):
        c = self.cls
        if isinstance(c, ClassInfo):
            for b in c.mro():
                if isinstance(b, type):
                    return b
            return Exception
        return c

    def name(self):
        return self.cls.name if isinstance(self.cls, ClassInfo) else self.cls.__name__

    def __repr__(self):
        return f"PyExc({self.name()})"


class Opaque:
    """An external object the engine has no model for.  Attribute access gives
    another Opaque; calling it is Unsupported unless a model is registered
    under its dotted name."""

    def __init__(self, dotted):
        self.dotted = dotted

    def __repr__(self):
        return f"<opaque {self.dotted}>"


class ModuleInfo:
    def __init__(self, name, path=None):
        self.name = name
        self.path = path
        self.ns = {}
        self.source = None
        self.tree = None

    def __repr__(self):
        return f"<module {self.name}>"


class Scope:
    def __init__(self, parent=None, module=None, cls=None):
        self.vars = {}
        self.parent = parent
        self.module = module
        self.cls = cls  # class whose method this is (name mangling)
        self.globals_decl = set()

    def lookup(self, name):
        s = self
        while s is not None:
            if name in s.vars:
                return s.vars[name], True
            s = s.parent
        return None, False
