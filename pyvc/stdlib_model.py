"""Models (trusted contracts) of the standard-library surface panoptica uses:
multiprocessing (Lock, Pool.starmap, set_start_method), os, atexit, warnings,
itertools, math.  File-system / csv / pathlib models live in fsmodel.py."""
from __future__ import annotations
import itertools, math
import z3
from .values import *
from .objects import *
from .interp import PyRaise


class GhostLock:
    _n = [0]

    def __init__(self, eng, name=None, kind="process-shared"):
        self.eng = eng
        self.kind = kind  # 'process-shared' (multiprocessing.Lock) | 'thread-only' (threading.Lock)
        GhostLock._n[0] += 1
        self.name = name or f"lock{GhostLock._n[0]}"
        eng.__dict__.setdefault("lock_kinds", {})[self.name] = kind

    def __enter__(self):
        self.acquire()
        return self

    def __exit__(self, *a):
        self.release()
        return False

    def acquire(self, *a, **k):
        held = self.eng.__dict__.setdefault("held_locks", [])
        if self.name in held:
            self.eng.event("self-deadlock", self.name)
            self.eng.tags.add("self-deadlock")
        self.eng.event("acquire", self.name, tuple(held))
        held.append(self.name)
        return True

    def release(self):
        held = self.eng.__dict__.setdefault("held_locks", [])
        if self.name in held:
            held.remove(self.name)
        self.eng.event("release", self.name)

    def __repr__(self):
        return f"<GhostLock {self.name}>"


class PoolModel:
    """multiprocessing.Pool used only through `with Pool() as pool:
    pool.starmap(f, xs)`.  Trusted contract: starmap(f, xs) == [f(*x) for x in
    xs] (order preserving), f evaluated in a forked copy of the process, so
    nothing f writes is visible to the caller."""

    def __init__(self, eng, *a, **k):
        self.eng = eng
        eng.event("pool-create")

    def __enter__(self):
        self.eng.event("pool-enter")
        return self

    def __exit__(self, *a):
        if not getattr(self, "_closed", False):
            self._closed = True
            self.eng.event("pool-exit")
        return False

    def starmap(self, f, xs):
        eng = self.eng
        eng.event("starmap", getattr(f, "qualname", None) or repr(f))
        if isinstance(xs, SymSeq):
            i0, v = eng.eval_template(xs, lambda args: eng.call(f, list(args), {}))
            return SymSeq(xs.length, None, name=f"starmap({xs.name})", i0=i0, template=v)
        return [eng.call(f, list(eng.iterate(x)), {}) for x in eng.iterate(xs)]

    def map(self, f, xs):
        return [self.eng.call(f, [x], {}) for x in self.eng.iterate(xs)]

    def close(self):
        if not getattr(self, "_closed", False):
            self._closed = True
            self.eng.event("pool-exit")

    terminate = close

    def join(self):
        pass


class OsModel:
    name = "posix"

    def __init__(self, eng):
        self.eng = eng
        self.environ = {"PANOPTICA_CITATION_REMINDER": "false"}

    def remove(self, p):
        fs = self.eng.__dict__.get("ghost_fs")
        if fs is None:
            raise Unsupported("os.remove without ghost file system")
        return fs.remove(p)


def install(eng):
    M = eng.models
    M["multiprocessing.Lock!obj"] = lambda *a, **k: GhostLock(eng)
    M["multiprocessing.RLock!obj"] = lambda *a, **k: GhostLock(eng, kind="process-shared-reentrant")
    M["threading.Lock!obj"] = lambda *a, **k: GhostLock(eng, kind="thread-only")
    M["threading.RLock!obj"] = lambda *a, **k: GhostLock(eng, kind="thread-only")

    class _Threading:
        Lock = staticmethod(lambda *a, **k: GhostLock(eng, kind="thread-only"))
        RLock = staticmethod(lambda *a, **k: GhostLock(eng, kind="thread-only"))
    M["threading"] = _Threading()
    M["multiprocessing.Pool!obj"] = lambda *a, **k: PoolModel(eng, *a, **k)
    M["multiprocessing.Process!obj"] = object

    def set_start_method(m, *a, **k):
        eng.event("set_start_method", m)
        eng.__dict__.setdefault("start_methods", []).append(m)

    M["multiprocessing.set_start_method!obj"] = set_start_method

    class _MPPool:
        Pool = object

    class _MP:
        pool = _MPPool()

    M["multiprocessing"] = _MP()
    M["os"] = OsModel(eng)

    class _AtExit:
        def register(self, f, *a, **k):
            eng.event("atexit-register", getattr(f, "func", f))
            eng.__dict__.setdefault("atexit_handlers", []).append(f)
            return f

    M["atexit"] = _AtExit()

    class _Warnings:
        def warn(self, *a, **k):
            eng.event("warn")

    M["warnings"] = _Warnings()
    M["itertools"] = itertools
    import operator as _operator

    class _Operator:
        """operator.* on plain python values (in-place variants keep python's aliasing: iconcat(a, b) extends and returns a)"""

        def __getattr__(self, name):
            f = getattr(_operator, name)

            def call(*a):
                if any(isinstance(x, Sym) or eng.is_symbolic_collection(x) for x in a):
                    raise Unsupported(f"operator.{name} on symbolic values")
                return f(*a)
            return call
    M["operator"] = _Operator()

    class _Functools:
        def reduce(self, f, seq, *init):
            it = list(eng.iterate(seq))
            if init:
                acc = init[0]
            elif it:
                acc, it = it[0], it[1:]
            else:
                from .interp import PyRaise
                raise PyRaise(PyExc(TypeError, ("reduce() of empty iterable with no initial value",)))
            for x in it:
                acc = eng.call(f, [acc, x], {})
            return acc

        def __getattr__(self, name):
            raise Unsupported(f"functools.{name} is not modelled")
    M["functools"] = _Functools()
    M["math"] = math
    M["typing"] = type("T", (), {"TYPE_CHECKING": False})()
