"""C03 - Instance matching is a sound, conflict-free, maximal best-first
assignment (threshold matcher), monotone in the threshold, terminating."""
from __future__ import annotations
import z3
from pyvc.values import *
from pyvc.objects import *
from pyvc.interp import LoopSpec
from .common import *

LEVEL = "proof"
EXPLANATION = ("Loop-invariant proof of NaiveThresholdMatching._match_instances over a symbolic candidate sequence "
               "(any length, any scores/labels/threshold), per metric direction and many-to-one flag; statement clauses are "
               "postconditions at loop exit; threshold monotonicity by strong induction (base/step in z3).")
QN = IM + "NaiveThresholdMatching._match_instances"


def _sel_def(mm, sel, beats, many, tag=""):
    i, j = z3.Ints("si" + tag + " sj" + tag)
    conflict = z3.Or(mm.pred(j) == mm.pred(i), mm.ref(j) == mm.ref(i)) if not many else (mm.pred(j) == mm.pred(i))
    return z3.ForAll([i], sel(i) == z3.And(0 <= i, i < mm.n, beats(mm.score(i)),
                                          z3.Not(z3.Exists([j], z3.And(0 <= j, j < i, sel(j), conflict)))))


def _char(mm, sel, m, k):
    """Abstract view of the label map after k candidates: exactly the
    selected pairs among the first k."""
    p, j = z3.Ints("ap aj")
    A = z3.ForAll([p], z3.Implies(z3.Select(m.dom, p), z3.Exists([j], z3.And(0 <= j, j < k, sel(j), mm.pred(j) == p, mm.ref(j) == z3.Select(m.val, p)))))
    Bq = z3.ForAll([j], z3.Implies(z3.And(0 <= j, j < k, sel(j)), z3.And(z3.Select(m.dom, mm.pred(j)), z3.Select(m.val, mm.pred(j)) == mm.ref(j))))
    return A, Bq


def unit_match(ctx, mname, many):
    eng = ctx.engine()
    mm = MMPairs(mname)
    thr = z3.Real("thr")
    sel = z3.Function("sel", I, B)
    beats = lambda s: spec_beats(mname, s, thr)
    eng.summaries[FN + "_calc_matching_metric_of_overlapping_labels"] = mm.summary()

    def lm(scope):
        return as_symmap(local_labelmap(scope).attrs["labelmap"])

    def havoc(e, scope, it):
        local_labelmap(scope).attrs["labelmap"] = fresh_symmap(e, "lm")

    def inv(e, scope, k, it):
        A, Bq = _char(mm, sel, lm(scope), k)
        return [("sound", A), ("complete", Bq)]

    eng.loop_specs[(QN, 0)] = LoopSpec(inv, havoc, axioms=lambda e, s, it: [("sel", _sel_def(mm, sel, beats, many))])

    def mk(e):
        M = metric(e, mname)
        self_ = e.call(e.resolve(IM + "NaiveThresholdMatching"), [], dict(matching_metric=M, matching_threshold=SymReal(thr), allow_many_to_one=many))
        pair = e.new_obj(PP + "UnmatchedInstancePair", _ref_labels="REF_LABELS", _prediction_arr="PRED", _reference_arr="REF")
        return [self_, pair], {}

    paths = eng.run(QN, mk)
    tag = f"{mname}.{'many' if many else 'one'}"
    fn = "instance_matcher.NaiveThresholdMatching._match_instances"
    prefer = ["(<= n 5)"]
    rinfo = {"metric": mname, "many": many, "prefer": prefer}
    ctx.side_obligations(paths, f"{fn}[{tag}]", func=QN, replay="c03.match", info=rinfo)
    exits = [p for p in paths if p.kind == "return"]
    bodies = [p for p in paths if p.kind == "end"]
    ctx.expect(f"{tag}: exactly one normal exit path", len(exits) == 1)
    ctx.expect(f"{tag}: some loop-body path stores into the label map", any(any(ev[0] == "map-store" for ev in p.events) for p in bodies))
    ctx.expect(f"{tag}: some loop-body path skips the candidate", any(not any(ev[0] == "map-store" for ev in p.events) for p in bodies))
    for pi, p in enumerate(paths):
        if p.kind == "raise":
            # termination with a result for every valid input: no exception path may be feasible
            ctx.oblige(f"{fn}[{tag}]/no-exception({p.exc.name()})#p{pi}", p.pc, z3.BoolVal(False), func=QN, kind="no-raise", replay="c03.match", info=rinfo)
        if p.kind == "end":
            ctx.canary(f"{fn}[{tag}]/body#p{pi}", p.pc, func=QN)
    for p in exits:
        ctx.canary(f"{fn}[{tag}]/exit", p.pc, func=QN)
        ret = p.value
        ctx.expect(f"{tag}: returns the InstanceLabelMap", isinstance(ret, SObj) and ret.cls.name == "InstanceLabelMap")
        m = as_symmap(ret.attrs["labelmap"])
        D = lambda x: z3.Select(m.dom, x)
        V = lambda x: z3.Select(m.val, x)
        n, score, ref, pred = mm.n, mm.score, mm.ref, mm.pred
        pp, q, i, j = z3.Ints("pp qq ii jj")
        inr = lambda x: z3.And(0 <= x, x < n)
        assigned = lambda x: z3.And(D(pred(x)), V(pred(x)) == ref(x))
        goals = {
            "sound(every assigned pair is a candidate meeting the threshold)":
                z3.ForAll([pp], z3.Implies(D(pp), z3.Exists([j], z3.And(inr(j), pred(j) == pp, ref(j) == V(pp), beats(score(j)))))),
            "maximal(no eligible pair left with both partners free)":
                z3.ForAll([i], z3.Implies(z3.And(inr(i), beats(score(i))), z3.Or(D(pred(i)), z3.Exists([q], z3.And(D(q), V(q) == ref(i)))))),
            "best-first(blocked only by an earlier, at least as good, assigned pair)":
                z3.ForAll([i], z3.Implies(z3.And(inr(i), beats(score(i)), z3.Not(assigned(i))),
                                          z3.Exists([j], z3.And(0 <= j, j < i, assigned(j), spec_better_eq(mname, score(j), score(i)),
                                                                (pred(j) == pred(i)) if many else z3.Or(pred(j) == pred(i), ref(j) == ref(i)))))),
        }
        if not many:
            goals["one-to-one(each reference at most one prediction)"] = z3.ForAll(
                [pp, q], z3.Implies(z3.And(D(pp), D(q), pp != q), V(pp) != V(q)))
        for gname, g in goals.items():
            ctx.oblige(f"{fn}[{tag}]/post.{gname}", p.pc, g, func=QN, kind="post", replay="c03.match", info=rinfo)


def unit_monotone(ctx, mname, many):
    """Stricter threshold => subset of matches.  Uses the verified
    characterisation (loop invariant at exit) for two thresholds."""
    mm = MMPairs(mname)
    ts, tl = z3.Reals("thr_strict thr_loose")
    sel_s, sel_l = z3.Function("sel_s", I, B), z3.Function("sel_l", I, B)
    bs = lambda s: spec_beats(mname, s, ts)
    bl = lambda s: spec_beats(mname, s, tl)
    stricter = (ts <= tl) if SPEC_DECREASING[mname] else (ts >= tl)
    base = mm.facts() + [stricter, _sel_def(mm, sel_s, bs, many, "s"), _sel_def(mm, sel_l, bl, many, "l")]
    i, j = z3.Ints("mi mj")
    claim = lambda x: sel_s(x) == z3.And(sel_l(x), bs(mm.score(x)))
    tag = f"{mname}.{'many' if many else 'one'}"
    i0 = z3.Int("i0")
    step = z3.Implies(z3.And(0 <= i0, z3.ForAll([j], z3.Implies(z3.And(0 <= j, j < i0), claim(j)))), claim(i0))
    ctx.oblige(f"lemma.monotone[{tag}]/induction-step", base, step, func=QN, kind="lemma")
    ms = SymMap(z3.Const("dom_s", z3.ArraySort(I, B)), z3.Const("val_s", z3.ArraySort(I, I)))
    ml = SymMap(z3.Const("dom_l", z3.ArraySort(I, B)), z3.Const("val_l", z3.ArraySort(I, I)))
    As, Bs = _char(mm, sel_s, ms, mm.n)
    Al, Bl = _char(mm, sel_l, ml, mm.n)
    p = z3.Int("mp")
    concl = z3.ForAll([p], z3.Implies(z3.Select(ms.dom, p), z3.And(z3.Select(ml.dom, p), z3.Select(ml.val, p) == z3.Select(ms.val, p))))
    hyps = base + [As, Bs, Al, Bl, z3.ForAll([i], z3.Implies(i >= 0, claim(i)))]
    ctx.oblige(f"lemma.monotone[{tag}]/matches-shrink", hyps, concl, func=QN, kind="lemma")
    ctx.canary(f"lemma.monotone[{tag}]", hyps)


def unit_beats(ctx):
    """score_beats_threshold (both copies) against the statement; metric
    directions against the spec table."""
    eng = ctx.engine()
    s, t = z3.Reals("s t")
    for mname in ALL_METRICS:
        def mk(e, mname=mname):
            return [metric(e, mname), SymReal(s), SymReal(t)], {}
        paths = eng.run(MM + "Metric.score_beats_threshold", mk)
        for pi, p in enumerate(paths):
            ctx.expect(f"Metric.score_beats_threshold[{mname}] returns", p.kind == "return")
            if p.kind != "return":
                continue
            ctx.oblige(f"metrics.Metric.score_beats_threshold[{mname}]/post#p{pi}", p.pc,
                       to_term(p.value) == spec_beats(mname, s, t), func=MM + "Metric.score_beats_threshold",
                       info={"metric": mname}, replay="c03.beats")
    dec = z3.Bool("decreasing")

    def mk2(e):
        o = e.call(e.resolve(MM + "_Metric"), ["X", "x", SymBool(dec), None], {})
        return [o, SymReal(s), SymReal(t)], {}
    for pi, p in enumerate(eng.run(MM + "_Metric.score_beats_threshold", mk2)):
        if p.kind != "return":
            ctx.expect("_Metric.score_beats_threshold returns", False)
            continue
        spec = z3.Or(z3.And(z3.Not(dec), s >= t), z3.And(dec, s <= t))
        ctx.oblige(f"metrics._Metric.score_beats_threshold/post#p{pi}", p.pc, to_term(p.value) == spec, func=MM + "_Metric.score_beats_threshold", replay="c03.beats_raw")


def unit_labelmap(ctx):
    """InstanceLabelMap against its abstract view (partial map pred->ref)."""
    eng = ctx.engine()
    p, r = z3.Ints("p r")
    dom0 = z3.Const("dom0", z3.ArraySort(I, B))
    val0 = z3.Const("val0", z3.ArraySort(I, I))

    def mk(e):
        o = e.new_obj(LM, labelmap=SymMap(dom0, val0, name="lm"))
        return [o, SymInt(p), SymInt(r)], {}, {"obj": o}
    q = z3.Int("q")
    in_ran = z3.Exists([q], z3.And(dom0[q], val0[q] == r))
    specs = {
        "contains_or": z3.Or(dom0[p], in_ran),
        "contains_and": z3.And(dom0[p], in_ran),
    }
    for meth, spec in specs.items():
        for pi, pth in enumerate(eng.run(f"{LM}.{meth}", mk)):
            ctx.expect(f"{meth} returns", pth.kind == "return")
            if pth.kind == "return":
                ctx.oblige(f"instancelabelmap.{meth}/post#p{pi}", pth.pc, to_term(pth.value) == spec, func=f"{LM}.{meth}")
    for meth, arg, spec in (("contains_pred", p, dom0[p]), ("contains_ref", r, in_ran)):
        def mk1(e, arg=arg):
            o = e.new_obj(LM, labelmap=SymMap(dom0, val0, name="lm"))
            return [o, SymInt(arg)], {}
        for pi, pth in enumerate(eng.run(f"{LM}.{meth}", mk1)):
            ctx.expect(f"{meth} returns", pth.kind == "return")
            if pth.kind == "return":
                ctx.oblige(f"instancelabelmap.{meth}/post#p{pi}", pth.pc, to_term(pth.value) == spec, func=f"{LM}.{meth}")
    # add_labelmap_entry: raises iff p is mapped to a different ref; otherwise view updated at p only
    paths = eng.run(f"{LM}.add_labelmap_entry", mk)
    for pi, pth in enumerate(paths):
        pre_ok = z3.Or(z3.Not(dom0[p]), val0[p] == r)
        if pth.kind == "raise":
            ctx.oblige(f"instancelabelmap.add_labelmap_entry/raises-only-on-reassignment#p{pi}", pth.pc, z3.Not(pre_ok), func=f"{LM}.add_labelmap_entry")
        else:
            m = pth.state["obj"].attrs["labelmap"] if False else None
    # re-run capturing final state
    def mk3(e):
        o = e.new_obj(LM, labelmap=SymMap(dom0, val0, name="lm"))
        e._c03_obj = o
        return [o, SymInt(p), SymInt(r)], {}
    work_paths = []
    class _Cap:
        pass
    # engine.run re-creates objects per path; capture via state returned by make_args
    def mk4(e):
        o = e.new_obj(LM, labelmap=SymMap(dom0, val0, name="lm"))
        return [o, SymInt(p), SymInt(r)], {}, {"obj": o}
    for pi, pth in enumerate(eng.run(f"{LM}.add_labelmap_entry", mk4)):
        if pth.kind == "return":
            m = as_symmap(pth.state["obj"].attrs["labelmap"])
            k = z3.Int("k")
            post = z3.And(z3.Or(z3.Not(dom0[p]), val0[p] == r),
                          z3.ForAll([k], z3.And(z3.Select(m.dom, k) == z3.Or(dom0[k], k == p),
                                                z3.Select(m.val, k) == z3.If(k == p, r, val0[k]))))
            ctx.oblige(f"instancelabelmap.add_labelmap_entry/post(view updated at p only)#p{pi}", pth.pc, post, func=f"{LM}.add_labelmap_entry")



def sorted_contract(eng, rec):
    """Trusted contract of builtin sorted(seq, key=k, reverse=r) on a sequence of symbolic length: the result is a permutation of
    the input (bijection perm on [0, n)), ordered by key -- non-increasing when reverse is true, non-decreasing otherwise."""
    def model(v, key, reverse):
        if not isinstance(v, SymSeq):
            return NotImplemented
        if key is None or isinstance(reverse, Sym):
            raise Unsupported("sorted contract: key function and concrete reverse flag expected")
        eng.fresh_n += 1
        k = eng.fresh_n
        n = to_term(v.length)
        perm = z3.Function(f"perm!{k}", I, I)
        inv = z3.Function(f"perm_inv!{k}", I, I)
        i, j = z3.Ints(f"so_i!{k} so_j!{k}")
        out = SymSeq(v.length, lambda t: v.elem(perm(t)), name=f"sorted({v.name})")
        keyterm = lambda t: to_term(eng.call(key, [v.elem(perm(t))], {}), "real")
        inr = lambda t: z3.And(0 <= t, t < n)
        order = (keyterm(i) >= keyterm(j)) if reverse else (keyterm(i) <= keyterm(j))
        eng.assume(z3.And(z3.ForAll([i], z3.Implies(inr(i), z3.And(inr(perm(i)), inv(perm(i)) == i))),
                          z3.ForAll([i], z3.Implies(inr(i), z3.And(inr(inv(i)), perm(inv(i)) == i))),
                          z3.ForAll([i, j], z3.Implies(z3.And(inr(i), inr(j), i < j), order))), why="contract: sorted() = permutation ordered by key")
        rec.append({"perm": perm, "inv": inv, "reverse": bool(reverse), "input": v, "n": n})
        return out
    return model


def unit_scorer(ctx, mname):
    """_calc_matching_metric_of_overlapping_labels against the contract its callers assume (common.MMPairs): the candidate pairs of
    _calc_overlapping_labels, each exactly once as (score, (ref, pred)) with score = the matching metric of exactly that pair on
    (reference, prediction), ordered best first for the metric's direction."""
    eng = ctx.engine()
    n0 = z3.Int("n_cand")
    cref, cpred = z3.Function("cand_ref", I, I), z3.Function("cand_pred", I, I)
    scoref = z3.Function("metric_value", I, I, R)
    rec, calls = [], []
    i, j = z3.Ints("ui uj")

    def ol_summary(e, f, args, kwargs):
        kw = dict(kwargs)
        e.assume(z3.And(n0 >= 0, z3.ForAll([i], z3.Implies(z3.And(0 <= i, i < n0), z3.And(cref(i) > 0, cpred(i) > 0))),
                        z3.ForAll([i, j], z3.Implies(z3.And(0 <= i, i < n0, 0 <= j, j < n0, i != j), z3.Or(cref(i) != cref(j), cpred(i) != cpred(j))))),
                 why="contract of _calc_overlapping_labels (C09): distinct overlapping (ref, pred) pairs, positive labels")
        calls.append(("overlap", kw))
        return SymSeq(SymInt(n0), lambda t: (wrap(cref(t)), wrap(cpred(t))), name="overlapping")

    def metric_summary(e, f, args, kwargs):
        self_, a = args[0], list(args[1:])
        calls.append(("metric", a, dict(kwargs)))
        if len(a) != 4 or kwargs:
            raise Unsupported("metric called with an unexpected signature")
        return SymReal(scoref(to_term(a[2]), to_term(a[3])), True, "float64")
    eng.summaries[FN + "_calc_overlapping_labels"] = ol_summary
    eng.summaries[MM + "_Metric.__call__"] = metric_summary
    eng.models["sorted"] = sorted_contract(eng, rec)
    snaps = []

    def mk(e):
        del rec[:], calls[:]
        return ["PRED-ARRAY", "REF-ARRAY", "REF-LABELS", metric(e, mname)], {}

    def target(*a):
        out = eng.call(eng.resolve(FN + "_calc_matching_metric_of_overlapping_labels"), list(a), {})
        snaps.append((list(rec), list(calls)))
        return out
    paths = eng.run(target, mk)
    fn = FN + "_calc_matching_metric_of_overlapping_labels"
    nm = f"_functionals._calc_matching_metric_of_overlapping_labels[{mname}]"
    info = {"metric": mname}
    ctx.expect(f"{nm}: one returning path", len([p for p in paths if p.kind == "return"]) == 1)
    si = 0
    for pi, p in enumerate(paths):
        if p.kind != "return":
            ctx.oblige(f"{nm}/no-exception({p.exc.name() if p.exc else p.kind})#p{pi}", p.pc, z3.BoolVal(False), func=fn, replay="c03.scorer", info=info)
            continue
        srt, cl = snaps[si]
        si += 1
        out = p.value
        created = sum(1 for ev in p.events if ev[0] == "pool-create")
        closed = sum(1 for ev in p.events if ev[0] == "pool-exit")
        ctx.oblige(f"{nm}/lifetime(a worker pool created by the call is closed before it returns: no pool object outlives the call or crosses a fork)#p{pi}", [],
                   z3.BoolVal(created == closed and created <= 1), func=fn, replay="c03.scorer", info=dict(info, structural=True, created=created, closed=closed))
        ok_shape = isinstance(out, SymSeq) and len(srt) == 1
        ov = [c for c in cl if c[0] == "overlap"]
        ok_args = len(ov) == 1 and ov[0][1].get("prediction_arr") == "PRED-ARRAY" and ov[0][1].get("reference_arr") == "REF-ARRAY" and ov[0][1].get("ref_labels") == "REF-LABELS"
        mc = [c for c in cl if c[0] == "metric"]
        ok_metric = len(mc) >= 1 and all(c[1][0] == "REF-ARRAY" and c[1][1] == "PRED-ARRAY" for c in mc)
        ctx.oblige(f"{nm}/post(candidates come from _calc_overlapping_labels on the same arrays; the metric is called on (reference, prediction, ref label, pred label))#p{pi}",
                   [], z3.BoolVal(bool(ok_shape and ok_args and ok_metric)), func=fn, replay="c03.scorer", info=dict(info, structural=True))
        if not (ok_shape and ok_args and ok_metric):
            continue
        perm, n = srt[0]["perm"], srt[0]["n"]
        t = z3.Int("ut")
        e_ = out.elem(t)
        wf = isinstance(e_, tuple) and len(e_) == 2 and isinstance(e_[1], tuple) and len(e_[1]) == 2
        ctx.oblige(f"{nm}/post(elements are (score, (ref, pred)))#p{pi}", [], z3.BoolVal(bool(wf)), func=fn, replay="c03.scorer", info=info)
        if not wf:
            continue
        sc, rf, pr = to_term(e_[0], "real"), to_term(e_[1][0]), to_term(e_[1][1])
        inr = z3.And(0 <= t, t < n0)
        ctx.oblige(f"{nm}/post(as many entries as candidate pairs)#p{pi}", p.pc, to_term(out.length) == n0, func=fn, replay="c03.scorer", info=info)
        ctx.oblige(f"{nm}/post(entry t is the candidate pair perm(t) in (ref, pred) order with the metric value of exactly that pair)#p{pi}", p.pc + [inr],
                   z3.And(rf == cref(perm(t)), pr == cpred(perm(t)), sc == scoref(cref(perm(t)), cpred(perm(t)))), func=fn, replay="c03.scorer", info=info)
        t2 = z3.Int("ut2")
        e2 = out.elem(t2)
        sc2 = to_term(e2[0], "real")
        ctx.oblige(f"{nm}/post(best first: an earlier entry is at least as good in the metric's preferred direction)#p{pi}", p.pc + [inr, 0 <= t2, t2 < n0, t < t2],
                   spec_better_eq(mname, sc, sc2), func=fn, replay="c03.scorer", info=info)
        ctx.canary(f"{nm}#p{pi}", p.pc + [n0 >= 2], func=fn)


def build(ctx):
    ctx.trust("multiprocessing.Pool.starmap(f, xs) == [f(*x) for x in xs] (order preserving)",
              "builtin sorted(): stable permutation ordered by key",
              "ghost definition `sel` by well-founded recursion on the candidate index (conservative extension)",
              "induction schema over naturals applied outside the solver (base/step discharged, conclusion used as hypothesis)")
    ctx.unit("score_beats_threshold", lambda: unit_beats(ctx))
    ctx.unit("InstanceLabelMap", lambda: unit_labelmap(ctx))
    for mname in MATCH_METRICS:
        for many in (False, True):
            ctx.unit(f"_match_instances[{mname},{'many' if many else 'one'}]", lambda mname=mname, many=many: unit_match(ctx, mname, many))
            ctx.unit(f"monotone[{mname},{'many' if many else 'one'}]", lambda mname=mname, many=many: unit_monotone(ctx, mname, many))
    for mname in MATCH_METRICS:
        ctx.unit(f"scorer[{mname}]", lambda mname=mname: unit_scorer(ctx, mname))
    # match_instances = _match_instances followed by the relabelling of the prediction (C04), regenerated here
    include_stage(ctx, "C04")
    ctx.add_bounded("c03-enum", "c03.bounded")


def concretise(ctx, o, r):
    if (o.info or {}).get("stage"):
        return stage_concretise(ctx, o, r)
    m = r.get("model") or {}
    if o.replay == "c03.beats":
        ev = m
        return {"metric": o.info["metric"], "s": str(model_real(m.get("s", "0"))), "t": str(model_real(m.get("t", "0")))}
    if o.replay == "c03.beats_raw":
        return {"decreasing": m.get("decreasing", "False") == "True", "s": str(model_real(m.get("s", "0"))), "t": str(model_real(m.get("t", "0")))}
    if o.replay == "c03.scorer":
        return {"metric": o.info["metric"]}
    if o.replay != "c03.match":
        return None
    n = model_int(m.get("n", "0"))
    n = max(0, min(n, 8))
    sc, rf, pr = m.get("score"), m.get("ref"), m.get("pred")
    if n and not (isinstance(sc, list) and isinstance(rf, list) and isinstance(pr, list)):
        n = 0
    pairs = [[str(model_real(sc[i])), model_int(rf[i]), model_int(pr[i])] for i in range(n)]
    return {"metric": o.info["metric"], "many": o.info["many"] == "True" or o.info["many"] is True,
            "thr": str(model_real(m.get("thr", "0"))), "pairs": pairs}
