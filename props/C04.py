"""C04 - relabelling after matching preserves both segmentations."""
from __future__ import annotations
import ast
import z3
from pyvc.values import *
from pyvc.objects import *
from pyvc.interp import LoopSpec
from pyvc.npmodel import Space, VArr, VSel, base_array, card, Vox, dtype_range, DType, UINT_BITS
from .common import *
from .C09 import UDT

LEVEL = "proof"
EXPLANATION = ("map_instance_labels is executed symbolically on symbolic instance maps (any unsigned dtype) and a symbolic label map satisfying "
               "the matcher's postcondition; the fresh-label loop is proved by invariant; the relabelled prediction is proved to be g o pred "
               "with g(0)=0, g(p)=assigned reference label, g(p)=fresh injective label above every reference label otherwise; the "
               "reference map is returned unchanged.  _map_labels is used through its contract (proved in C09).")
QN = IM + "map_instance_labels"


def unit_relabel(ctx, dtype):
    eng = ctx.engine(feas_timeout_ms=1200)
    dom0 = z3.Const("lm_dom0", z3.ArraySort(I, B))
    val0 = z3.Const("lm_val0", z3.ArraySort(I, I))
    t = z3.Int("t_lbl")
    st = {}

    def map_labels_contract(e, f, args, kwargs):
        """contract of _map_labels (C09): fresh array, per-voxel mapped label, no wrap; result dtype wide enough"""
        arr, m = args[0], args[1]
        if not isinstance(arr, VArr) or not isinstance(m, SymMap):
            raise Unsupported("_map_labels called with unexpected arguments")
        hi = dtype_range(arr.dtype_name)[1]
        q = z3.Int("mlq")
        q0 = e.fresh("mlq0", I)  # an arbitrary key
        for nm_, f_ in (("keys-are-labels-of-the-array", z3.And(q0 > 0, q0 <= hi)), ("values-non-negative", z3.Select(m.val, q0) >= 0),
                        ("values-below-2^40", z3.Select(m.val, q0) < 2 ** 40)):
            e.oblige(f"call._map_labels.pre({nm_})", z3.Implies(z3.Select(m.dom, q0), f_))
        st["map_at_call"] = (m.dom, m.val)
        st["arr_at_call"] = arr
        a = arr.term
        widened = e.branch(e.fresh_bool("relabel_needs_wider_dtype"))
        out_dt = "uint64" if widened else arr.dtype_name
        e.event("call", "_map_labels")
        return VArr(z3.If(z3.Select(m.dom, a), z3.Select(m.val, a), a), out_dt, arr.space)
    eng.summaries[FN + "_map_labels"] = map_labels_contract

    def find_counter(scope, loop):
        names = set()
        for nd in ast.walk(loop):
            if isinstance(nd, ast.AugAssign) and isinstance(nd.target, ast.Name):
                names.add(nd.target.id)
            if isinstance(nd, ast.Assign):
                for tg in nd.targets:
                    if isinstance(tg, ast.Name):
                        names.add(tg.id)
        return [x for x in names if isinstance(scope.vars.get(x), (int, SymInt)) and not isinstance(scope.vars.get(x), bool)]

    def find_base(scope, loop):
        """the integer local the fresh labels are computed from: the counter incremented in the loop, or - when the loop derives the
        label from the iteration index - the one integer local (bound before the loop) that the loop body reads"""
        ctrs = find_counter(scope, loop)
        if ctrs:
            return ctrs, True
        targets = {n.id for n in ast.walk(loop.target) if isinstance(n, ast.Name)}
        reads = {n.id for st_ in loop.body for n in ast.walk(st_) if isinstance(n, ast.Name) and isinstance(n.ctx, ast.Load)} - targets
        return [x for x in sorted(reads) if isinstance(scope.vars.get(x), (int, SymInt)) and not isinstance(scope.vars.get(x), bool)], False

    def the_loop(scope):
        loops = sorted([x for x in ast.walk(scope.func.node) if isinstance(x, ast.For)], key=lambda x: x.lineno)
        return loops[0]

    def the_map(scope):
        k, v = find_local(scope, lambda v: isinstance(v, SymMap) and v.name.startswith("labelmap"))
        if v is None:
            raise Unsupported("no local holding the label map dict")
        return k, v

    def havoc(e, scope, it):
        k, m = the_map(scope)
        m.dom, m.val = e.fresh("lm_dom", z3.ArraySort(I, B)), e.fresh("lm_val", z3.ArraySort(I, I))
        for c in find_counter(scope, the_loop(scope)):
            scope.vars[c] = e.fresh_int("ctr_" + c)

    def inv(e, scope, k, it):
        _, m = the_map(scope)
        it = getattr(it, "enum_of", it)  # `for i, p in enumerate(missed)`: same sequence, the index is the iteration number
        if not (hasattr(it, "pos") and hasattr(it.base, "unique_of")):
            raise Unsupported("missed prediction labels are not a filtered view of the unique prediction labels")
        arr, cond, u, wit, idx, n = it.base.unique_of
        if isinstance(k, int) and k == 0 and "c0" not in st:
            st["c0"] = [to_term(scope.vars[c]) for c in find_base(scope, the_loop(scope))[0]]  # value of the label base at loop entry
        c0 = st.get("c0")
        is_pred = z3.And(0 <= idx(t), idx(t) < n, u(idx(t)) == t)
        missed = z3.And(is_pred, z3.Not(dom0[t]))
        posn = it.pos(idx(t))
        out = [
            ("domain", z3.ForAll([t], z3.Select(m.dom, t) == z3.Or(dom0[t], z3.And(missed, posn < k)))),
            ("old-entries-kept", z3.ForAll([t], z3.Implies(dom0[t], z3.Select(m.val, t) == val0[t]))),
        ]
        ctrs, running = find_base(scope, the_loop(scope))
        if len(ctrs) != 1 or not c0:
            raise Unsupported("expected exactly one integer the fresh labels are computed from")
        out.append(("counter", to_term(scope.vars[ctrs[0]]) == (c0[0] + k if running else c0[0])))
        out.append(("fresh-labels", z3.ForAll([t], z3.Implies(z3.And(missed, posn < k, posn >= 0), z3.Select(m.val, t) == c0[0] + posn))))
        st["missed"] = (missed, posn, it, is_pred)
        return out
    eng.loop_specs[(QN, 0)] = LoopSpec(inv, havoc)

    def mk(e):
        st.clear()
        sp = Space("S")
        P = base_array(e, "P", dtype, sp)
        Rr = base_array(e, "R", dtype, sp)
        v = z3.Const("v_bound", Vox)
        e.assume(z3.ForAll([v], z3.And(Rr.base(v) < 2 ** 24, P.base(v) < 2 ** 24)), why="quantifier: labels below 2^24")
        pair = e.call(e.resolve(PP + "UnmatchedInstancePair"), [P, Rr], {})
        e.assume(wrap(z3.And(to_term(pair.attrs["_ref_labels"].length) > 0, to_term(pair.attrs["_pred_labels"].length) > 0)), why="pre: both sides have instances")
        # matcher postcondition (C03/C14): keys are prediction labels, values are reference labels
        pl, rl = pair.attrs["_pred_labels"], pair.attrs["_ref_labels"]
        _, _, up, _, idxp, npn = pl.unique_of
        _, _, ur, _, idxr, nr = rl.unique_of
        e.assume(z3.ForAll([t], z3.Implies(dom0[t], z3.And(0 <= idxp(t), idxp(t) < npn, up(idxp(t)) == t,
                                                            0 <= idxr(val0[t]), idxr(val0[t]) < nr, ur(idxr(val0[t])) == val0[t]))),
                 why="pre: label map maps prediction labels to reference labels")
        lm = e.new_obj(LM, labelmap=SymMap(dom0, val0, name="labelmap"))
        return [pair, lm], {}, {"sp": sp, "P": P, "R": Rr, "pair": pair, "R0": Rr.term}
    paths = eng.run(QN, mk)
    nm = f"instance_matcher.map_instance_labels[{dtype}]"
    info = {"dtype": dtype}
    ctx.side_obligations(paths, nm, func=QN, replay="c04.relabel", info=info)
    exits = [p for p in paths if p.kind == "return"]
    ctx.expect(f"{nm}: exit paths exist", len(exits) >= 1)
    ctx.expect(f"{nm}: loop body verified", any(p.kind == "end" for p in paths))
    for pi, p in enumerate(paths):
        if p.kind == "raise":
            ctx.oblige(f"{nm}/no-exception({p.exc.name()})#p{pi}", p.pc, z3.BoolVal(False), func=QN, replay="c04.relabel", info=info)
        if p.kind != "return":
            continue
        sp, P, Rr = p.state["sp"], p.state["P"], p.state["R"]
        out = p.value
        ok = isinstance(out, SObj) and out.cls.name == "MatchedInstancePair"
        if not ok:
            ctx.oblige(f"{nm}/returns-MatchedInstancePair#p{pi}", [], z3.BoolVal(False), func=QN)
            continue
        newP, newR = out.attrs["_prediction_arr"], out.attrs["_reference_arr"]
        a = P.base(sp.x)
        rl = p.state["pair"].attrs["_ref_labels"]
        _, _, ur, _, idxr, nr = rl.unique_of
        ctx.canary(f"{nm}#p{pi}", p.pc, func=QN)
        ctx.oblige(f"{nm}/post(reference map unchanged; caller arrays not written)#p{pi}", p.pc,
                   z3.And(newR.term == Rr.base(sp.x), Rr.term == p.state["R0"], z3.BoolVal(newR.dtype_name == newP.dtype_name),
                          z3.BoolVal(not any(ev[0] == "arr-write" and ev[2] == "caller" for ev in p.events))), func=QN, replay="c04.relabel", info=info)
        ctx.oblige(f"{nm}/post(foreground unchanged)#p{pi}", p.pc, (newP.term != 0) == (a != 0), func=QN, replay="c04.relabel", info=info)
        ctx.oblige(f"{nm}/post(matched prediction carries exactly its reference label)#p{pi}", p.pc,
                   z3.Implies(dom0[a], newP.term == val0[a]), func=QN, replay="c04.relabel", info=info)
        # unmatched predictions: label above every reference label (hence distinct from all of them) ...
        j = z3.Int("rj")
        ctx.oblige(f"{nm}/post(unmatched prediction gets a label distinct from every reference label)#p{pi}", p.pc,
                   z3.Implies(z3.And(a != 0, z3.Not(dom0[a])), z3.ForAll([j], z3.Implies(z3.And(0 <= j, j < nr), newP.term > ur(j)))),
                   func=QN, replay="c04.relabel", info=info)
        # ... and distinct from every other prediction: same partition (only predictions assigned to the same reference merge)
        y = z3.Const("vox_y", Vox)
        b = P.base(y)
        newPy = z3.substitute(newP.term, (sp.x, y))
        same_after = newP.term == newPy
        same_before = z3.Or(a == b, z3.And(dom0[a], dom0[b], val0[a] == val0[b]))
        ctx.oblige(f"{nm}/post(same partition into instances; only predictions of one reference merge)#p{pi}", p.pc,
                   z3.Implies(z3.And(a != 0, b != 0), same_after == same_before), func=QN, replay="c04.relabel", info=info)


def unit_wrapper(ctx):
    """InstanceMatchingAlgorithm.match_instances = map_instance_labels(copy of the pair, _match_instances(pair))."""
    eng = ctx.engine()
    seen = {}

    def mi(e, f, args, kwargs):
        seen["match_args"] = args
        return "LABELMAP"

    def mil(e, f, args, kwargs):
        seen["map_args"] = args
        return "RESULT"

    def cp(e, f, args, kwargs):
        seen["copied"] = args[0]
        return "COPY"
    eng.summaries[IM + "NaiveThresholdMatching._match_instances"] = mi
    eng.summaries[IM + "map_instance_labels"] = mil
    eng.summaries[PP + "_ProcessingPairInstanced.copy"] = cp

    def mk(e):
        seen.clear()
        m = e.call(e.resolve(IM + "NaiveThresholdMatching"), [], {})
        pair = e.new_obj(PP + "UnmatchedInstancePair")
        return [m, pair], {}, {"pair": pair}
    paths = eng.run(IM + "InstanceMatchingAlgorithm.match_instances", mk)
    for pi, p in enumerate(paths):
        ok = (p.kind == "return" and p.value == "RESULT" and seen.get("match_args") and seen["match_args"][1] is p.state["pair"]
              and seen.get("copied") is p.state["pair"] and list(seen.get("map_args", [])) == ["COPY", "LABELMAP"])
        ctx.oblige(f"instance_matcher.InstanceMatchingAlgorithm.match_instances/post(relabels a copy of the pair with the matcher's label map)#p{pi}", [], z3.BoolVal(bool(ok)),
                   func=IM + "InstanceMatchingAlgorithm.match_instances")


def unit_copy(ctx):
    """copy() of the three pair classes: the pipeline hands a copy to every stage (panoptic_evaluate, match_instances); the copy
    must be a distinct pair object of the same class holding the same label maps voxel by voxel, the same dtype and the same counts."""
    for cls, owner in (("SemanticPair", "_ProcessingPair"), ("UnmatchedInstancePair", "_ProcessingPairInstanced"), ("MatchedInstancePair", "MatchedInstancePair")):
        eng = ctx.engine()
        fn = PP + owner + ".copy"

        def mk(e, cls=cls):
            sp = Space("S")
            P, Rr = base_array(e, "P", "uint8", sp), base_array(e, "R", "uint8", sp)
            pair = e.call(e.resolve(PP + cls), [P, Rr], {})
            return [pair], {}, {"pair": pair, "P": P, "R": Rr}

        def target(pair, eng=eng):
            return eng.call(eng.getattr(pair, "copy"), [], {})
        paths = eng.run(target, mk)
        ctx.expect(f"{cls}.copy: a returning path", any(p.kind == "return" for p in paths))
        nm = f"processing_pair.{owner}.copy[{cls}]"
        for pi, p in enumerate(paths):
            if p.kind != "return":
                ctx.oblige(f"{nm}/no-exception({p.exc.name() if p.exc else p.kind})#p{pi}", p.pc, z3.BoolVal(False), func=fn, replay="c04.copy", info={"cls": cls})
                continue
            c, o = p.value, p.state["pair"]
            shape_ok = isinstance(c, SObj) and c is not o and c.cls is o.cls
            ctx.oblige(f"{nm}/post(a distinct object of the same class)#p{pi}", [], z3.BoolVal(bool(shape_ok)), func=fn, replay="c04.copy", info={"cls": cls, "structural": True})
            if not shape_ok:
                continue
            if pi == 0:
                ctx.canary(f"{nm}#p{pi}", p.pc, func=fn)
            g = []
            for a in ("_prediction_arr", "_reference_arr"):
                x, y = c.attrs.get(a), o.attrs.get(a)
                if not (isinstance(x, VArr) and isinstance(y, VArr) and x.space is y.space and x.dtype_name == y.dtype_name):
                    g.append(z3.BoolVal(False))
                else:
                    g.append(x.term == y.term)
            ctx.oblige(f"{nm}/post(both label maps equal voxel by voxel, same dtype and shape)#p{pi}", p.pc, z3.And(*g), func=fn, replay="c04.copy", info={"cls": cls})
            g = []
            for a in ("n_prediction_instance", "n_reference_instance"):
                if a in o.attrs or cls != "SemanticPair":
                    x, y = c.attrs.get(a), o.attrs.get(a)
                    try:
                        g.append(to_term(x) == to_term(y))
                    except Exception:
                        g.append(z3.BoolVal(x is y))
            # the label tuples are recomputed by the constructor from the (equal) maps; the matched / missed lists are handed over
            for a in (("matched_instances", "missed_reference_labels", "missed_prediction_labels") if cls == "MatchedInstancePair" else ()):
                x, y = c.attrs.get(a), o.attrs.get(a)
                same = x is y or (isinstance(x, SymSeq) and isinstance(y, SymSeq) and getattr(x, "base", None) is getattr(y, "base", 0)
                                  and getattr(x, "cond", None) is not None and getattr(y, "cond", None) is not None and z3.eq(x.cond[1], y.cond[1])) \
                    or (isinstance(x, (list, tuple)) and isinstance(y, (list, tuple)) and list(x) == list(y))
                g.append(z3.BoolVal(bool(same)))
            ctx.oblige(f"{nm}/post(instance counts and label lists carried over)#p{pi}", p.pc, z3.And(*g) if g else z3.BoolVal(True), func=fn, replay="c04.copy", info={"cls": cls})


def build(ctx):
    ctx.trust("contract of _map_labels (per-voxel mapped label, fresh array, no wrap; proved in C09)",
              "matcher postcondition: label map keys are prediction labels, values are reference labels (C03/C14)",
              "np.unique contract; filtered list comprehension semantics")
    for dt in UDT:
        ctx.unit(f"map_instance_labels[{dt}]", lambda dt=dt: unit_relabel(ctx, dt))
    ctx.unit("match_instances", lambda: unit_wrapper(ctx))
    ctx.unit("pair.copy", lambda: unit_copy(ctx))
    # the lookup-table relabelling _map_labels (its call-site precondition is discharged above) and the routines around it: body proofs of C09
    include_stage(ctx, "C09")
    ctx.add_bounded("c04-enum", "c04.bounded")


def concretise(ctx, o, r):
    if (o.info or {}).get("stage"):
        return stage_concretise(ctx, o, r)
    if o.replay == "c04.copy":
        return {"cls": o.info.get("cls")}
    return {"dtype": o.info.get("dtype"), "obligation": o.name}
