"""C14 - the merge matcher only merges when it improves the match."""
from __future__ import annotations
import z3
from pyvc.values import *
from pyvc.objects import *
from pyvc.interp import LoopSpec
from .common import *

LEVEL = "proof"
EXPLANATION = ("Loop-invariant proof of MaximizeMergeMatching._match_instances over a symbolic best-first candidate list: abstract view of the "
               "label map (partial map pred->ref) and of the score book-keeping; the merge step obligation is taken from the statement "
               "(strictly better in the metric's preferred direction).")
QN = IM + "MaximizeMergeMatching._match_instances"
SETS = z3.ArraySort(I, B)


def unit_merge(ctx, mname, which="clauses"):
    eng = ctx.engine()
    mm = MMPairs(mname)
    thr = z3.Real("thr")
    beats = lambda s: spec_beats(mname, s, thr)
    CS = z3.Function("combined_score", I, SETS, R)  # metric(R=r, P in S)
    eng.summaries[FN + "_calc_matching_metric_of_overlapping_labels"] = mm.summary()
    calls = []

    def metric_call(e, f, args, kwargs):
        # contract of Metric.__call__ with label selection (C06): a function of (ref label, set of pred labels)
        kw = dict(kwargs)
        ref_idx = kw.get("ref_instance_idx", args[3] if len(args) > 3 else None)
        pred_idx = kw.get("pred_instance_idx", args[4] if len(args) > 4 else None)
        if ref_idx is None or pred_idx is None:
            raise Unsupported("metric call without label selection in the merge matcher")
        if isinstance(pred_idx, SymSet):
            t = z3.Int("cs_t")
            S = z3.Lambda([t], pred_idx.member(t))
        elif isinstance(pred_idx, (int, SymInt)):
            t = z3.Int("cs_t")
            S = z3.Lambda([t], t == to_term(pred_idx))
        else:
            raise Unsupported("pred_instance_idx of unexpected shape")
        r = SymReal(CS(to_term(ref_idx), S), np=True)
        e.event("combined-score", r.term)
        return r
    eng.summaries[MM + "Metric.__call__"] = metric_call

    def lm(scope):
        return as_symmap(local_labelmap(scope).attrs["labelmap"])

    def sr_name(scope):
        k, v = find_local(scope, lambda v: isinstance(v, SymMap) and v.name == "score_ref")
        if k is None:
            k, v = find_local(scope, lambda v: isinstance(v, dict) and not v and True)
            # the (initially empty) dict that is not the label map
            for kk, vv in scope.vars.items():
                if isinstance(vv, dict) and kk != "kwargs" and vv is not local_labelmap(scope).attrs["labelmap"]:
                    k = kk
        if k is None:
            raise Unsupported("score book-keeping dict not found")
        return k

    def sr(scope):
        return as_symmap(scope.vars[sr_name(scope)], vsort=R)

    def havoc(e, scope, it):
        # ownership: the per-call tables are objects created by this call, not attributes of the matcher (shared by every call and thread)
        me = scope.vars.get("self")
        table = scope.vars.get(sr_name(scope))
        if isinstance(me, SObj) and any(v is table or v is local_labelmap(scope) for v in me.attrs.values()):
            e.oblige("ownership(the score table / label map of a call is not an attribute of the matcher object)", z3.BoolVal(False), structural=True)
        local_labelmap(scope).attrs["labelmap"] = fresh_symmap(e, "lm")
        scope.vars[sr_name(scope)] = SymMap(e.fresh("sr_dom", SETS), e.fresh("sr_val", z3.ArraySort(I, R)), name="score_ref")

    p, r, j, t = z3.Ints("jp jr jj jt")

    def set_of(m, rr):
        return z3.Lambda([t], z3.And(z3.Select(m.dom, t), z3.Select(m.val, t) == rr))

    def inv(e, scope, k, it):
        m, s = lm(scope), sr(scope)
        J2 = z3.ForAll([p], z3.Implies(z3.Select(m.dom, p), z3.Select(s.dom, z3.Select(m.val, p))))
        if which == "bookkeeping":
            J4 = z3.ForAll([r], z3.Implies(z3.Select(s.dom, r), z3.Select(s.val, r) == CS(r, set_of(m, r))))
            return [("bookkeeping-domain", J2), ("score-is-combined-score", J4)]
        J3 = z3.ForAll([p], z3.Implies(z3.Select(m.dom, p), z3.Exists([j], z3.And(0 <= j, j < k, mm.pred(j) == p, mm.ref(j) == z3.Select(m.val, p)))))
        J5 = z3.ForAll([r], z3.Implies(z3.Select(s.dom, r), z3.Exists([j], z3.And(
            0 <= j, j < k, mm.ref(j) == r, beats(mm.score(j)), z3.Select(m.dom, mm.pred(j)), z3.Select(m.val, mm.pred(j)) == r,
            spec_better_eq(mname, z3.Select(s.val, r), mm.score(j))))))
        return [("bookkeeping-domain", J2), ("assigned-pairs-are-candidates", J3), ("seeded-by-single-candidate-and-never-worse", J5)]

    # contract of the candidate scorer: score_i is the metric of the single pair
    single = z3.ForAll([j], z3.Implies(z3.And(0 <= j, j < mm.n), mm.score(j) == CS(mm.ref(j), z3.Lambda([t], t == mm.pred(j)))))
    eng.loop_specs[(QN, 0)] = LoopSpec(inv, havoc, axioms=lambda e, s, it: [("single-pair-score", single)])

    pre = {}

    def mk(e):
        M = metric(e, mname)
        self_ = e.call(e.resolve(IM + "MaximizeMergeMatching"), [], dict(matching_metric=M, matching_threshold=SymReal(thr)))
        pair = e.new_obj(PP + "UnmatchedInstancePair", _ref_labels="REF_LABELS", _prediction_arr="PRED", _reference_arr="REF")
        import copy as _copy
        snap = {k: (_copy.copy(v) if isinstance(v, (dict, list, set)) else v) for k, v in self_.attrs.items()}
        return [self_, pair], {}, {"matcher": self_, "ev0": len(e.events), "snap": snap}

    paths = eng.run(QN, mk)
    fn = "instance_matcher.MaximizeMergeMatching._match_instances"
    if which == "clauses":
        ctx.side_obligations(paths, f"{fn}[{mname}]", func=QN, replay="c14.reuse", skip=lambda s_: not s_.startswith("ownership"), info={"structural": True})
        wr = [ev for p_ in paths for ev in p_.events[p_.state["ev0"]:] if ev[0] == "setattr" and ev[1] == p_.state["matcher"].oid]
        def _same(a_, b_):
            if isinstance(a_, (dict, list, set)):
                return type(a_) is type(b_) and len(a_) == len(b_) and (list(a_) == list(b_) if not isinstance(a_, dict) else list(a_.keys()) == list(b_.keys()))
            return a_ is b_ or (not isinstance(a_, (Sym, SObj)) and a_ == b_)
        mutated = sorted({k for p_ in paths for k, v in p_.state["snap"].items() if not _same(v, p_.state["matcher"].attrs.get(k))} |
                         {k for p_ in paths for k in p_.state["matcher"].attrs if k not in p_.state["snap"]})
        ctx.oblige(f"{fn}[{mname}]/frame(the matcher object is not written: nothing is kept between calls or shared between threads using one evaluator)", [],
                   z3.BoolVal(not wr and not mutated), func=QN, replay="c14.reuse", info={"structural": True, "writes": str(sorted({e_[3] for e_ in wr})[:4]), "mutated_attributes": str(mutated[:4])})
    tag = mname if which == "clauses" else f"{mname}.bookkeeping"
    info = {"metric": mname, "prefer": ["(<= n 4)"]}
    ctx.side_obligations(paths, f"{fn}[{tag}]", func=QN, replay="c14.merge", info=info)
    exits = [q for q in paths if q.kind == "return"]
    bodies = [q for q in paths if q.kind == "end"]
    ctx.expect(f"{tag}: one exit path", len(exits) == 1)
    ctx.expect(f"{tag}: a merge path (combined score evaluated and entry added) exists",
               any(any(ev[0] == "combined-score" for ev in q.events) and any(ev[0] == "map-store" for ev in q.events) for q in bodies))
    for pi, q in enumerate(paths):
        if q.kind == "raise":
            ctx.oblige(f"{fn}[{tag}]/no-exception({q.exc.name()})#p{pi}", q.pc, z3.BoolVal(False), func=QN, replay="c14.merge", info=info)
        if q.kind == "end":
            ctx.canary(f"{fn}[{tag}]/body#p{pi}", q.pc, func=QN)
            cs = [ev[1] for ev in q.events if ev[0] == "combined-score"]
            stored = any(ev[0] == "map-store" and ev[1] == "lm" for ev in q.events)
            if cs and stored and which == "clauses":
                # statement: merged in only if the combined prediction scores strictly better, in the
                # metric's preferred direction, than before.  "before" = book-kept score of that reference
                # in the havoc'd (pre-iteration) state: recover it from the path condition's loop state
                old = q.state.get("old_score")
                # local step property: the quantifier-free part of the path condition (the comparisons the
                # code made) suffices and keeps the query decidable both ways; a model is replayed on the real code
                qf = [c for c in q.pc if not _has_quant(c)]
                goal = _merge_goal(mname, q, cs[-1])
                # combined-score applications (with lambda set arguments) are abstracted to fresh reals:
                # only their identity matters for the comparison (sound: abstraction loses information only)
                subs, seen_ids = [], {}
                for c in qf + [goal]:
                    for sub in _subterms(c):
                        if z3.is_app(sub) and sub.decl().name() == "combined_score" and sub.get_id() not in seen_ids:
                            seen_ids[sub.get_id()] = z3.Real(f"cs_abs{len(seen_ids)}")
                            subs.append((sub, seen_ids[sub.get_id()]))
                qf = [z3.substitute(c, *subs) for c in qf] if subs else qf
                goal = z3.substitute(goal, *subs) if subs else goal
                ctx.oblige(f"{fn}[{tag}]/merge-step(combined score strictly better in the preferred direction)#p{pi}", qf,
                           goal, func=QN, kind="step", replay="c14.merge", info=info)
    for q in exits:
        ctx.canary(f"{fn}[{tag}]/exit", q.pc, func=QN)
        ret = q.value
        m = as_symmap(ret.attrs["labelmap"])
        D = lambda x: z3.Select(m.dom, x)
        V = lambda x: z3.Select(m.val, x)
        n = mm.n
        goals = {
            "matched-only-if-a-single-prediction-meets-the-threshold":
                z3.ForAll([p], z3.Implies(D(p), z3.Exists([j], z3.And(0 <= j, j < n, mm.ref(j) == V(p), beats(mm.score(j)), D(mm.pred(j)), V(mm.pred(j)) == V(p))))),
            "assigned-pairs-overlap(candidates)":
                z3.ForAll([p], z3.Implies(D(p), z3.Exists([j], z3.And(0 <= j, j < n, mm.pred(j) == p, mm.ref(j) == V(p))))),
        }
        for gname, g in (goals.items() if which == "clauses" else []):
            ctx.oblige(f"{fn}[{tag}]/post.{gname}", q.pc, g, func=QN, replay="c14.merge", info=info)


def _merge_goal(mname, q, new_score):
    """On a merge path the path condition contains the comparison the code made between the new combined
    score and the book-kept one; the goal states the comparison the *statement* demands.  The book-kept
    score is the unique term compared with new_score in the path condition."""
    olds = []
    is_cs = lambda x: z3.is_app(x) and x.decl().name() == "combined_score"
    for c in q.pc:
        for sub in _subterms(c):
            if z3.is_app(sub) and sub.decl().kind() in (z3.Z3_OP_LE, z3.Z3_OP_LT, z3.Z3_OP_GE, z3.Z3_OP_GT) and sub.num_args() == 2:
                a, b = sub.arg(0), sub.arg(1)
                if is_cs(a) and not is_cs(b):
                    olds.append((a, b))
                elif is_cs(b) and not is_cs(a):
                    olds.append((b, a))
    if not olds:
        return z3.BoolVal(False)  # merged without comparing with the previous score
    new, old = olds[-1]
    return spec_strictly_better(mname, new, old)


def _has_quant(t):
    if z3.is_quantifier(t):
        return not t.is_lambda() or _has_quant(t.body())
    return any(_has_quant(c) for c in t.children()) if z3.is_app(t) else False


def _subterms(t, seen=None):
    seen = seen if seen is not None else set()
    if t.get_id() in seen:
        return
    seen.add(t.get_id())
    yield t
    if z3.is_app(t):
        for c in t.children():
            yield from _subterms(c, seen)
    elif z3.is_quantifier(t):
        return


def unit_combination_score(ctx):
    """new_combination_score appends to the list it was given (a fresh list from
    get_pred_labels_matched_to_ref) and scores ref label vs the union of prediction labels."""
    eng = ctx.engine()
    seen = {}

    def metric_call(e, f, args, kwargs):
        seen["args"] = (list(args), dict(kwargs))
        return e.fresh_real("score", np=True)
    eng.summaries[MM + "Metric.__call__"] = metric_call
    p, r = z3.Ints("p r")
    dom0 = z3.Const("dom0", SETS)
    val0 = z3.Const("val0", z3.ArraySort(I, I))

    def mk(e):
        self_ = e.call(e.resolve(IM + "MaximizeMergeMatching"), [], dict(matching_metric=metric(e, "IOU"), matching_threshold=0.5))
        lmo = e.new_obj(LM, labelmap=SymMap(dom0, val0, name="lm"))
        pair = e.new_obj(PP + "UnmatchedInstancePair", _ref_labels="RL", _prediction_arr="PRED", _reference_arr="REF")
        return [self_, lmo, SymInt(p), SymInt(r), pair], {}, {"lm": lmo}

    def target(self_, lmo, pl, rl, pair):
        lst = eng.call(eng.getattr(lmo, "get_pred_labels_matched_to_ref"), [rl], {})
        sc = eng.call(eng.getattr(self_, "new_combination_score"), [lst, pl, rl, pair], {})
        return lst, sc
    for pi, q in enumerate(eng.run(target, mk)):
        fn = IM + "MaximizeMergeMatching.new_combination_score"
        if q.kind != "return":
            ctx.oblige(f"instance_matcher.MaximizeMergeMatching.new_combination_score/no-exception#p{pi}", q.pc, z3.BoolVal(False), func=fn)
            continue
        args, kw = seen["args"]
        allargs = dict(kw)
        names = ["self", "reference_arr", "prediction_arr", "ref_instance_idx", "pred_instance_idx"]
        for nm, a in zip(names, args):
            allargs[nm] = a
        S = allargs.get("pred_instance_idx")
        t = z3.Int("t")
        ok_static = allargs.get("reference_arr") == "REF" and allargs.get("prediction_arr") == "PRED" and isinstance(S, SymSet)
        m2 = as_symmap(q.state["lm"].attrs["labelmap"])
        g = z3.And(z3.BoolVal(bool(ok_static)),
                   to_term(allargs.get("ref_instance_idx", -1)) == r if isinstance(allargs.get("ref_instance_idx"), (int, Sym)) else z3.BoolVal(False),
                   z3.ForAll([t], S.member(t) == z3.Or(z3.And(dom0[t], val0[t] == r), t == p)) if isinstance(S, SymSet) else z3.BoolVal(False),
                   # frame: the label map itself is not touched by scoring a combination
                   z3.ForAll([t], z3.And(z3.Select(m2.dom, t) == dom0[t], z3.Select(m2.val, t) == val0[t])))
        ctx.oblige(f"instance_matcher.MaximizeMergeMatching.new_combination_score/post(scores ref r against preds(r) + {{p}}; label map untouched)#p{pi}", q.pc, g, func=fn)


def build(ctx):
    ctx.trust("contract of Metric.__call__ with label selection: a function of (reference label, set of prediction labels) - proved in C06",
              "contract of _calc_matching_metric_of_overlapping_labels: best-first candidate list, score_i = metric of the single pair (discharged on the real function by the scorer unit, included here)")
    for mname in MATCH_METRICS:
        ctx.unit(f"merge[{mname}]", lambda mname=mname: unit_merge(ctx, mname))
        ctx.unit(f"merge-bookkeeping[{mname}]", lambda mname=mname: unit_merge(ctx, mname, "bookkeeping"))
    ctx.unit("new_combination_score", lambda: unit_combination_score(ctx))
    # the candidate list the merge matcher walks through: its contract is discharged on the real scorer (C03's unit), regenerated here
    include_stage(ctx, "C03", only=lambda mod, sub: [sub.unit(f"scorer[{m}]", lambda m=m: mod.unit_scorer(sub, m)) for m in MATCH_METRICS]
                  + [sub.unit("score_beats_threshold", lambda: mod.unit_beats(sub))])  # "meets the threshold" is exact, in the metric's direction
    include_stage(ctx, "C04")  # match_instances = the merge matching followed by the relabelling of the prediction
    ctx.add_bounded("c14-enum", "c14.bounded")
    ctx.add_bounded("c14-fn-enum", "c14.bounded_fn")


def concretise(ctx, o, r):
    if o.replay == "c14.reuse":
        return {}
    if (o.info or {}).get("stage"):
        return stage_concretise(ctx, o, r)
    if o.replay != "c14.merge":
        return None
    m = r.get("model") or {}
    n = max(0, min(model_int(m.get("n", "0")), 8))
    sc, rf, pr = m.get("score"), m.get("ref"), m.get("pred")
    if n and not (isinstance(sc, list) and isinstance(rf, list) and isinstance(pr, list)):
        n = 0
    pairs = [[str(model_real(sc[i])), model_int(rf[i]), model_int(pr[i])] for i in range(n)]
    return {"metric": o.info["metric"], "thr": str(model_real(m.get("thr", "0"))), "pairs": pairs}
