"""C08 - zero-true-positive cases report exactly what the edge-case handler
prescribes."""
from __future__ import annotations
import math
import z3
from pyvc.values import *
from pyvc.objects import *
from .common import *

LEVEL = "proof"
EXPLANATION = ("Symbolic execution of the real edge-case handler and PanopticaResult (including its lazy attribute protocol) with the "
               "handler configuration as symbolic enum values: one proof covers all 5^4 x 5 configurations per metric; scenario "
               "classification is compared with the statement's scenario function for all non-negative counts.")
EC = "panoptica.utils.edge_case_handling."
PR = "panoptica.panoptica_result."
PE = "panoptica.panoptica_evaluator."

# spec side (statement / documentation of EdgeCaseResult)
ECR_ORDER = ["INF", "NAN", "ZERO", "ONE", "NONE"]
ECR_VALUE = {"INF": math.inf, "NAN": math.nan, "ZERO": 0.0, "ONE": 1.0, "NONE": None}
SCENARIOS = ["NO_INSTANCES", "EMPTY_PRED", "EMPTY_REF", "NORMAL"]
SQ_ATTR = {"IOU": "sq", "DSC": "sq_dsc", "ASSD": "sq_assd", "RVD": "sq_rvd", "clDSC": "sq_cldsc"}


def same_value(a, b):
    if a is None or b is None:
        return a is None and b is None
    if isinstance(a, Sym) or isinstance(b, Sym):
        return False
    if isinstance(a, float) and a != a:
        return isinstance(b, float) and b != b
    return a == b


def idx_of_value(v):
    for i, nm in enumerate(ECR_ORDER):
        if same_value(v, ECR_VALUE[nm]):
            return i
    return None


def scenario_conds(tp, npred, nref):
    """statement: scenario(tp=0, np, nr)."""
    return {
        "NO_INSTANCES": z3.And(npred + nref == 0),
        "EMPTY_REF": z3.And(npred + nref != 0, nref == 0),
        "EMPTY_PRED": z3.And(npred + nref != 0, nref != 0, npred == 0),
        "NORMAL": z3.And(npred > 0, nref > 0),
    }


def cfg_goal(cfg, tp, npred, nref, value):
    """the returned value is the configured result for the spec scenario."""
    iv = idx_of_value(value)
    if iv is None:
        return z3.BoolVal(False)
    conds = scenario_conds(tp, npred, nref)
    return z3.Or(*[z3.And(conds[s], cfg[s] == iv) for s in SCENARIOS])


def mk_cfg(tag=""):
    return {s: z3.Int(f"cfg{tag}_{s}") for s in SCENARIOS}


def mk_mztp(e, cfg):
    ECR = e.resolve(EC + "EdgeCaseResult")
    for s in SCENARIOS:
        e.assume(wrap(z3.And(cfg[s] >= 0, cfg[s] < 5)))
    return e.call(e.resolve(EC + "MetricZeroTPEdgeCaseHandling"), [], dict(
        no_instances_result=SymEnum(ECR, cfg["NO_INSTANCES"]), empty_prediction_result=SymEnum(ECR, cfg["EMPTY_PRED"]),
        empty_reference_result=SymEnum(ECR, cfg["EMPTY_REF"]), normal=SymEnum(ECR, cfg["NORMAL"])))


def unit_values(ctx):
    eng = ctx.engine()
    for i, nm in enumerate(ECR_ORDER):
        def mk(e, nm=nm):
            return [e.resolve(EC + "EdgeCaseResult").members[nm]], {}
        for prop in ("value", "__call__"):
            tgt = (lambda m: eng.getattr(m, "value")) if prop == "value" else (lambda m: eng.call(m, [], {}))
            paths = eng.run(tgt, mk)
            ok = len(paths) == 1 and paths[0].kind == "return" and same_value(paths[0].value, ECR_VALUE[nm])
            ctx.oblige(f"edge_case_handling.EdgeCaseResult.{prop}[{nm}]/post", [], z3.BoolVal(bool(ok)), func=EC + "EdgeCaseResult.__call__")
    ECR = eng.load_module("panoptica.utils.edge_case_handling").ns["EdgeCaseResult"]
    ctx.expect("EdgeCaseResult member order as in the spec table", list(ECR.members) == ECR_ORDER)


def unit_mztp_init(ctx):
    """constructor: each slot is the explicit argument or, if None, the default."""
    eng = ctx.engine()
    names = ["default_result", "no_instances_result", "empty_prediction_result", "empty_reference_result", "normal"]
    isn = {n: z3.Bool(f"none_{n}") for n in names}
    val = {n: z3.Int(f"val_{n}") for n in names}

    def mk(e):
        ECR = e.resolve(EC + "EdgeCaseResult")
        kw = {n: SymOpt(isn[n], SymEnum(ECR, val[n])) for n in names}
        for n in names:
            e.assume(wrap(z3.And(val[n] >= 0, val[n] < 5)))
        return [], kw
    paths = eng.run(EC + "MetricZeroTPEdgeCaseHandling", mk)
    slot_of = {"EMPTY_PRED": "empty_prediction_result", "EMPTY_REF": "empty_reference_result", "NO_INSTANCES": "no_instances_result", "NORMAL": "normal"}
    fully = z3.Or(z3.Not(isn["default_result"]), z3.And(*[z3.Not(isn[slot_of[s]]) for s in SCENARIOS]))
    for pi, p in enumerate(paths):
        fn = EC + "MetricZeroTPEdgeCaseHandling.__init__"
        if p.kind == "raise":
            ctx.oblige(f"edge_case_handling.MetricZeroTPEdgeCaseHandling.__init__/raises-only-if-underspecified#p{pi}", p.pc, z3.Not(fully), func=fn)
            continue
        d = p.value.attrs["_edgecase_dict"]
        goals = [fully]
        for k, v in d.items():
            s = k._name
            a = slot_of[s]
            if isinstance(v, SymOpt):
                goals.append(z3.Not(v.is_none))
                v = v.value
            if not isinstance(v, SymEnum):
                goals.append(z3.BoolVal(False))
                continue
            goals.append(v.idx == z3.If(isn[a], val["default_result"], val[a]))
        ctx.expect("MetricZeroTPEdgeCaseHandling defines all four scenarios", sorted(k._name for k in d) == sorted(SCENARIOS))
        ctx.oblige(f"edge_case_handling.MetricZeroTPEdgeCaseHandling.__init__/post(slots resolved, never None)#p{pi}", p.pc, z3.And(*goals), func=fn)


def unit_mztp_call(ctx):
    eng = ctx.engine()
    cfg = mk_cfg()
    tp, npred, nref = z3.Ints("tp npred nref")

    def mk(e):
        h = mk_mztp(e, cfg)
        e.assume(wrap(z3.And(tp >= 0, npred >= 0, nref >= 0)))
        return [h, SymInt(tp), SymInt(npred), SymInt(nref)], {}
    fn = EC + "MetricZeroTPEdgeCaseHandling.__call__"
    paths = eng.run(fn, mk)
    ctx.expect("__call__ has >= 4*5+1 paths", len(paths) >= 21)
    for pi, p in enumerate(paths):
        if p.kind == "raise":
            ctx.oblige(f"edge_case_handling.MetricZeroTPEdgeCaseHandling.__call__/no-exception({p.exc.name()})#p{pi}", p.pc, z3.BoolVal(False), func=fn, replay="c08.mztp", info={"prefer": ["(<= npred 3)", "(<= nref 3)"]})
            continue
        v = p.value
        ok_shape = isinstance(v, tuple) and len(v) == 2 and isinstance(v[0], bool)
        if not ok_shape:
            ctx.oblige(f"edge_case_handling.MetricZeroTPEdgeCaseHandling.__call__/post#p{pi}", p.pc, z3.BoolVal(False), func=fn)
            continue
        if v[0] is False:
            g = z3.And(tp != 0, z3.BoolVal(v[1] is None))
        else:
            g = z3.And(tp == 0, cfg_goal(cfg, tp, npred, nref, v[1]))
        ctx.oblige(f"edge_case_handling.MetricZeroTPEdgeCaseHandling.__call__/post(scenario value)#p{pi}", p.pc, g, func=fn, replay="c08.mztp",
                   info={"prefer": ["(<= npred 3)", "(<= nref 3)", "(<= tp 3)"]})


def mk_handler(e, mnames, cfgs, std):
    ECR = e.resolve(EC + "EdgeCaseResult")
    d = {metric(e, m): mk_mztp(e, cfgs[m]) for m in mnames}
    e.assume(wrap(z3.And(std >= 0, std < 5)))
    return e.call(e.resolve(EC + "EdgeCaseHandler"), [], dict(listmetric_zeroTP_handling=d, empty_list_std=SymEnum(ECR, std)))


def unit_handler(ctx):
    eng = ctx.engine()
    cfg = mk_cfg()
    std = z3.Int("cfg_std")
    tp, npred, nref = z3.Ints("tp npred nref")
    fn = EC + "EdgeCaseHandler.handle_zero_tp"
    for defined in (True, False):
        def mk(e, defined=defined):
            h = mk_handler(e, ["IOU"] if defined else ["DSC"], {"IOU": cfg, "DSC": cfg}, std)
            e.assume(wrap(z3.And(tp >= 0, npred >= 0, nref >= 0)))
            return [h, metric(e, "IOU"), SymInt(tp), SymInt(npred), SymInt(nref)], {}
        for pi, p in enumerate(eng.run(fn, mk)):
            nm = f"edge_case_handling.EdgeCaseHandler.handle_zero_tp[{'defined' if defined else 'undefined'}]"
            if p.kind == "raise":
                ok = (not defined) and p.exc.name() == "NotImplementedError"
                ctx.oblige(f"{nm}/raises-only(tp==0 and metric undefined)#p{pi}", p.pc, z3.And(z3.BoolVal(ok), tp == 0), func=fn)
                continue
            v = p.value
            if v[0] is False:
                g = z3.And(tp != 0, z3.BoolVal(v[1] is None))
            else:
                g = z3.And(z3.BoolVal(defined), tp == 0, cfg_goal(cfg, tp, npred, nref, v[1]))
            ctx.oblige(f"{nm}/post(forwards tp,num_pred,num_ref in order)#p{pi}", p.pc, g, func=fn, replay="c08.mztp")
    # handle_empty_list_std returns the configured member
    def mk2(e):
        return [mk_handler(e, ["IOU"], {"IOU": cfg}, std)], {}
    for pi, p in enumerate(eng.run(EC + "EdgeCaseHandler.handle_empty_list_std", mk2)):
        ok = p.kind == "return" and isinstance(p.value, SymEnum)
        ctx.oblige(f"edge_case_handling.EdgeCaseHandler.handle_empty_list_std/post#p{pi}", p.pc, (p.value.idx == std) if ok else z3.BoolVal(False), func=EC + "EdgeCaseHandler.handle_empty_list_std")


def unit_handler_independence(ctx):
    """What a handler prescribes is fixed by its own construction: handlers built afterwards (with other configurations, or the
    default one) do not change it.  (Two handlers must not share their table, e.g. through a module-level default that is updated.)"""
    eng = ctx.engine()
    cfgA, cfgB = mk_cfg(), mk_cfg("B")
    stdA, stdB = z3.Int("cfg_std"), z3.Int("cfgB_std")
    tp, npred, nref = z3.Ints("tp npred nref")
    fn = EC + "EdgeCaseHandler.__init__"

    def mk(e):
        hA = mk_handler(e, ["IOU"], {"IOU": cfgA}, stdA)
        hD = e.call(e.resolve(EC + "EdgeCaseHandler"), [], {})
        mk_handler(e, ["IOU", "DSC"], {"IOU": cfgB, "DSC": cfgB}, stdB)
        e.call(e.resolve(EC + "EdgeCaseHandler"), [], {})
        e.assume(wrap(z3.And(tp == 0, npred >= 0, nref >= 0)))
        return [hA, hD], {}

    def target(hA, hD):
        a = eng.call(eng.getattr(hA, "handle_zero_tp"), [metric(eng, "IOU"), SymInt(tp), SymInt(npred), SymInt(nref)], {})
        d = eng.call(eng.getattr(hD, "handle_zero_tp"), [metric(eng, "DSC"), SymInt(tp), SymInt(npred), SymInt(nref)], {})
        return a, d
    paths = eng.run(target, mk)
    ctx.expect("handler independence: several scenario paths", len([p for p in paths if p.kind == "return"]) >= 2)
    nm = "edge_case_handling.EdgeCaseHandler.__init__[then other handlers are built]"
    for pi, p in enumerate(paths):
        if p.kind != "return":
            ctx.oblige(f"{nm}/no-exception({p.exc.name() if p.exc else p.kind})#p{pi}", p.pc, z3.BoolVal(False), func=fn, replay="c08.handlers")
            continue
        a, d = p.value
        if pi == 0:
            ctx.canary(f"{nm}#p{pi}", p.pc, func=fn)
        ctx.oblige(f"{nm}/post(an explicitly configured handler still prescribes its own configuration)#p{pi}", p.pc,
                   z3.And(z3.BoolVal(a[0] is True), cfg_goal(cfgA, tp, npred, nref, a[1])), func=fn, replay="c08.handlers")
        conds = scenario_conds(tp, npred, nref)
        dv = idx_of_value(d[1])
        ctx.oblige(f"{nm}/post(a default handler still prescribes the library defaults: DSC nan without instances, else 0)#p{pi}", p.pc,
                   z3.And(z3.BoolVal(d[0] is True and dv is not None), z3.If(conds["NO_INSTANCES"], z3.BoolVal(dv == ECR_ORDER.index("NAN")), z3.BoolVal(dv == ECR_ORDER.index("ZERO")))),
                   func=fn, replay="c08.handlers")


def unit_enum_eq(ctx):
    """_Enum_Compare.__eq__ on the enumerations the zero-TP handling branches on: two members are equal exactly when they are the same
    member (also for the members whose value is nan or None), a member equals its own name as a string and no other string."""
    eng = ctx.engine()
    fn = "panoptica.utils.constants._Enum_Compare.__eq__"
    eqf = eng.resolve(fn)
    for dotted in (EC + "EdgeCaseResult", EC + "EdgeCaseZeroTP", MM + "MetricMode", MM + "MetricType", "panoptica.utils.processing_pair.InputType", "panoptica.utils.constants.CCABackend"):
        cls = eng.resolve(dotted)
        names = list(cls.members.keys())
        short = dotted.split(".")[-1]

        def mk(e):
            return [], {}

        def target(cls=cls, names=names):
            out = {}
            for a in names:
                for b in names:
                    out[(a, b)] = eng.call(eqf, [cls.members[a], cls.members[b]], {})
                out[(a, "str")] = (eng.call(eqf, [cls.members[a], a], {}), eng.call(eqf, [cls.members[a], a + "_"], {}), eng.call(eqf, [cls.members[a], 0], {}))
            return out
        paths = eng.run(target, mk)
        ok = len(paths) == 1 and paths[0].kind == "return"
        wrong = []
        if ok:
            v = paths[0].value
            for a in names:
                for b in names:
                    if v[(a, b)] is not (a == b):
                        wrong.append(f"{a}=={b} -> {v[(a, b)]}")
                if tuple(v[(a, "str")]) != (True, False, False):
                    wrong.append(f"{a} vs strings/other -> {v[(a, 'str')]}")
        ctx.oblige(f"constants._Enum_Compare.__eq__[{short}]/post(members equal iff identical; equal to their own name only)", [], z3.BoolVal(bool(ok and not wrong)),
                   func=fn, replay="c08.enum_eq", info={"cls": dotted, "wrong": str(wrong[:4]), "structural": True})


def unit_result(ctx, mname):
    """PanopticaResult built with tp == 0 and empty lists: aggregate = handler
    value for the scenario, std = empty-list value, counts, no exception."""
    eng = ctx.engine()
    cfg = mk_cfg()
    std = z3.Int("cfg_std")
    tp, npred, nref = z3.Ints("tp npred nref")
    attr = SQ_ATTR[mname]

    def mk(e):
        h = mk_handler(e, [mname], {mname: cfg}, std)
        e.assume(wrap(z3.And(tp == 0, npred >= 0, nref >= 0)))
        res = e.call(e.resolve(PR + "PanopticaResult"), [], dict(
            reference_arr=None, prediction_arr=None, num_pred_instances=SymInt(npred), num_ref_instances=SymInt(nref),
            tp=SymInt(tp), list_metrics={metric(e, mname): []}, edge_case_handler=h))
        return [res], {}

    def target(res):
        g = eng.getattr
        return {"sq": g(res, attr), "std": g(res, attr + "_std"), "tp": g(res, "tp"), "fp": g(res, "fp"), "fn": g(res, "fn"),
                "all": eng.call(g(res, "get_list_metric"), [metric(eng, mname), eng.resolve(MM + "MetricMode").members["ALL"]], {})}
    paths = eng.run(target, mk)
    fn = PR + "PanopticaResult.__init__"
    ctx.expect(f"result[{mname}]: 4 scenarios x 5 values x 5 std values explored", len(paths) >= 100)
    info = {"metric": mname, "prefer": ["(<= npred 3)", "(<= nref 3)"]}
    for pi, p in enumerate(paths):
        nm = f"panoptica_result.PanopticaResult[{mname},tp=0]"
        if p.kind != "return":
            ctx.oblige(f"{nm}/completes-without-raising({p.exc.name()})#p{pi}", p.pc, z3.BoolVal(False), func=fn, replay="c08.result", info=info)
            continue
        if pi % 10 == 0:
            ctx.canary(f"{nm}#p{pi}", p.pc, func=fn)
        v = p.value
        istd = idx_of_value(v["std"])
        g = z3.And(
            cfg_goal(cfg, tp, npred, nref, v["sq"]),
            (std == istd) if istd is not None else z3.BoolVal(False),
            to_term(v["tp"]) == 0, to_term(v["fp"]) == npred, to_term(v["fn"]) == nref,
            z3.BoolVal(v["all"] == []),
        )
        ctx.oblige(f"{nm}/post({attr}=handler value, {attr}_std=empty-list value, tp=0, fp=n_pred, fn=n_ref)#p{pi}", p.pc, g, func=fn, replay="c08.result", info=info)


MULTI_CFG = {"RVD": (0, 1, 2, 3), "ASSD": (1, 2, 3, 4), "IOU": (2, 3, 4, 0), "DSC": (3, 4, 0, 1), "clDSC": (4, 0, 1, 2)}
MULTI_ORDERS = [["RVD", "ASSD", "IOU", "DSC"], ["ASSD", "DSC"], ["DSC", "IOU", "ASSD", "RVD", "clDSC"], ["clDSC", "RVD", "DSC"]]


def unit_result_multi(ctx, order):
    """Several list metrics, given in an arbitrary order and each with its own (pairwise different) configuration: with tp == 0 every
    aggregate is the value ITS OWN metric's configuration prescribes - whatever order the metrics were listed in."""
    eng = ctx.engine()
    tp, npred, nref = z3.Ints("tp npred nref")
    cfgs = {m: {sc: z3.IntVal(MULTI_CFG[m][k]) for k, sc in enumerate(SCENARIOS)} for m in order}

    def mk(e):
        h = mk_handler(e, order, cfgs, z3.IntVal(1))
        e.assume(wrap(z3.And(tp == 0, npred >= 0, nref >= 0)))
        res = e.call(e.resolve(PR + "PanopticaResult"), [], dict(
            reference_arr=None, prediction_arr=None, num_pred_instances=SymInt(npred), num_ref_instances=SymInt(nref),
            tp=SymInt(tp), list_metrics={metric(e, m): [] for m in order}, edge_case_handler=h))
        return [res], {}

    def target(res):
        return {m: eng.getattr(res, SQ_ATTR[m]) for m in order}
    paths = eng.run(target, mk)
    fn = PR + "PanopticaResult.__init__"
    tag = ",".join(order)
    ctx.expect(f"result[{tag}]: the four scenarios explored", len(paths) >= 4)
    info = {"order": tag, "prefer": ["(<= npred 3)", "(<= nref 3)"]}
    for pi, p in enumerate(paths):
        nm = f"panoptica_result.PanopticaResult[metrics listed as {tag},tp=0]"
        if p.kind != "return":
            ctx.oblige(f"{nm}/completes-without-raising({p.exc.name() if p.exc else p.kind})#p{pi}", p.pc, z3.BoolVal(False), func=fn, replay="c08.result_multi", info=info)
            continue
        if pi == 0:
            ctx.canary(f"{nm}#p{pi}", p.pc, func=fn)
        ctx.oblige(f"{nm}/post(every aggregate is its own metric's handler value)#p{pi}", p.pc,
                   z3.And(*[cfg_goal(cfgs[m], tp, npred, nref, p.value[m]) for m in order]), func=fn, replay="c08.result_multi", info=info)


def unit_no_influence(ctx, mname):
    """tp > 0: the aggregate is the plain mean of the list, whatever the handler."""
    eng = ctx.engine()
    cfg = mk_cfg()
    std = z3.Int("cfg_std")
    tp, npred, nref = z3.Ints("tp npred nref")
    vals = z3.Function("vals", I, R)
    attr = SQ_ATTR[mname]

    def mk(e):
        h = mk_handler(e, [mname], {mname: cfg}, std)
        e.assume(wrap(z3.And(tp > 0, npred >= tp, nref >= tp)))
        lst = SymSeq(SymInt(tp), lambda i: SymReal(vals(i), np=True), name="values")
        res = e.call(e.resolve(PR + "PanopticaResult"), [], dict(
            reference_arr=None, prediction_arr=None, num_pred_instances=SymInt(npred), num_ref_instances=SymInt(nref),
            tp=SymInt(tp), list_metrics={metric(e, mname): lst}, edge_case_handler=h))
        return [res], {}, {"lst": lst}

    def target(res):
        return {"sq": eng.getattr(res, attr), "std": eng.getattr(res, attr + "_std")}
    from pyvc.npmodel import AGG, seq_array
    paths = eng.run(target, mk)
    # the only handler access is the eager read of the empty-list-std value (5 members)
    ctx.expect(f"no-influence[{mname}]: no branching on the per-scenario configuration", 1 <= len(paths) <= 5)
    for pi, p in enumerate(paths):
        nm = f"panoptica_result.PanopticaResult[{mname},tp>0]"
        if p.kind != "return":
            ctx.oblige(f"{nm}/completes-without-raising#p{pi}", p.pc, z3.BoolVal(False), func=PR + "PanopticaResult.__init__")
            continue
        arr, n = seq_array(eng, p.state["lst"])
        g = z3.And(to_term(p.value["sq"]) == AGG["average"](arr, n), to_term(p.value["std"]) == AGG["pstd"](arr, n)) \
            if isinstance(p.value["sq"], Sym) and isinstance(p.value["std"], Sym) else z3.BoolVal(False)
        ctx.oblige(f"{nm}/post({attr}=mean, {attr}_std=population std; handler has no influence)#p{pi}", p.pc, g, func=PR + "PanopticaResult.__init__")


def unit_zero_cases(ctx):
    """_handle_zero_instances_cases: early exit to a result iff a side has no
    instance; counts forwarded unchanged; otherwise the pair itself."""
    eng = ctx.engine()
    npred, nref = z3.Ints("npred nref")
    captured = {}

    def init_summary(e, f, args, kwargs):
        obj = args[0]
        obj.attrs["_init_kwargs"] = dict(kwargs)
        obj.attrs["_init_args"] = list(args[1:])
        return None
    eng.summaries[PR + "PanopticaResult.__init__"] = init_summary
    fn = PE + "_handle_zero_instances_cases"
    mets = ["DSC", "IOU", "ASSD"]

    def mk(e):
        pair = e.new_obj(PP + "UnmatchedInstancePair", _prediction_arr="PRED", _reference_arr="REF",
                         n_prediction_instance=SymInt(npred), n_reference_instance=SymInt(nref))
        e.assume(wrap(z3.And(npred >= 0, nref >= 0)))
        return [pair], dict(edge_case_handler="HANDLER", global_metrics="GLOBAL", eval_metrics=[metric(e, m) for m in mets]), {"pair": pair}
    paths = eng.run(fn, mk)
    ctx.expect("_handle_zero_instances_cases: >= 3 edge paths and a pass-through path", len(paths) >= 4)
    for pi, p in enumerate(paths):
        nm = "panoptica_evaluator._handle_zero_instances_cases"
        if p.kind != "return":
            ctx.oblige(f"{nm}/no-exception#p{pi}", p.pc, z3.BoolVal(False), func=fn)
            continue
        v = p.value
        if isinstance(v, SObj) and v.cls.name == "PanopticaResult":
            kw = v.attrs.get("_init_kwargs", {})
            lm = kw.get("list_metrics")
            ok_static = (
                isinstance(lm, dict) and sorted(k._name for k in lm) == sorted(mets) and all(x == [] for x in lm.values())
                and kw.get("edge_case_handler") == "HANDLER" and kw.get("global_metrics") == "GLOBAL"
                and kw.get("reference_arr") == "REF" and kw.get("prediction_arr") == "PRED" and not v.attrs.get("_init_args")
            )
            tpv = kw.get("tp")
            g = z3.And(z3.BoolVal(bool(ok_static)), z3.Or(npred == 0, nref == 0),
                       to_term(tpv) == 0 if isinstance(tpv, (int, Sym)) else z3.BoolVal(False),
                       to_term(kw.get("num_pred_instances", -1)) == npred, to_term(kw.get("num_ref_instances", -1)) == nref)
            ctx.oblige(f"{nm}/post(edge: result with tp=0, empty lists for exactly the evaluated metrics, counts unchanged)#p{pi}", p.pc, g, func=fn)
        else:
            g = z3.And(z3.BoolVal(v is p.state["pair"]), npred > 0, nref > 0)
            ctx.oblige(f"{nm}/post(no empty side: pair returned unchanged)#p{pi}", p.pc, g, func=fn)


def build(ctx):
    ctx.trust("np.average/np.std/np.sum/np.min/np.max on a 1-D list: uninterpreted functions of (elements, length); np.std default = population std",
              "np.average([]) returns nan (with a RuntimeWarning)")
    ctx.unit("EdgeCaseResult.values", lambda: unit_values(ctx))
    ctx.unit("MetricZeroTPEdgeCaseHandling.__init__", lambda: unit_mztp_init(ctx))
    ctx.unit("MetricZeroTPEdgeCaseHandling.__call__", lambda: unit_mztp_call(ctx))
    ctx.unit("EdgeCaseHandler", lambda: unit_handler(ctx))
    ctx.unit("handler independence", lambda: unit_handler_independence(ctx))
    ctx.unit("_Enum_Compare.__eq__", lambda: unit_enum_eq(ctx))
    for order in MULTI_ORDERS:
        ctx.unit(f"result[{','.join(order)}]", lambda order=order: unit_result_multi(ctx, order))
    for m in ALL_METRICS:
        ctx.unit(f"PanopticaResult[{m},tp=0]", lambda m=m: unit_result(ctx, m))
        ctx.unit(f"PanopticaResult[{m},tp>0]", lambda m=m: unit_no_influence(ctx, m))
    ctx.unit("_handle_zero_instances_cases", lambda: unit_zero_cases(ctx))
    # "zero true positives" presupposes that the per-instance lists hold exactly the true positives (C02's evaluator contract), regenerated here
    include_stage(ctx, "C02", only=lambda mod, sub: [sub.unit(f"evaluate_matched_instance[{dec}]", lambda dec=dec: mod.unit_eval_matched(sub, dec, ["DSC", "IOU", "ASSD"])) for dec in (None, "IOU", "ASSD")])
    # a "no match" evaluation is one in which relabelling matched nothing (C04), and the set of metrics whose zero-TP value is asked for is
    # the configured one: constructing evaluators must not change a shared metric list (C15's constructor frame)
    include_stage(ctx, "C04")
    include_stage(ctx, "C12")  # which array is the prediction and which the reference when a group is evaluated (empty prediction vs empty reference)
    include_stage(ctx, "C15", only=lambda mod, sub: [sub.unit("ctor_defaults", lambda: mod.unit_ctor_defaults(sub))])
    ctx.add_bounded("c08-enum", "c08.bounded")


def concretise(ctx, o, r):
    if (o.info or {}).get("stage"):
        return stage_concretise(ctx, o, r)
    m = r.get("model") or {}
    gi = lambda k, d=0: model_int(m.get(k, d))
    cfg = {s: max(0, min(4, gi(f"cfg_{s}"))) for s in SCENARIOS}
    base = {"cfg": cfg, "std": max(0, min(4, gi("cfg_std"))), "tp": gi("tp"), "npred": max(0, gi("npred")), "nref": max(0, gi("nref"))}
    if o.replay == "c08.enum_eq":
        return {"cls": o.info.get("cls")}
    if o.replay == "c08.result_multi":
        return {"order": o.info["order"].split(","), "npred": max(0, gi("npred")), "nref": max(0, gi("nref"))}
    if o.replay == "c08.handlers":
        base["cfgB"] = {s: max(0, min(4, gi(f"cfgB_{s}"))) for s in SCENARIOS}
        base["stdB"] = max(0, min(4, gi("cfgB_std")))
        base["tp"] = 0
    if o.replay == "c08.result":
        base["metric"] = o.info.get("metric", "IOU")
    return base
