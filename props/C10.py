"""C10 - results are invariant under padding, translation, flips and axis permutation."""
from __future__ import annotations
import z3
from pyvc.values import *
from pyvc.objects import *
from pyvc.npmodel import Space, VArr, base_array, card, Vox, Box
from .common import *

LEVEL = "proof"
EXPLANATION = ("Geometric contracts: _get_bbox_nd is executed symbolically for 1, 2 and 3 dimensions with symbolic extents, foreground and padding: "
               "slice k is [max(lo_k - pad, 0), min(hi_k + pad, extent_k) + 1) and contains every non-zero voxel; crop_data and _evaluate_instance "
               "slice both arrays with the same box, which contains the union of both foregrounds, so no foreground voxel is lost (cropping == "
               "masking by the box), crop_data is idempotent.  Every stage contract is stated over voxel sets (cardinalities, label sets, relative "
               "coordinates), which do not depend on where the arrays sit in a larger array or on the order/direction of the axes; memory layout "
               "is assumed not to affect numpy/cc3d/scipy results (bounded comparison on C/Fortran/negative-stride views).")
NU = "panoptica.utils.numpy_utils."
IE = "panoptica.instance_evaluator."


def unit_bbox(ctx, ndim):
    eng = ctx.engine(feas_timeout_ms=800)
    pad = z3.Int("pad")

    def mk(e):
        e.__dict__["bbox_extremes"] = []
        sp = Space("S", ndim=ndim)
        A = base_array(e, "A", "uint8", sp)
        e.assume(wrap(z3.And(pad >= 0, pad <= 255)))
        return [A], {"px_dist": SymInt(pad)}, {"sp": sp, "A": A}
    fn = NU + "_get_bbox_nd"
    snaps = []

    def target(A, px_dist):
        out = eng.call(eng.resolve(fn), [A], {"px_dist": px_dist})
        snaps.append(list(eng.bbox_extremes))
        return out
    paths = eng.run(target, mk)
    nm = f"numpy_utils._get_bbox_nd[{ndim}-D]"
    info = {"ndim": ndim}
    si = 0
    ctx.expect(f"{nm}: a returning path", any(p.kind == "return" for p in paths))
    for pi, p in enumerate(paths):
        sp, A = p.state["sp"], p.state["A"]
        fg = A.base(sp.x) != 0
        if p.kind == "raise":
            ctx.oblige(f"{nm}/raises-only-for-an-empty-image({p.exc.name()})#p{pi}", p.pc, card(fg, sp) == 0, func=fn, replay="c10.bbox", info=info)
            continue
        ext = snaps[si]
        si += 1
        out = p.value
        ok = isinstance(out, tuple) and len(out) == ndim and all(isinstance(s_, slice) for s_ in out) and sorted(e_[0] for e_ in ext) == list(range(ndim))
        if not ok:
            ctx.oblige(f"{nm}/returns-one-slice-per-axis#p{pi}", [], z3.BoolVal(False), func=fn, replay="c10.bbox", info=info)
            continue
        by_ax = {e_[0]: e_ for e_ in ext}
        v = z3.Const("v_any", Vox)
        goals_formula, goals_contain = [], []
        for k in range(ndim):
            _, lo, hi, _arr = by_ax[k]
            st, sto = to_term(out[k].start), to_term(out[k].stop)
            mx = lambda a, b: z3.If(a >= b, a, b)
            mn = lambda a, b: z3.If(a <= b, a, b)
            goals_formula.append(z3.And(st == mx(lo - pad, 0), sto == mn(hi + pad, sp.extent(k)) + 1))
            goals_contain.append(z3.And(st >= 0, st <= sp.coord(k)(v), sp.coord(k)(v) < sto))
        ctx.oblige(f"{nm}/post(slice k = [max(lo_k - pad, 0), min(hi_k + pad, extent_k) + 1), axes in order)#p{pi}", p.pc, z3.And(*goals_formula), func=fn, replay="c10.bbox", info=info)
        ctx.oblige(f"{nm}/post(the box contains every non-zero voxel)#p{pi}", p.pc, z3.Implies(A.base(v) != 0, z3.And(*goals_contain)), func=fn, replay="c10.bbox", info=info)
        ctx.canary(f"{nm}#p{pi}", p.pc, func=fn)


def bbox_contract(rec):
    """contract of _get_bbox_nd as used by its callers: a box that contains every non-zero voxel of its argument"""
    def s(e, f, args, kwargs):
        img = args[0] if args else kwargs["img"]
        if not isinstance(img, VArr):
            raise Unsupported("_get_bbox_nd on a non-array")
        e.fresh_n += 1
        inb = z3.Function(f"inbox!{e.fresh_n}", Vox, z3.BoolSort())
        v = z3.Const(f"bv!{e.fresh_n}", Vox)
        nz = img.nonzero_term()
        if not e.truth(wrap(card(nz, img.space) > 0)):
            from pyvc.interp import PyRaise
            raise PyRaise(PyExc(AssertionError, ("bbox_nd: img is empty, cannot calculate a bbox",)))
        e.assume(z3.ForAll([v], z3.Implies(z3.substitute(nz, (img.space.x, v)), inb(v))), why="contract of _get_bbox_nd: the box contains every non-zero voxel")
        b = Box(lambda q: inb(q), name=f"bbox{e.fresh_n}")
        rec.setdefault("boxes", []).append((b, img))
        return b
    return s


def unit_crop_data(ctx, dtype):
    eng = ctx.engine()
    rec = {}
    eng.summaries[NU + "_get_bbox_nd"] = bbox_contract(rec)

    def mk(e):
        rec.clear()
        sp = Space("S", ndim=3)
        P = base_array(e, "P", dtype, sp)
        Rr = base_array(e, "R", dtype, sp)
        e.assume(wrap(sp.size > 0), why="non-empty arrays")
        pair = e.new_obj(PP + "UnmatchedInstancePair", _prediction_arr=P, _reference_arr=Rr, crop=None, is_cropped=False, uncropped_shape=sp.shape,
                         n_dim=3, _ref_labels="RL", _pred_labels="PL", n_prediction_instance=1, n_reference_instance=1, dtype=None)
        return [pair], {}, {"sp": sp, "P": P, "R": Rr, "pair": pair}

    def target(pair):
        eng.call(eng.getattr(pair, "crop_data"), [], {})
        first = (pair.attrs["_prediction_arr"], pair.attrs["_reference_arr"], pair.attrs["is_cropped"], len(rec.get("boxes", [])))
        eng.call(eng.getattr(pair, "crop_data"), [], {})
        second = (pair.attrs["_prediction_arr"], pair.attrs["_reference_arr"], pair.attrs["is_cropped"], len(rec.get("boxes", [])))
        return first, second
    fn = PP + "_ProcessingPair.crop_data"
    for pi, p in enumerate(eng.run(target, mk)):
        nm = f"processing_pair._ProcessingPair.crop_data[{dtype}]"
        if p.kind != "return":
            ctx.oblige(f"{nm}/no-exception({p.exc.name() if p.exc else p.kind})#p{pi}", p.pc, z3.BoolVal(False), func=fn, replay="c10.e2e")
            continue
        sp, P, Rr = p.state["sp"], p.state["P"], p.state["R"]
        (p1, r1, c1, n1), (p2, r2, c2, n2) = p.value
        same_box = getattr(p1, "box", None) is not None and getattr(p1, "box", None) is getattr(r1, "box", None)
        ctx.oblige(f"{nm}/post(both arrays sliced with the same box; nothing of either foreground is lost)#p{pi}", p.pc,
                   z3.And(z3.BoolVal(bool(same_box) and c1 is True), p1.term == P.base(sp.x), r1.term == Rr.base(sp.x)), func=fn, replay="c10.e2e")
        ctx.oblige(f"{nm}/post(idempotent: a second call changes nothing)#p{pi}", [], z3.BoolVal(p2 is p1 and r2 is r1 and c2 is True and n2 == n1), func=fn)
        ctx.oblige(f"{nm}/frame(caller buffers not written; cropped arrays are views)#p{pi}", [],
                   z3.BoolVal(p1.buf == P.buf and r1.buf == Rr.buf and not any(ev[0] == "arr-write" and ev[2] == "caller" for ev in p.events)), func=fn)


def unit_evaluate_instance(ctx):
    """_evaluate_instance: per-instance masks are cropped with one common box that loses nothing; every requested metric is
    evaluated on exactly those two masks (this is the contract of _evaluate_instance that C02 uses)."""
    eng = ctx.engine()
    rec = {}
    eng.summaries[NU + "_get_bbox_nd"] = bbox_contract(rec)
    calls = []

    def metric_call(e, f, args, kwargs):
        calls.append((args[0], list(args[1:]), dict(kwargs)))
        return SymReal(e.fresh("metric_value", R), True, "float64")
    eng.summaries[MM + "Metric.__call__"] = metric_call
    idx = z3.Int("ref_idx")
    names = ["DSC", "IOU", "ASSD", "RVD"]

    def mk(e):
        rec.clear()
        del calls[:]
        sp = Space("S", ndim=3)
        P = base_array(e, "P", "uint16", sp)
        Rr = base_array(e, "R", "uint16", sp)
        return [Rr, P, SymInt(idx), [metric(e, m) for m in names]], {}, {"sp": sp, "P": P, "R": Rr}
    fn = IE + "_evaluate_instance"
    snaps = []

    def target(*a):
        out = eng.call(eng.resolve(fn), list(a), {})
        snaps.append(list(calls))
        return out
    paths = eng.run(target, mk)
    si = 0
    ctx.expect("_evaluate_instance: empty-mask path and evaluating path", len([p for p in paths if p.kind == "return"]) >= 2)
    for pi, p in enumerate(paths):
        nm = "instance_evaluator._evaluate_instance"
        if p.kind != "return":
            ctx.oblige(f"{nm}/no-exception({p.exc.name() if p.exc else p.kind})#p{pi}", p.pc, z3.BoolVal(False), func=fn, replay="c10.e2e")
            continue
        cs = snaps[si]
        si += 1
        sp, P, Rr = p.state["sp"], p.state["P"], p.state["R"]
        X, Y = Rr.base(sp.x) == idx, P.base(sp.x) == idx
        out = p.value
        if out == {}:
            ctx.oblige(f"{nm}/post(empty result only if one of the two masks is empty)#p{pi}", p.pc, z3.Or(card(X, sp) == 0, card(Y, sp) == 0), func=fn, replay="c10.e2e")
            continue
        ok = isinstance(out, dict) and [k._name for k in out] == names and len(cs) == len(names) and [c[0]._name for c in cs] == names
        g = [z3.BoolVal(bool(ok)), card(X, sp) > 0, card(Y, sp) > 0]
        if ok:
            for c in cs:
                a = c[1]
                ra, pa = (a[0], a[1]) if len(a) >= 2 else (c[2].get("reference_arr"), c[2].get("prediction_arr"))
                okc = isinstance(ra, VArr) and isinstance(pa, VArr) and len(a) <= 2 and not c[2]
                g.append(z3.And(z3.BoolVal(bool(okc)), ra.nonzero_term() == X, pa.nonzero_term() == Y) if okc else z3.BoolVal(False))
        ctx.oblige(f"{nm}/post(exactly the requested metrics, each evaluated on the instance's two masks - cropped with one box that loses nothing, no label selection)#p{pi}",
                   p.pc, z3.And(*g), func=fn, replay="c10.e2e")
        ctx.oblige(f"{nm}/frame(caller arrays not written)#p{pi}", [], z3.BoolVal(not any(ev[0] == "arr-write" and ev[2] == "caller" for ev in p.events)), func=fn)
        ctx.canary(f"{nm}#p{pi}", p.pc, func=fn)


def unit_lemmas(ctx):
    """what is position-independent: the quantities the stage contracts talk about"""
    # cardinalities are sums over a partition of the voxel set: re-indexing the voxels by any bijection (padding + translation, flip, transpose)
    # maps the partition cell by cell, so every Venn-region size is preserved; stated for one region with the bijection as a function pair
    f = z3.Function("reindex", Vox, Vox)
    finv = z3.Function("reindex_inv", Vox, Vox)
    A = z3.Function("A_arr", Vox, I)
    Bf = z3.Function("A_transformed", Vox, I)
    v = z3.Const("lv", Vox)
    hyp = [z3.ForAll([v], z3.And(finv(f(v)) == v, f(finv(v)) == v)), z3.ForAll([v], Bf(f(v)) == A(v))]
    w = z3.Const("lw", Vox)
    ctx.oblige("lemma.reindexing(a voxel of the transformed array has a label iff its preimage has: label sets and region membership are preserved)", hyp,
               z3.And(Bf(w) == A(finv(w)), z3.Implies(A(v) == 3, Bf(f(v)) == 3)), kind="lemma")
    # distances between voxels are translation / flip / permutation invariant (used by ASSD, C07)
    x1, x2, y1, y2, t1, t2, n1 = z3.Reals("x1 x2 y1 y2 t1 t2 n1")
    d2 = lambda a, b, c, d: (a - c) * (a - c) + (b - d) * (b - d)
    ctx.oblige("lemma.distance-invariance(translation, mirroring, axis exchange)", [],
               z3.And(d2(x1 + t1, x2 + t2, y1 + t1, y2 + t2) == d2(x1, x2, y1, y2), d2(n1 - x1, x2, n1 - y1, y2) == d2(x1, x2, y1, y2), d2(x2, x1, y2, y1) == d2(x1, x2, y1, y2)), kind="lemma")


def build(ctx):
    ctx.trust("np.any(axis)/np.where: extreme foreground indices along an axis; basic slicing returns a view",
              "modelling contract: cropping to a box == masking by the box for every foreground-determined quantity",
              "ASSUMED: numpy / cc3d / scipy results do not depend on memory layout (bounded comparison on C, Fortran and negative-stride views)",
              "connected components and face/full neighbourhoods are invariant under translation, mirroring and axis permutation (property of the assumed backend contracts)")
    for nd in (1, 2, 3):
        ctx.unit(f"bbox[{nd}]", lambda nd=nd: unit_bbox(ctx, nd))
    for dt in ("uint8", "uint32"):
        ctx.unit(f"crop_data[{dt}]", lambda dt=dt: unit_crop_data(ctx, dt))
    ctx.unit("evaluate_instance", lambda: unit_evaluate_instance(ctx))
    ctx.unit("lemmas", lambda: unit_lemmas(ctx))
    # layout independence of panoptica's own voxel alignment: the candidate-pair routine and the relabelling (C09) align the two arrays
    # index by index; their obligations (incl. "no memory-order flattening") are regenerated here
    include_stage(ctx, "C09")
    # counts are invariant under re-orientation only if relabelling keeps the partition whatever numbering the components got (C04)
    include_stage(ctx, "C04")
    ctx.add_bounded("c10-transforms", "c10.bounded")


def concretise(ctx, o, r):
    if (o.info or {}).get("stage"):
        return stage_concretise(ctx, o, r)
    return {"ndim": o.info.get("ndim"), "obligation": o.name}
