"""C01 - reported panoptic results equal the published definitions, end to end."""
from __future__ import annotations
import z3
from pyvc.values import *
from pyvc.objects import *
from pyvc.interp import PyRaise
from .common import *

LEVEL = "proof"
EXPLANATION = ("Composition contract of panoptica_evaluator.panoptic_evaluate: the real function is executed symbolically for each of the three input "
               "classes with every stage (crop_data, copy, approximate_instances, _handle_zero_instances_cases, match_instances, "
               "evaluate_matched_instance, PanopticaResult.__init__, calculate_all) replaced by its contract summary and all logging/timing options "
               "symbolic.  Proved for all paths: the stages run in the documented order, each exactly once and each on the object the previous stage "
               "returned; the configured metrics / decision metric / decision threshold / edge case handler reach the stages unchanged; the "
               "result fields are handed over field by field (num_pred to num_pred, num_ref to num_ref, tp, list_metrics); an empty side leaves "
               "the pipeline through the zero-instance result; 'end of pipeline' is unreachable; the options influence nothing but printing and "
               "calculate_all.  The stage contracts this composition relies on are the proof obligations of C05 (components), C09 (candidates), "
               "C03 (best-first selection), C04 (relabelling), C02 (tp and decision), C06/C07/C13 (metric values), C08 (empty sides and "
               "sq/rq/pq), C10 (crop); C01's check re-generates and discharges the C02, C03, C04, C05 and C09 obligations as part of its own run, so a "
               "change to a stage fails a named obligation here too.  End-to-end agreement with an independent executable specification "
               "(spec/pipeline.py: flood-fill components, best-first greedy, set formulas) is additionally compared on enumerated and generated "
               "small inputs -- labelled bounded, not counted as proved.")
PE = "panoptica.panoptica_evaluator."
PR = "panoptica.panoptica_result."
IAQ = "panoptica.instance_approximator."
IE = "panoptica.instance_evaluator."
EC = "panoptica.utils.edge_case_handling."

STAGE_MODULES = ["C05", "C09", "C03", "C04", "C02"]


def unit_compose(ctx, cls_name):
    """Stage summaries carry the stage contracts that matter for the plumbing: instance counts of a pair (symbolic), the matcher
    preserves them (C04), the zero-instance exit fires iff a side is empty and reports the counts with tp = 0 (C08), the evaluator
    reports the counts of the pair it was given (C02).  Every produced object records its provenance."""
    eng = ctx.engine(feas_timeout_ms=600)
    flags = {n: z3.Bool(n) for n in ("log_times", "result_all", "verbose", "verbose_calc")}
    cnt = [0]
    made, snaps = [], []

    def pair(e, cls, by, src, npred, nref, **kw):
        return e.new_obj(PP + cls if isinstance(cls, str) else cls, made_by=by, made_from=src, n_prediction_instance=npred, n_reference_instance=nref, **kw)

    def crop(e, f, args, kwargs):
        return None  # C10: cropping changes no instance and no metric value

    def copy(e, f, args, kwargs):
        src = args[0]
        return pair(e, src.cls, "copy", src, src.attrs.get("n_prediction_instance"), src.attrs.get("n_reference_instance"))

    def approx(e, f, args, kwargs):
        cnt[0] += 1
        npred, nref = z3.Int(f"cc_npred!{cnt[0]}"), z3.Int(f"cc_nref!{cnt[0]}")
        e.assume(z3.And(npred >= 0, nref >= 0), why="instance counts are natural numbers (C05 post)")
        return pair(e, "UnmatchedInstancePair", "approximate", args[1], SymInt(npred), SymInt(nref), stage_self=args[0], stage_kwargs=dict(kwargs), stage_nargs=len(args))

    def match(e, f, args, kwargs):
        src = args[1]
        return pair(e, "MatchedInstancePair", "match", src, src.attrs.get("n_prediction_instance"), src.attrs.get("n_reference_instance"),
                    stage_self=args[0], stage_kwargs=dict(kwargs), stage_nargs=len(args))

    def zero_cases(e, f, args, kwargs):
        kw = dict(kwargs)
        if args:
            kw["processing_pair"] = args[0]
        pp = kw.pop("processing_pair")
        npred, nref = pp.attrs["n_prediction_instance"], pp.attrs["n_reference_instance"]
        if e.truth(wrap(z3.Or(to_term(npred) == 0, to_term(nref) == 0))):
            return e.new_obj(PR + "PanopticaResult", made_by="zero", made_from=pp, stage_kwargs=kw, _evaluation_metrics={},
                             r_num_pred=npred, r_num_ref=nref, r_tp=0)
        return pp

    def evaluate(e, f, args, kwargs):
        kw = dict(kwargs)
        if args:
            kw["matched_instance_pair"] = args[0]
        pp = kw.pop("matched_instance_pair")
        cnt[0] += 1
        tp = z3.Int(f"tp!{cnt[0]}")
        o = e.new_obj(PP + "EvaluateInstancePair", made_by="evaluate", made_from=pp, stage_kwargs=kw, stage_nargs=len(args),
                      reference_arr=f"EIP{cnt[0]}.ref", prediction_arr=f"EIP{cnt[0]}.pred", num_pred_instances=pp.attrs["n_prediction_instance"],
                      num_ref_instances=pp.attrs["n_reference_instance"], tp=SymInt(tp), list_metrics=[f"EIP{cnt[0]}.lists"])
        made.append(o)
        return o

    def result_init(e, f, args, kwargs):
        self = args[0]
        self.attrs.update(made_by="init", init_kwargs=dict(kwargs), init_nargs=len(args) - 1, _evaluation_metrics={})
        return None
    S = eng.summaries
    S[PP + "_ProcessingPair.crop_data"] = crop
    S[PP + "_ProcessingPair.copy"] = copy
    S[PP + "_ProcessingPairInstanced.copy"] = copy
    S[PP + "MatchedInstancePair.copy"] = copy
    S[IAQ + "InstanceApproximator.approximate_instances"] = approx
    S[IM + "InstanceMatchingAlgorithm.match_instances"] = match
    S[PE + "_handle_zero_instances_cases"] = zero_cases
    S[IE + "evaluate_matched_instance"] = evaluate
    S[PR + "PanopticaResult.__init__"] = result_init
    S[PR + "PanopticaResult.calculate_all"] = lambda e, f, a, k: None

    def mk(e):
        cnt[0] = 0
        del made[:]
        n0p, n0r = z3.Int("in_npred"), z3.Int("in_nref")
        e.assume(z3.And(n0p >= 0, n0r >= 0), why="instance counts are natural numbers")
        inp = e.new_obj(PP + cls_name, made_by="input")
        if cls_name != "SemanticPair":
            inp.attrs.update(n_prediction_instance=SymInt(n0p), n_reference_instance=SymInt(n0r))
        ap = e.new_obj(IAQ + "ConnectedComponentsInstanceApproximator")
        mt = e.new_obj(IM + "NaiveThresholdMatching")
        handler = e.new_obj(EC + "EdgeCaseHandler")
        im, gm = ["IM-TOKEN"], ["GM-TOKEN"]
        dm = SymOpt(z3.Bool("dm_is_none"), "DM-TOKEN")
        dt = SymOpt(z3.Bool("dt_is_none"), SymReal(z3.Real("dt")))
        kw = dict(input_pair=inp, instance_approximator=ap, instance_matcher=mt, instance_metrics=im, global_metrics=gm, decision_metric=dm,
                  decision_threshold=dt, edge_case_handler=handler, log_times=SymBool(flags["log_times"]), result_all=SymBool(flags["result_all"]),
                  verbose=SymBool(flags["verbose"]), verbose_calc=SymBool(flags["verbose_calc"]))
        return [], kw, {"inp": inp, "ap": ap, "mt": mt, "handler": handler, "im": im, "gm": gm, "dm": dm, "dt": dt}

    def target(**kw):
        out = eng.call(eng.resolve(PE + "panoptic_evaluate"), [], kw)
        snaps.append(list(made))
        return out
    paths = eng.run(target, mk)
    fn = PE + "panoptic_evaluate"
    nm = f"panoptica_evaluator.panoptic_evaluate[{cls_name}]"
    si = 0
    info = {"input_class": cls_name}
    ctx.expect(f"{nm}: stage/option forks give several paths", len(paths) >= 4)

    def strip(o):
        """follow copies back to the object they were taken from"""
        while isinstance(o, SObj) and o.attrs.get("made_by") == "copy":
            o = o.attrs["made_from"]
        return o

    def same_cfg(v, want):
        """the configured value reaches the stage: identical object, equal list, or the same optional/symbolic value"""
        if v is want:
            return True
        if isinstance(v, list) and isinstance(want, list):
            return v == want
        if isinstance(want, SymOpt) and isinstance(v, SymOpt):
            return v.is_none.eq(want.is_none) and (v.value is want.value or (isinstance(v.value, Sym) and isinstance(want.value, Sym) and v.value.term.eq(want.value.term)))
        return False
    exits = set()
    for pi, p in enumerate(paths):
        if p.kind != "return":
            what = p.exc.name() if p.exc else p.kind
            ctx.oblige(f"{nm}/end-of-pipeline and other exceptions unreachable({what}: {str(p.exc.args)[:50] if p.exc else ''})#p{pi}", p.pc, z3.BoolVal(False),
                       func=fn, replay="c01.e2e", info=info)
            continue
        st = p.state
        eips = snaps[si]
        si += 1
        out = p.value
        R = out[0] if isinstance(out, tuple) and len(out) == 2 else None
        ok_shape = isinstance(R, SObj) and R.cls.name == "PanopticaResult"
        ctx.oblige(f"{nm}/post(returns (PanopticaResult, intermediate data))#p{pi}", p.pc, z3.BoolVal(bool(ok_shape)), func=fn, replay="c01.e2e", info=info)
        if not ok_shape:
            continue

        def unmatched_stage(u):
            """u is the pair of the instance stage: the (copied) input for instance inputs, approximate(copy of input) for semantic input"""
            u = strip(u)
            if cls_name == "UnmatchedInstancePair":
                return u is st["inp"]
            if cls_name == "SemanticPair":
                return isinstance(u, SObj) and u.attrs.get("made_by") == "approximate" and strip(u.attrs["made_from"]) is st["inp"] \
                    and u.attrs["stage_self"] is st["ap"] and not u.attrs["stage_kwargs"] and u.attrs["stage_nargs"] == 2
            return False

        def matched_stage(m):
            m = strip(m)
            if cls_name == "MatchedInstancePair":
                return m is st["inp"]
            return isinstance(m, SObj) and m.attrs.get("made_by") == "match" and unmatched_stage(m.attrs["made_from"]) \
                and m.attrs["stage_self"] is st["mt"] and not m.attrs["stage_kwargs"] and m.attrs["stage_nargs"] == 2
        by = R.attrs.get("made_by")
        exits.add(by)
        if by == "zero":
            src = R.attrs["made_from"]
            kw = R.attrs["stage_kwargs"]
            prov = (unmatched_stage(src) or matched_stage(src)) and same_cfg(kw.get("eval_metrics"), st["im"]) and same_cfg(kw.get("global_metrics"), st["gm"]) \
                and kw.get("edge_case_handler") is st["handler"] and set(kw) <= {"eval_metrics", "global_metrics", "edge_case_handler"}
            ctx.oblige(f"{nm}/post[empty side](the zero-instance result is built from the instance-stage pair with the configured metrics and handler)#p{pi}", p.pc,
                       z3.BoolVal(bool(prov)), func=fn, replay="c01.e2e", info=dict(info, structural=True))
            s0 = strip(src)
            ctx.oblige(f"{nm}/post[empty side](taken only when a side has no instance)#p{pi}", p.pc,
                       z3.Or(to_term(s0.attrs["n_prediction_instance"]) == 0, to_term(s0.attrs["n_reference_instance"]) == 0) if "n_prediction_instance" in s0.attrs else z3.BoolVal(False),
                       func=fn, replay="c01.e2e", info=info)
        elif by == "init":
            kw = R.attrs["init_kwargs"]
            # the evaluation the fields come from: all fields must be the fields of one EvaluateInstancePair
            lm = kw.get("list_metrics")
            E = None
            for o_ in eips:
                if o_.attrs.get("list_metrics") is lm:
                    E = o_
            hand = E is not None and R.attrs.get("init_nargs") == 0 and set(kw) == {"reference_arr", "prediction_arr", "num_pred_instances", "num_ref_instances", "tp",
                                                                                    "list_metrics", "global_metrics", "edge_case_handler"}
            if hand:
                a = E.attrs
                hand = kw["reference_arr"] is a["reference_arr"] and kw["prediction_arr"] is a["prediction_arr"] and same_cfg(kw["global_metrics"], st["gm"]) \
                    and kw["edge_case_handler"] is st["handler"]
            ctx.oblige(f"{nm}/hand-over(the result is constructed from one evaluation: arrays, list_metrics, configured global metrics and handler)#p{pi}", p.pc,
                       z3.BoolVal(bool(hand)), func=fn, replay="c01.e2e", info=dict(info, structural=True))
            if not hand:
                continue
            a = E.attrs
            ctx.oblige(f"{nm}/hand-over(num_pred_instances, num_ref_instances and tp of the result are those of the evaluation, not exchanged)#p{pi}", p.pc,
                       z3.And(to_term(kw["num_pred_instances"]) == to_term(a["num_pred_instances"]), to_term(kw["num_ref_instances"]) == to_term(a["num_ref_instances"]),
                              to_term(kw["tp"]) == to_term(a["tp"])), func=fn, replay="c01.e2e", info=info)
            ek = a["stage_kwargs"]
            prov = matched_stage(a["made_from"]) and same_cfg(ek.get("eval_metrics"), st["im"]) and same_cfg(ek.get("decision_metric"), st["dm"]) \
                and same_cfg(ek.get("decision_threshold"), st["dt"]) and set(ek) == {"eval_metrics", "decision_metric", "decision_threshold"} and a["stage_nargs"] <= 1
            ctx.oblige(f"{nm}/chain(the evaluation ran on match(approximate(input)) - as far as the input class needs - with the configured instance metrics, "
                       f"decision metric and decision threshold)#p{pi}", p.pc, z3.BoolVal(bool(prov)), func=fn, replay="c01.e2e", info=dict(info, structural=True))
            m0 = strip(a["made_from"])
            if "n_prediction_instance" in m0.attrs:
                ctx.oblige(f"{nm}/pre(matching and evaluation only run when both sides have instances)#p{pi}", p.pc,
                           z3.And(to_term(m0.attrs["n_prediction_instance"]) > 0, to_term(m0.attrs["n_reference_instance"]) > 0), func=fn, replay="c01.e2e", info=info)
        else:
            ctx.oblige(f"{nm}/post(result comes from the evaluation or the zero-instance exit)#p{pi}", p.pc, z3.BoolVal(False), func=fn, replay="c01.e2e", info=info)
        ctx.oblige(f"{nm}/post(result carries the configured global metrics)#p{pi}", p.pc, z3.BoolVal(same_cfg(R.attrs.get("_global_metrics"), st["gm"])), func=fn)
        writes = [ev for ev in p.events if ev[0] == "setattr" and ev[1] in (st["ap"].oid, st["mt"].oid, st["handler"].oid)]
        ctx.oblige(f"{nm}/frame(approximator, matcher and handler objects are not written)#p{pi}", p.pc, z3.BoolVal(not writes), func=fn,
                   info=dict(info, writes=str(writes[:3])))
        if pi == 0:
            ctx.canary(f"{nm}#p{pi}", p.pc, func=fn)
    ctx.expect(f"{nm}: both the evaluation exit and the empty-side exit are explored", exits >= {"zero", "init"})


def unit_missing_stage(ctx):
    """A semantic / unmatched pair without approximator / matcher is rejected with an AssertionError, never evaluated as something else."""
    eng = ctx.engine()
    S = eng.summaries
    S[PP + "_ProcessingPair.crop_data"] = lambda e, f, a, k: None
    S[PP + "_ProcessingPair.copy"] = lambda e, f, a, k: e.new_obj(a[0].cls)
    S[PP + "_ProcessingPairInstanced.copy"] = lambda e, f, a, k: e.new_obj(a[0].cls)
    S[PP + "MatchedInstancePair.copy"] = lambda e, f, a, k: e.new_obj(a[0].cls)
    S[PE + "_handle_zero_instances_cases"] = lambda e, f, a, k: (a[0] if a else k["processing_pair"])
    for cls_name, missing in (("SemanticPair", "instance_approximator"), ("UnmatchedInstancePair", "instance_matcher")):
        def mk(e, cls_name=cls_name):
            return [], dict(input_pair=e.new_obj(PP + cls_name), instance_approximator=None, instance_matcher=None, edge_case_handler=e.new_obj(EC + "EdgeCaseHandler"))

        def target(**kw):
            return eng.call(eng.resolve(PE + "panoptic_evaluate"), [], kw)
        ps = eng.run(target, mk)
        ok = len(ps) >= 1 and all(p.kind == "raise" and p.exc.name() == "AssertionError" for p in ps)
        ctx.oblige(f"panoptica_evaluator.panoptic_evaluate[{cls_name}, no {missing}]/raises AssertionError", [], z3.BoolVal(bool(ok)), func=PE + "panoptic_evaluate")


def build(ctx):
    for cls_name in ("SemanticPair", "UnmatchedInstancePair", "MatchedInstancePair"):
        ctx.unit(f"panoptic_evaluate[{cls_name}]", lambda c=cls_name: unit_compose(ctx, c))
    ctx.unit("panoptic_evaluate[missing stage]", lambda: unit_missing_stage(ctx))
    # the stage contracts the composition rests on: regenerate and discharge them in this run
    for m in STAGE_MODULES:
        include_stage(ctx, m)
    ctx.trust("stage summaries used in the composition run are the contracts proved in C02-C10/C13 (C02, C03, C04, C05, C09 re-discharged here)",
              "time.perf_counter / print (no effect on values)")
    ctx.add_bounded("c01-spec-conformance", "c01.bounded", exhaustive_1d=5 if ctx.tier == "quick" else 6, exhaustive_2d=(2, 3),
                    n_random=400 if ctx.tier == "quick" else 8000)


def concretise(ctx, o, r):
    if (o.info or {}).get("stage"):
        return stage_concretise(ctx, o, r)
    return {"seed": 0, "n_random": 150, "exhaustive_1d": 4, "exhaustive_2d": (2, 2), "only": o.info.get("input_class")}
