"""C17 - aggregation survives crashes, restarts and neighbouring aggregators."""
from __future__ import annotations
import z3
from pyvc.values import *
from pyvc.objects import *
from pyvc.fsmodel import PathModel, Written
from .common import *

LEVEL = "proof"
EXPLANATION = ("Crash Hoare logic over a ghost file system: the real Panoptica_Aggregator constructor and evaluate() are executed for every initial "
               "state of the output file {absent, empty, header only, header + rows} and stale buffer contents, and once per crash point (after "
               "every single file operation): the crash invariant (output is absent, empty, or header + complete rows without duplicate subjects) "
               "holds at every intermediate state; the constructor re-establishes 'header exactly once' and 'claims = finished subjects' from every "
               "such state; buffer paths of different output files are distinct.  Atomic create / single-row append are the stated assumptions.")
PA = "panoptica.panoptica_aggregator."
PE = "panoptica.panoptica_evaluator."
SC = "panoptica.utils.segmentation_class."
GROUPS = ["g1", "g2"]
METS = ["m1", "m2"]
HEADER = ["subject_name"] + [f"{g}-{m}" for g in GROUPS for m in METS]
OUT = "/data/run/results.tsv"   # the file rows end up in
ARG = OUT                        # the path handed to the constructor
VARIANTS = {"tsv": ("/data/run/results.tsv", "/data/run/results.tsv"), "noext": ("/data/run/results", "/data/run/results.tsv")}


def use_variant(v):
    global ARG, OUT
    ARG, OUT = VARIANTS[v]


def mk_evaluator(e):
    scg = e.new_obj(SC + "SegmentationClassGroups", _SegmentationClassGroups__group_dictionary={g: "LG" for g in GROUPS}, _SegmentationClassGroups__labels=[1])
    return e.new_obj(PE + "Panoptica_Evaluator", _Panoptica_Evaluator__segmentation_class_groups=scg, _Panoptica_Evaluator__resulting_metric_keys=list(METS))


def row(name, tag="v"):
    return [name] + [Written(1.0) for _ in range(4)]


INITIAL = {
    "absent": None,
    "empty": [],
    "header-only": [list(HEADER)],
    "header+rows": [list(HEADER), row(" s1"), row("s2 ")],
}


def well_formed(rows):
    """crash invariant CI on a concrete-structure file: absent | empty | header + complete rows without duplicate subjects"""
    if rows is None or rows == []:
        return True
    if rows[0] != HEADER:
        return False
    names = []
    for r in rows[1:]:
        if len(r) != len(HEADER):
            return False
        names.append(r[0])
    conc = [n for n in names if isinstance(n, str)]
    return len(conc) == len(set(conc))


def first_col(rows):
    return [r[0] for r in (rows or [])]


def buffer_key(fs, out=OUT):
    ks = [k for k in fs.files if k != out and fs.files[k] is not None]
    return ks


def unit_constructor(ctx, state, stale_buffer, variant="tsv"):
    use_variant(variant)
    eng = ctx.engine()

    def mk(e):
        fs = e.ghost_fs
        fs.dirs.add("/data/run")
        fs.files[OUT] = None if INITIAL[state] is None else [list(r) for r in INITIAL[state]]
        if stale_buffer:
            # claims left behind by a killed run (any buffer file the previous session may have used in this directory)
            for nm in ("panoptica_aggregator_tmp.tsv", "results.tsv.panoptica_aggregator_tmp.tsv"):
                fs.files["/data/run/" + nm] = [[" s1"], ["zombie"]]
        ev_ = mk_evaluator(e)
        return [ev_, ARG], {}, {"evaluator": ev_, "ev0": len(e.events)}
    paths = eng.run(PA + "Panoptica_Aggregator", mk)
    fn = PA + "Panoptica_Aggregator.__init__"
    wr_ = [ev for p_ in paths for ev in p_.events[p_.state["ev0"]:] if ev[0] == "setattr" and isinstance(p_.state.get("evaluator"), SObj) and ev[1] == p_.state["evaluator"].oid]
    ctx.oblige(f"panoptica_aggregator.Panoptica_Aggregator.__init__[{state}{', stale buffer' if stale_buffer else ''}]/frame(the evaluator handed in is not modified: sibling aggregators sharing it are unaffected)", [],
               z3.BoolVal(not wr_), func=fn, replay="c17.shared_evaluator", info={"structural": True, "writes": str(sorted({e_[3] for e_ in wr_})[:4])})
    nm = f"panoptica_aggregator.Panoptica_Aggregator.__init__[{state}{', stale buffer' if stale_buffer else ''}{', path without extension' if variant == 'noext' else ''}]"
    info = {"state": state, "stale": stale_buffer}
    ctx.oblige(f"{nm}/single-path", [], z3.BoolVal(len(paths) == 1), func=fn)
    for pi, p in enumerate(paths):
        if p.kind != "return":
            ctx.oblige(f"{nm}/no-exception({p.exc.name() if p.exc else p.kind}: {str(p.exc.args)[:40] if p.exc else ''})#p{pi}", p.pc, z3.BoolVal(False), func=fn, replay="c17.restart", info=info)
            continue
        fs = eng.ghost_fs_snapshot
        out_rows = fs.get(OUT)
        want_rows = [list(HEADER)] + [list(r) for r in (INITIAL[state] or [])[1:]]
        ok_header = out_rows is not None and len(out_rows) >= 1 and out_rows[0] == HEADER and sum(1 for r in out_rows if r == HEADER) == 1
        same_rows = out_rows is not None and [r[0] for r in out_rows[1:]] == [r[0] for r in want_rows[1:]] and len(out_rows) == len(want_rows)
        ctx.oblige(f"{nm}/post(header present exactly once; recorded rows untouched)#p{pi}", [], z3.BoolVal(bool(ok_header and same_rows)), func=fn, replay="c17.restart",
                   info=dict(info, witness_class="existing empty output file never gets a header" if state == "empty" else None))
        agg = p.value
        bpath = agg.attrs.get("_Panoptica_Aggregator__output_buffer_file")
        bkey = bpath.s if isinstance(bpath, PathModel) else None
        brows = fs.get(bkey) if bkey else None
        finished = [r[0] for r in want_rows[1:]]
        ok_buf = brows is not None and first_col(brows) == finished
        ctx.oblige(f"{nm}/post(buffer rebuilt: claimed names = exactly the subjects with a recorded row; stale claims dropped)#p{pi}", [], z3.BoolVal(bool(ok_buf)), func=fn,
                   replay="c17.restart", info=dict(info, witness_class="header cell subject_name is loaded as a claimed subject" if brows is not None and first_col(brows)[:1] == ["subject_name"] else None))
        ctx.oblige(f"{nm}/post(exit handler removes only this aggregator's buffer)#p{pi}", [],
                   z3.BoolVal(len(getattr(eng, "atexit_snapshot", [])) == 1), func=fn)


def unit_wrong_header(ctx):
    use_variant("tsv")
    eng = ctx.engine()
    permuted = [HEADER[0], HEADER[3], HEADER[4], HEADER[1], HEADER[2]]  # same cells, groups in another order
    for label, hdr in (("different header", ["subject_name", "other-m1"]), ("same columns in a different order", permuted), ("header with an extra column", HEADER + ["g1-m3"])):
        content = [list(hdr), ["s1"] + [Written(1.0)] * (len(hdr) - 1)]

        def mk(e, content=content):
            fs = e.ghost_fs
            fs.dirs.add("/data/run")
            fs.files[OUT] = [list(r) for r in content]
            return [mk_evaluator(e), ARG], {}
        paths = eng.run(PA + "Panoptica_Aggregator", mk)
        ok = len(paths) == 1 and paths[0].kind == "raise" and paths[0].exc.name() == "AssertionError"
        untouched = eng.ghost_fs_snapshot.get(OUT) == content
        ctx.oblige(f"panoptica_aggregator.Panoptica_Aggregator.__init__[{label}]/post(rejected with AssertionError; file untouched)", [], z3.BoolVal(bool(ok and untouched)),
                   func=PA + "Panoptica_Aggregator.__init__", replay="c17.header_order", info={"structural": True, "label": label})


def _run_session(eng, initial_rows, subjects, crash_at=None, stale=None):
    """constructor followed by evaluate() for each subject, optionally killed after `crash_at` file operations"""
    res = {}

    def ev_summary(e, f, args, kwargs):
        return {g: ("RES", "STEPS") for g in GROUPS}
    eng.summaries[PE + "Panoptica_Evaluator.evaluate"] = ev_summary
    eng.summaries["panoptica.panoptica_result.PanopticaResult.to_dict"] = lambda e, f, args, kwargs: {m: 0.5 for m in METS}

    def mk(e):
        fs = e.ghost_fs
        fs.dirs.add("/data/run")
        fs.files[OUT] = None if initial_rows is None else [list(r) for r in initial_rows]
        for k, v in (stale or {}).items():
            fs.files[k] = [list(r) for r in v]
        fs.crash_at = crash_at
        return [], {}

    def target():
        ev = mk_evaluator(eng)
        agg = eng.call(eng.resolve(PA + "Panoptica_Aggregator"), [ev, ARG], {})
        for s in subjects:
            eng.call(eng.getattr(agg, "evaluate"), ["PRED", "REF", s], {})
        return agg
    # results of evaluate: the result objects only need to_dict / computation_time
    def ev_summary2(e, f, args, kwargs):
        r = e.new_obj("panoptica.panoptica_result.PanopticaResult", computation_time=None, _evaluation_metrics={})
        return {g: (r, "STEPS") for g in GROUPS}
    eng.summaries[PE + "Panoptica_Evaluator.evaluate"] = ev_summary2
    paths = eng.run(target, mk)
    return paths


def unit_crash_points(ctx, state, variant="tsv"):
    """kill the session after every single file operation; CI must hold; a restarted session must finish the job"""
    use_variant(variant)
    eng = ctx.engine()
    subjects = [" s1", "s2 ", "s3"]  # names with leading / trailing blanks are names like any other
    full = _run_session(eng, INITIAL[state], subjects)
    nm = f"panoptica_aggregator[session from {state}{', path without extension' if variant == 'noext' else ''}]"
    fn = PA + "Panoptica_Aggregator.evaluate"
    ok_full = len(full) == 1 and full[0].kind == "return"
    ctx.oblige(f"{nm}/uninterrupted-run-completes", [], z3.BoolVal(bool(ok_full)), func=fn, replay="c17.restart", info={"state": state})
    if not ok_full:
        return
    nops = eng.ghost_nops_snapshot
    final = eng.ghost_fs_snapshot.get(OUT)
    want_names = first_col(INITIAL[state] or [])[1:]
    for s in subjects:
        if s not in want_names:
            want_names.append(s)
    ok_final = well_formed(final) and final and first_col(final)[1:] == want_names
    ctx.oblige(f"{nm}/post(uninterrupted: header + exactly one complete row per subject; finished subjects skipped)", [], z3.BoolVal(bool(ok_final)), func=fn,
               replay="c17.restart", info={"state": state})
    ctx.expect(f"{nm}: several crash points", nops >= 8)
    bad_ci, bad_rec = [], []
    for k in range(0, nops + 1):
        ps = _run_session(eng, INITIAL[state], subjects, crash_at=k)
        snap = dict(eng.ghost_fs_snapshot)
        o = snap.get(OUT)
        if not well_formed(o):
            bad_ci.append((k, first_col(o)))
            continue
        # restart on the crashed state (stale buffer files included) and resubmit everything
        stale = {kk: vv for kk, vv in snap.items() if kk != OUT and vv is not None}
        ps2 = _run_session(eng, o, subjects, stale=stale)
        o2 = eng.ghost_fs_snapshot.get(OUT)
        ok = len(ps2) == 1 and ps2[0].kind == "return" and well_formed(o2) and o2 and sorted(first_col(o2)[1:]) == sorted(want_names) and len(first_col(o2)[1:]) == len(want_names)
        if not ok:
            bad_rec.append((k, first_col(o), first_col(o2), ps2[0].kind if ps2 else None, str(ps2[0].exc.args)[:60] if ps2 and ps2[0].exc else ""))
    ctx.oblige(f"{nm}/crash-invariant(after every file operation the output is absent, empty, or header + complete rows without duplicates)", [], z3.BoolVal(not bad_ci), func=fn,
               replay="c17.crash", info={"state": state, "bad": str(bad_ci[:3])})
    ctx.oblige(f"{nm}/recovery(restart after a kill at any of the {nops + 1} crash points + resubmission => header once, exactly one complete row per subject)", [], z3.BoolVal(not bad_rec), func=fn,
               replay="c17.crash", info={"state": state, "bad": str(bad_rec[:3]),
                                         "witness_class": "existing empty output file never gets a header" if any(b[1] == [] for b in bad_rec) else None})


def unit_neighbours(ctx):
    """aggregators on different output files never share a buffer file (also in the same directory)"""
    use_variant("tsv")
    eng = ctx.engine()
    outs = ["/d/a.tsv", "/d/b.tsv", "/d/sub/a.tsv", "/d/a", "/d/a.b.tsv", "/d/a.c.tsv", "/d/A.tsv", "/d/b.tsv.tsv"]
    bufs = {}
    for o in outs:
        def mk(e, o=o):
            e.ghost_fs.dirs.update({"/d", "/d/sub"})
            return [mk_evaluator(e), o], {}
        ps = eng.run(PA + "Panoptica_Aggregator", mk)
        if len(ps) == 1 and ps[0].kind == "return":
            b = ps[0].value.attrs.get("_Panoptica_Aggregator__output_buffer_file")
            outf = ps[0].value.attrs.get("_Panoptica_Aggregator__output_file")
            bufs[o] = (b.s if isinstance(b, PathModel) else None, outf)
    vals = [v[0] for v in bufs.values()]
    files = [v[1] for v in bufs.values()]
    ok = len(bufs) == len(outs) and None not in vals and len(set(vals)) == len(set(files)) and not (set(vals) & set(files))
    collide = []
    seen = {}
    for o, (b, f) in bufs.items():
        if b in seen and seen[b][1] != f:
            collide = [seen[b][0], o]
        seen.setdefault(b, (o, f))
    ctx.oblige("panoptica_aggregator.Panoptica_Aggregator.__init__/post(buffer path is injective in the output path and never an output path)", [], z3.BoolVal(bool(ok)),
               func=PA + "Panoptica_Aggregator.__init__", replay="c17.neighbours",
               info={"buffers": str(bufs), "collide": collide, "structural": True})


def unit_header_determinism(ctx):
    """the header a constructor computes is a function of the configuration alone: it must not pass through an unordered collection of
    strings (set / frozenset iteration order changes with the per-process hash seed, so a restarted session would refuse its own file)"""
    use_variant("tsv")
    eng = ctx.engine()
    for lt in (False, True):
        def mk(e, lt=lt):
            e.ghost_fs.dirs.add("/data/run")
            e.ghost_fs.files[OUT] = None
            return [mk_evaluator(e), ARG], {"log_times": lt}
        paths = eng.run(PA + "Panoptica_Aggregator", mk)
        nm = f"panoptica_aggregator.Panoptica_Aggregator.__init__[header, log_times={lt}]"
        ctx.expect(f"{nm}: constructor returns", any(p.kind == "return" for p in paths))
        ctx.side_obligations(paths, nm, func=PA + "Panoptica_Aggregator.__init__", replay="c17.hashseed", skip=lambda s_: not s_.startswith("order-independence"))
        for pi, p in enumerate(paths):
            if p.kind == "return":
                ctx.oblige(f"{nm}/post(header written once, subject column first)#p{pi}", [], z3.BoolVal(bool(eng.ghost_fs.files.get(OUT)) and eng.ghost_fs.files[OUT][0][0] == "subject_name"),
                           func=PA + "Panoptica_Aggregator.__init__", replay="c17.hashseed")


def build(ctx):
    ctx.trust("ghost file system: atomic create, atomic single-row append, os.remove, Path.exists (the scheduler/OS abstraction)",
              "csv round trip; evaluator.evaluate summarised (C15: pure)")
    for st in INITIAL:
        for stale in (False, True):
            ctx.unit(f"ctor[{st},{stale}]", lambda st=st, stale=stale: unit_constructor(ctx, st, stale))
        ctx.unit(f"crash[{st}]", lambda st=st: unit_crash_points(ctx, st))
    for st in ("absent", "header+rows"):
        ctx.unit(f"ctor[{st},noext]", lambda st=st: unit_constructor(ctx, st, False, "noext"))
        ctx.unit(f"crash[{st},noext]", lambda st=st: unit_crash_points(ctx, st, "noext"))
    ctx.unit("wrong_header", lambda: unit_wrong_header(ctx))
    ctx.unit("neighbours", lambda: unit_neighbours(ctx))
    ctx.unit("header_determinism", lambda: unit_header_determinism(ctx))
    include_stage(ctx, "C16", only=lambda mod, sub: [sub.unit("lifetime", lambda: mod.unit_lifetime(sub))])
    ctx.add_bounded("c17-crash-restart", "c17.bounded")


def concretise(ctx, o, r):
    if (o.info or {}).get("stage"):
        return stage_concretise(ctx, o, r)
    if o.replay in ("c17.hashseed", "c17.shared_evaluator"):
        return {}
    return {"obligation": o.name, "state": o.info.get("state"), "collide": o.info.get("collide")}
