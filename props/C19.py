"""C19 - saving and loading a configuration reproduces the same evaluator."""
from __future__ import annotations
import ast
import z3
from pyvc.values import *
from pyvc.objects import *
from pyvc.framework import run_replay
from .common import *

LEVEL = "proof"
EXPLANATION = ("Per-class retraction contracts: for every SupportsConfig class the real constructor and the real _yaml_repr are executed "
               "symbolically on symbolic constructor arguments: keys(_yaml_repr(x)) are constructor parameters, y = C(**_yaml_repr(x)) agrees with x "
               "on every attribute any method reads, _yaml_repr(y) = _yaml_repr(x); every enum member round-trips by name; every configurable "
               "class is registered under its own name; each shipped configuration (parsed into a tag/key tree) names registered classes, uses "
               "only constructor parameters and valid enum members, and its constructors run without error.  ruamel.yaml is trusted.")
CFG = "panoptica.utils.config."
EC = "panoptica.utils.edge_case_handling."
PE = "panoptica.panoptica_evaluator."
LG = "panoptica.utils.label_group."
SC = "panoptica.utils.segmentation_class."
IA = "panoptica.instance_approximator."


def attrs_read(cls):
    """attribute names (mangled) read through self/node/cls-instances in any method of the class hierarchy other than __init__"""
    names = set()
    for c in cls.mro():
        if not isinstance(c, ClassInfo):
            continue
        for k, f in c.attrs.items():
            if not isinstance(f, FuncInfo) or f.name == "__init__":
                continue
            for nd in ast.walk(f.node):
                if isinstance(nd, ast.Attribute) and isinstance(nd.ctx, ast.Load) and isinstance(nd.value, ast.Name):
                    a = nd.attr
                    if a.startswith("__") and not a.endswith("__"):
                        a = "_" + c.name.lstrip("_") + a
                    names.add(a)
    return names


def same_value(a, b):
    if a is b:
        return True
    if isinstance(a, Sym) and isinstance(b, Sym):
        return a.term.eq(b.term)
    if isinstance(a, (SymEnum,)) and isinstance(b, SymEnum):
        return a.cls is b.cls and a.idx.eq(b.idx)
    if isinstance(a, SymOpt) and isinstance(b, SymOpt):
        return a.is_none.eq(b.is_none) and same_value(a.value, b.value)
    if isinstance(a, SymSet) or isinstance(b, SymSet):
        return a is b
    if isinstance(a, dict) and isinstance(b, dict):
        return list(a.keys()) == list(b.keys()) and all(same_value(a[k], b[k]) for k in a)
    if isinstance(a, (list, tuple)) and isinstance(b, (list, tuple)):
        return len(a) == len(b) and all(same_value(x, y) for x, y in zip(a, b))
    if isinstance(a, (set, frozenset)) and isinstance(b, (set, frozenset)):
        return a == b
    if isinstance(a, SObj) and isinstance(b, SObj):
        return a.cls is b.cls and set(a.attrs) == set(b.attrs) and all(same_value(a.attrs[k], b.attrs[k]) for k in a.attrs)
    if isinstance(a, SObj) or isinstance(b, SObj):
        return False
    try:
        return bool(a == b)
    except Exception:
        return False


def retraction(ctx, eng, qual, mk_kwargs, label, set_attrs=()):
    cls = eng.resolve(qual)
    init, _ = cls.lookup("__init__")
    params = [a.arg for a in init.node.args.args[1:]] if init else []

    def mk(e):
        return [], mk_kwargs(e)
    res = {}

    def target(**kw):
        x = eng.call(cls, [], dict(kw))
        rep = eng.call(eng.getattr(cls, "_yaml_repr"), [x], {})
        y = eng.call(cls, [], dict(rep))
        rep2 = eng.call(eng.getattr(cls, "_yaml_repr"), [y], {})
        return x, rep, y, rep2
    paths = eng.run(target, mk)
    nm = f"{qual.split('panoptica.')[1]}[{label}]"
    fn = qual + "._yaml_repr"
    # what is written must be a function of the configuration, not of a hash-table order (re-saving the loaded object reproduces the file)
    ctx.side_obligations(paths, nm, func=qual + ".__init__", replay="c19.labelorder", skip=lambda s_: not s_.startswith("order-independence"))
    ok_any = False
    for pi, p in enumerate(paths):
        if p.kind != "return":
            # a constructor assertion on the ORIGINAL arguments is fine (invalid configuration); the check is that x is constructible => y is
            ctx.oblige(f"{nm}/original-arguments-rejected-by-constructor-only({p.exc.name() if p.exc else p.kind})#p{pi}", [],
                       z3.BoolVal("rep" not in p.state), func=fn) if False else None
            continue
        ok_any = True
        x, rep, y, rep2 = p.value
        ctx.oblige(f"{nm}/keys-are-constructor-parameters#p{pi}", [], z3.BoolVal(isinstance(rep, dict) and set(rep) <= set(params)), func=fn, replay="c19.components",
                   info={"structural": True, "extra": str(sorted(set(rep) - set(params)) if isinstance(rep, dict) else rep)})
        used = attrs_read(cls)
        diffs = []
        for a in sorted(used & (set(x.attrs) | set(y.attrs))):
            va, vb = x.attrs.get(a, "<unset>"), y.attrs.get(a, "<unset>")
            if a in set_attrs and isinstance(va, list) and isinstance(vb, list):
                if not (len(va) == len(vb) and all(any(same_value(p_, q_) for q_ in vb) for p_ in va)):
                    diffs.append(a)
            elif not same_value(va, vb):
                diffs.append(a)
        ctx.oblige(f"{nm}/retraction(C(**_yaml_repr(x)) agrees with x on every attribute a method reads)#p{pi}", [], z3.BoolVal(not diffs), func=fn, replay="c19.components",
                   info={"differing_attributes": str(diffs), "structural": True})
        ctx.oblige(f"{nm}/fixpoint(_yaml_repr of the reloaded object is the same)#p{pi}", [], z3.BoolVal(same_value(rep, rep2)), func=fn, replay="c19.components", info={"structural": True})
    ctx.expect(f"{nm}: constructible for some arguments", ok_any)


def unit_components(ctx):
    eng = ctx.engine()
    eng.load_module("panoptica")
    M = eng.resolve(MM + "Metric")
    ECR = eng.resolve(EC + "EdgeCaseResult")
    CB = eng.resolve("panoptica.utils.constants.CCABackend")
    retraction(ctx, eng, IM + "NaiveThresholdMatching", lambda e: dict(matching_metric=SymEnum(M, z3.Int("mm")), matching_threshold=SymReal(z3.Real("mt")), allow_many_to_one=SymBool(z3.Bool("m2o"))), "symbolic")
    retraction(ctx, eng, IM + "MaximizeMergeMatching", lambda e: dict(matching_metric=SymEnum(M, z3.Int("mm")), matching_threshold=SymReal(z3.Real("mt"))), "symbolic")
    retraction(ctx, eng, IA + "ConnectedComponentsInstanceApproximator", lambda e: dict(cca_backend=SymOpt(z3.Bool("be_none"), SymEnum(CB, z3.Int("be")))), "symbolic")

    def mz(e):
        return {k: SymOpt(z3.Bool(f"{k}_none"), SymEnum(ECR, z3.Int(f"{k}_v"))) for k in ("default_result", "no_instances_result", "empty_prediction_result", "empty_reference_result", "normal")}
    retraction(ctx, eng, EC + "MetricZeroTPEdgeCaseHandling", mz, "symbolic")

    def ech(e):
        h = e.call(e.resolve(EC + "MetricZeroTPEdgeCaseHandling"), [], dict(default_result=SymEnum(ECR, z3.Int("d1"))))
        h2 = e.call(e.resolve(EC + "MetricZeroTPEdgeCaseHandling"), [], dict(default_result=SymEnum(ECR, z3.Int("d2")), normal=SymEnum(ECR, z3.Int("n2"))))
        return dict(listmetric_zeroTP_handling={metric(e, "DSC"): h, metric(e, "ASSD"): h2}, empty_list_std=SymEnum(ECR, z3.Int("els")))
    retraction(ctx, eng, EC + "EdgeCaseHandler", ech, "symbolic")
    for cname in ("LabelGroup", "LabelMergeGroup"):
        retraction(ctx, eng, LG + cname, lambda e: dict(value_labels=[3, 1, 2], single_instance=False), "labels [3,1,2]", set_attrs=("_LabelGroup__value_labels",))
        retraction(ctx, eng, LG + cname, lambda e: dict(value_labels=7, single_instance=True), "single 7", set_attrs=("_LabelGroup__value_labels",))
    retraction(ctx, eng, LG + "_LabelGroupAny", lambda e: dict(), "no arguments")

    def scg(e):
        g1 = e.call(e.resolve(LG + "LabelGroup"), [[1, 2]], {})
        g2 = e.call(e.resolve(LG + "LabelMergeGroup"), [[5, 6]], {})
        return dict(groups={"Vertebrae": g1, "ivd": g2})
    retraction(ctx, eng, SC + "SegmentationClassGroups", scg, "two named groups")
    retraction(ctx, eng, SC + "_NoSegmentationClassGroups", lambda e: dict(), "no arguments")


def unit_evaluator(ctx):
    eng = ctx.engine()
    eng.load_module("panoptica")
    M = eng.resolve(MM + "Metric")
    IT = eng.resolve(PP + "InputType")

    def kw(e):
        matcher = e.call(e.resolve(IM + "MaximizeMergeMatching"), [], {})
        approx = e.call(e.resolve(IA + "ConnectedComponentsInstanceApproximator"), [], {})
        handler = e.call(e.resolve(EC + "EdgeCaseHandler"), [], {})
        g1 = e.call(e.resolve(LG + "LabelGroup"), [[1, 2]], {})
        groups = e.call(e.resolve(SC + "SegmentationClassGroups"), [{"a": g1}], {})
        return dict(expected_input=SymEnum(IT, z3.Int("it")), instance_approximator=approx, instance_matcher=matcher, edge_case_handler=handler,
                    segmentation_class_groups=groups, instance_metrics=[metric(e, "IOU"), metric(e, "RVD")], global_metrics=[metric(e, "IOU")],
                    decision_metric=SymOpt(z3.Bool("dm_none"), SymEnum(M, z3.Int("dm"))), decision_threshold=SymOpt(z3.Bool("dt_none"), SymReal(z3.Real("dt"))),
                    save_group_times=SymBool(z3.Bool("sgt")), log_times=SymBool(z3.Bool("lt")), verbose=SymBool(z3.Bool("vb")))
    retraction(ctx, eng, PE + "Panoptica_Evaluator", kw, "every field away from its default")
    retraction(ctx, eng, PE + "Panoptica_Evaluator", lambda e: dict(), "all defaults")


def unit_registry(ctx):
    eng = ctx.engine()
    eng.load_module("panoptica")
    reg = eng.load_module("panoptica.utils.config").ns["supported_helper_classes"]
    reg_names = [c.name for c in reg if isinstance(c, ClassInfo)]
    sup = eng.resolve(CFG + "SupportsConfig")
    enumc = eng.resolve("panoptica.utils.constants._Enum_Compare")
    need = []
    for mn, m in eng.modules.items():
        for k, v in m.ns.items():
            if isinstance(v, ClassInfo) and v.module is m and v is not sup and v is not enumc and (v.is_subclass_of(sup) or v.is_subclass_of(enumc)):
                need.append(v)
    missing = [c.name for c in need if c not in reg]
    dup = len(set(reg_names)) != len(reg_names)
    ctx.oblige("utils.config/registry(every SupportsConfig / _Enum_Compare subclass is registered, each tag name once)", [], z3.BoolVal(not missing and not dup and len(need) >= 15),
               func=CFG + "SupportsConfig.__init_subclass__", info={"missing": str(missing), "registered": str(reg_names)})
    # tag used on save is the class's own name
    class Rep:
        def represent_mapping(self, tag, mapping):
            return ("MAP", tag, mapping)

        def represent_scalar(self, tag, value):
            return ("SCALAR", tag, value)
    ok_tags = True
    for c in need:
        if c.is_enum:
            for mname, mem in c.members.items():
                ps = eng.run(lambda c=c, mem=mem: (eng.call(eng.getattr(c, "to_yaml"), [Rep(), mem], {}), eng.call(eng.getattr(c, "from_yaml"), [None, type("N", (), {"value": mname})()], {})), lambda e: ([], {}))
                r = ps[0].value if len(ps) == 1 and ps[0].kind == "return" else None
                if not (r and r[0] == ("SCALAR", "!" + c.name, mname) and r[1] is mem):
                    ok_tags = False
    ctx.oblige("utils.constants._Enum_Compare/post(every enum member is written as !<Class> <NAME> and read back as the same member)", [], z3.BoolVal(bool(ok_tags)),
               func="panoptica.utils.constants._Enum_Compare.to_yaml")
    m = eng.call(eng.resolve(IM + "NaiveThresholdMatching"), [], {}) if False else None

    def t2():
        x = eng.call(eng.resolve(IM + "NaiveThresholdMatching"), [], {})
        tagged = eng.call(eng.getattr(x.cls, "to_yaml"), [Rep(), x], {})

        class Con:
            def construct_mapping(self_, node, deep=False):
                return dict(node)
        y = eng.call(eng.getattr(x.cls, "from_yaml"), [Con(), tagged[2]], {})
        return tagged, x, y
    ps = eng.run(t2, lambda e: ([], {}))
    ok = len(ps) == 1 and ps[0].kind == "return"
    if ok:
        tagged, x, y = ps[0].value
        ok = tagged[0] == "MAP" and tagged[1] == "!NaiveThresholdMatching" and isinstance(y, SObj) and y.cls is x.cls and all(same_value(x.attrs[k], y.attrs[k]) for k in x.attrs)
    ctx.oblige("utils.config.SupportsConfig.to_yaml/from_yaml/post(mapping tagged with the class name; from_yaml = cls(**mapping))", [], z3.BoolVal(bool(ok)), func=CFG + "SupportsConfig.to_yaml")
    # from_yaml hands EVERY entry of the mapping to the constructor, whatever its value (symbolic threshold / flag: zero, False included)
    thr, many = z3.Real("cfg_thr"), z3.Bool("cfg_many")

    def t3():
        cls = eng.resolve(IM + "NaiveThresholdMatching")

        class Con:
            def construct_mapping(self_, node, deep=False):
                return dict(node)
        y = eng.call(eng.getattr(cls, "from_yaml"), [Con(), {"matching_metric": metric(eng, "DSC"), "matching_threshold": SymReal(thr), "allow_many_to_one": SymBool(many)}], {})
        return y
    for pi, p in enumerate(eng.run(t3, lambda e: ([], {}))):
        nm = "utils.config.SupportsConfig.from_yaml[symbolic values]"
        if p.kind != "return":
            ctx.oblige(f"{nm}/no-exception#p{pi}", p.pc, z3.BoolVal(False), func=CFG + "SupportsConfig.from_yaml", replay="c19.components")
            continue
        y = p.value
        a = y.attrs
        tv, mv, mm_ = a.get("_matching_threshold"), a.get("_allow_many_to_one"), a.get("_matching_metric")
        ok3 = isinstance(tv, (Sym, int, float)) and isinstance(mv, (Sym, bool)) and isinstance(mm_, EnumMember) and mm_._name == "DSC"
        ctx.oblige(f"{nm}/post(every entry reaches the constructor unchanged, falsy values included)#p{pi}", p.pc,
                   z3.And(to_term(tv, "real") == thr, to_term(mv) == many) if ok3 else z3.BoolVal(False), func=CFG + "SupportsConfig.from_yaml", replay="c19.components",
                   info={"structural": True})


def unit_shipped(ctx):
    eng = ctx.engine()
    eng.load_module("panoptica")
    trees = run_replay("c19.parse_configs", {})
    ok_parse = isinstance(trees, dict) and trees.get("configs")
    ctx.oblige("configs/parsed-by-ruamel-into-tag-trees", [], z3.BoolVal(bool(ok_parse)), func=CFG + "_load_yaml", info={"error": str(trees)[:200] if not ok_parse else ""})
    if not ok_parse:
        return
    reg = {c.name: c for c in eng.load_module("panoptica.utils.config").ns["supported_helper_classes"] if isinstance(c, ClassInfo)}

    def build_obj(node, problems, where):
        kind, tag, val = node["kind"], node.get("tag"), node.get("value")
        if kind == "scalar":
            if tag and tag.startswith("!"):
                c = reg.get(tag[1:])
                if c is None or not c.is_enum:
                    problems.append(f"{where}: unknown enum tag {tag}")
                    return None
                if val not in c.members:
                    problems.append(f"{where}: {val} is not a member of {c.name}")
                    return None
                return c.members[val]
            return val
        if kind == "seq":
            return [build_obj(x, problems, where + "[]") for x in val]
        if kind == "map":
            d = {}
            for k, v in val:
                kk = build_obj(k, problems, where + ".key")
                d[kk] = build_obj(v, problems, f"{where}.{k.get('value')}")
            if tag and tag.startswith("!"):
                c = reg.get(tag[1:])
                if c is None:
                    problems.append(f"{where}: tag {tag} names no registered class")
                    return None
                init, _ = c.lookup("__init__")
                params = [a.arg for a in init.node.args.args[1:]] if init else []
                extra = [k for k in d if k not in params]
                if extra:
                    problems.append(f"{where}: keys {extra} are not parameters of {c.name}")
                    return None
                ps = eng.run(lambda c=c, d=d: eng.call(c, [], dict(d)), lambda e: ([], {}))
                if not (len(ps) == 1 and ps[0].kind == "return"):
                    problems.append(f"{where}: constructor of {c.name} fails on the shipped values: {ps[0].exc.name() if ps and ps[0].exc else '?'}")
                    return None
                return ps[0].value
            return d
        return None
    for fname, tree in trees["configs"].items():
        problems = []
        obj = build_obj(tree, problems, fname)
        ctx.oblige(f"configs/{fname}/loads(tags name registered classes, keys are constructor parameters, enum members exist, constructors accept the values)", [],
                   z3.BoolVal(not problems and obj is not None), func=CFG + "SupportsConfig.from_yaml", replay="c19.shipped", info={"problems": str(problems[:4]), "file": fname})


def build(ctx):
    ctx.trust("ruamel.yaml: represent_mapping / construct_mapping(deep=True) round-trip mappings, lists, scalars, null and registered tags; deterministic dump",
              "in-memory retraction stands for the file round trip (nested objects are reconstructed by their own class's retraction)")
    ctx.unit("components", lambda: unit_components(ctx))
    ctx.unit("evaluator", lambda: unit_evaluator(ctx))
    ctx.unit("registry", lambda: unit_registry(ctx))
    ctx.unit("shipped", lambda: unit_shipped(ctx))
    ctx.add_bounded("c19-roundtrip", "c19.bounded")


def concretise(ctx, o, r):
    if o.replay == "c19.labelorder":
        return {}
    return {"obligation": o.name, "file": o.info.get("file")}
