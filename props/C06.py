"""C06 - Dice, IoU, RVD and clDice equal their set-theoretic definitions."""
from __future__ import annotations
import z3
from pyvc.values import *
from pyvc.objects import *
from pyvc.npmodel import Space, VArr, base_array, card, CARDS
from .common import *

LEVEL = "proof"
EXPLANATION = ("The real metric functions are executed on symbolic arrays in the voxel-set theory (per-voxel terms, cardinalities by "
               "Venn-region decomposition); the result is proved equal to the set formula of the statement wherever the quotient is "
               "defined, for symbolic labels, a prediction label or list/set of labels, with and without selection; clDice's glue is "
               "proved with the skeleton as an uninterpreted function.")
MD = "panoptica.metrics."
DTYPES = ["uint8", "uint16", "uint32", "uint64", "int32"]


def mk_arrays(e, mode, dtype="uint8", ndim=None):
    sp = Space("S", ndim=ndim)
    if mode == "bool":
        Rr = base_array(e, "Rm", "bool", sp)
        P = base_array(e, "Pm", "bool", sp)
    elif mode == "binary":
        Rr = base_array(e, "Rm", dtype, sp, binary=True)
        P = base_array(e, "Pm", dtype, sp, binary=True)
    else:
        Rr = base_array(e, "R", dtype, sp)
        P = base_array(e, "P", dtype, sp)
    return sp, Rr, P


def frame_ok(p):
    """no write to a caller-owned buffer on this path"""
    return not any(ev[0] == "arr-write" and ev[2] == "caller" for ev in p.events)


def set_goal(kind, res, X, Y, sp):
    """statement formulas, multiplicatively; nothing demanded where the quotient is undefined."""
    cX, cY, cI, cU = card(X, sp), card(Y, sp), card(z3.And(X, Y), sp), card(z3.Or(X, Y), sp)
    r = to_term(res, "real")
    if kind == "DSC":
        return z3.Implies(cX + cY > 0, r * z3.ToReal(cX + cY) == z3.ToReal(2 * cI))
    if kind == "IOU":
        return z3.Implies(cU > 0, r * z3.ToReal(cU) == z3.ToReal(cI))
    if kind == "RVD":
        return z3.Implies(cX > 0, r * z3.ToReal(cX) == z3.ToReal(cY - cX))
    raise KeyError(kind)


def unit_metric(ctx, kind, mode, dtype="uint8"):
    """Metric.<kind>(reference, prediction[, ref_idx, pred_idx]) end to end."""
    eng = ctx.engine()
    r, p, p2 = z3.Ints("r_lbl p_lbl p2_lbl")
    S = z3.Function("S_pred", I, B)

    def mk(e):
        sel = mode.startswith("sel")
        sp, Rr, P = mk_arrays(e, "label" if sel else mode, dtype)
        args = [Rr, P]
        if mode == "sel-int":
            args += [SymInt(r), SymInt(p)]
        elif mode == "sel-list":
            args += [SymInt(r), [SymInt(p), SymInt(p2)]]
        elif mode == "sel-set":
            st = SymSet(lambda t: S(t), name="pred_labels")
            args += [SymInt(r), st]
        return [metric(e, kind)] + args, {}, {"sp": sp, "R": Rr, "P": P, "R0": Rr.term, "P0": P.term}
    fn = MM + "Metric.__call__"
    paths = eng.run(fn, mk)
    tag = f"{kind},{mode},{dtype}"
    nm = f"metrics.Metric.__call__[{tag}]"
    info = {"kind": kind, "mode": mode, "dtype": dtype, "prefer": [["(<= size_S 8)"]]}
    ctx.expect(f"{nm}: at least one returning path", any(q.kind == "return" for q in paths))
    ctx.side_obligations(paths, nm, func=fn, replay="c06.longlists", skip=lambda s_: not s_.startswith("np.isin"), info=dict(info, structural=True))
    for pi, q in enumerate(paths):
        sp, Rr, P = q.state["sp"], q.state["R"], q.state["P"]
        if mode == "bool" or mode == "binary":
            X = Rr.base(sp.x)
            Y = P.base(sp.x)
        else:
            X = Rr.base(sp.x) == r
            if mode == "sel-int":
                Y = P.base(sp.x) == p
            elif mode == "sel-list":
                Y = z3.Or(P.base(sp.x) == p, P.base(sp.x) == p2)
            else:
                Y = S(P.base(sp.x))
        if q.kind == "raise":
            # RVD raises ZeroDivisionError for an empty reference with non-empty prediction: quotient undefined there
            allowed = z3.BoolVal(False)
            if kind == "RVD" and q.exc.name() == "ZeroDivisionError":
                allowed = card(X, sp) == 0
            ctx.oblige(f"{nm}/raises-only-where-undefined({q.exc.name()})#p{pi}", q.pc, allowed, func=fn, replay="c06.metric", info=info)
            continue
        ctx.oblige(f"{nm}/post(set formula)#p{pi}", q.pc, set_goal(kind, q.value, X, Y, sp), func=fn, replay="c06.metric", info=info)
        unchanged = z3.And(Rr.term == q.state["R0"], P.term == q.state["P0"]) if True else z3.BoolVal(True)
        ctx.oblige(f"{nm}/frame(caller arrays not written)#p{pi}", q.pc, z3.And(z3.BoolVal(frame_ok(q)), unchanged), func=fn)
        if pi == 0:
            ctx.canary(f"{nm}#p{pi}", q.pc, func=fn)


def unit_inner(ctx, kind):
    """the inner coefficient functions on arbitrary integer label arrays (IoU counts non-zero voxels)."""
    eng = ctx.engine()
    fnm = {"DSC": MD + "dice._compute_dice_coefficient", "IOU": MD + "iou._compute_iou", "RVD": MD + "relative_volume_difference._compute_relative_volume_difference"}[kind]
    for mode in (("bool", "binary", "label") if kind == "IOU" else ("bool", "binary")):
        def mk(e, mode=mode):
            sp, Rr, P = mk_arrays(e, mode, "uint16")
            return [Rr, P], {}, {"sp": sp, "R": Rr, "P": P}
        for pi, q in enumerate(eng.run(fnm, mk)):
            sp, Rr, P = q.state["sp"], q.state["R"], q.state["P"]
            X = Rr.base(sp.x) if mode != "label" else Rr.base(sp.x) != 0
            Y = P.base(sp.x) if mode != "label" else P.base(sp.x) != 0
            nm = f"{fnm.split('panoptica.')[1]}[{mode}]"
            if q.kind == "raise":
                allowed = (card(X, sp) == 0) if (kind == "RVD" and q.exc.name() == "ZeroDivisionError") else z3.BoolVal(False)
                ctx.oblige(f"{nm}/raises-only-where-undefined#p{pi}", q.pc, allowed, func=fnm)
                continue
            ctx.oblige(f"{nm}/post(set formula)#p{pi}", q.pc, set_goal(kind, q.value, X, Y, sp), func=fnm, replay="c06.metric",
                       info={"kind": kind, "mode": mode, "dtype": "uint16", "inner": True, "prefer": [["(<= size_S 8)"]]})


def unit_instance_fn(ctx, kind):
    """_compute_instance_*: both indices None -> arrays untouched; otherwise select with == then delegate."""
    eng = ctx.engine()
    fnm = {"DSC": MD + "dice._compute_instance_volumetric_dice", "IOU": MD + "iou._compute_instance_iou",
           "RVD": MD + "relative_volume_difference._compute_instance_relative_volume_difference"}[kind]
    r, p = z3.Ints("r_lbl p_lbl")

    def mk(e):
        sp, Rr, P = mk_arrays(e, "label", "uint32")
        return [Rr, P, SymInt(r), SymInt(p)], {}, {"sp": sp, "R": Rr, "P": P}
    for pi, q in enumerate(eng.run(fnm, mk)):
        sp, Rr, P = q.state["sp"], q.state["R"], q.state["P"]
        nm = f"{fnm.split('panoptica.')[1]}[labels]"
        X, Y = Rr.base(sp.x) == r, P.base(sp.x) == p
        if q.kind == "raise":
            allowed = (card(X, sp) == 0) if (kind == "RVD" and q.exc.name() == "ZeroDivisionError") else z3.BoolVal(False)
            ctx.oblige(f"{nm}/raises-only-where-undefined#p{pi}", q.pc, allowed, func=fnm)
            continue
        ctx.oblige(f"{nm}/post(selects ref==r, pred==p)#p{pi}", q.pc, set_goal(kind, q.value, X, Y, sp), func=fnm)


def unit_lemmas(ctx):
    a, b, c = z3.Ints("n_both n_only_x n_only_y")
    hy = [a >= 0, b >= 0, c >= 0]
    dice = z3.ToReal(2 * a) / z3.ToReal(2 * a + b + c)
    iou = z3.ToReal(a) / z3.ToReal(a + b + c)
    ne = [a + b + c > 0]
    ctx.oblige("lemma.dice=2iou/(1+iou)", hy + ne, dice == 2 * iou / (1 + iou), kind="lemma")
    ctx.oblige("lemma.ranges-and-order(0<=iou<=dice<=1)", hy + ne, z3.And(0 <= iou, iou <= dice, dice <= 1), kind="lemma")
    ctx.oblige("lemma.equals-1-iff-identical-nonempty", hy + ne, z3.And((dice == 1) == z3.And(b == 0, c == 0), (iou == 1) == z3.And(b == 0, c == 0)), kind="lemma")
    # symmetry: the formulas are invariant under exchanging |X\\Y| and |Y\\X|
    dice2 = z3.ToReal(2 * a) / z3.ToReal(2 * a + c + b)
    iou2 = z3.ToReal(a) / z3.ToReal(a + c + b)
    ctx.oblige("lemma.symmetric", hy + ne, z3.And(dice == dice2, iou == iou2), kind="lemma")
    # RVD under exchange (used by C11): r' = -r/(1+r)
    x, y = z3.Ints("vol_ref vol_pred")
    rv = z3.ToReal(y - x) / z3.ToReal(x)
    rv2 = z3.ToReal(x - y) / z3.ToReal(y)
    ctx.oblige("lemma.rvd-exchange", [x > 0, y > 0], rv2 == -rv / (1 + rv), kind="lemma")
    ctx.canary("lemma", hy + ne)


def unit_cldice(ctx, ndim):
    eng = ctx.engine()
    fn = MD + "cldice._compute_centerline_dice_coefficient"

    def mk(e):
        sp, Rr, P = mk_arrays(e, "bool", ndim=ndim)
        return [Rr, P], {}, {"sp": sp, "R": Rr, "P": P}
    paths = eng.run(fn, mk)
    for pi, q in enumerate(paths):
        sp, Rr, P = q.state["sp"], q.state["R"], q.state["P"]
        nm = f"metrics.cldice._compute_centerline_dice_coefficient[ndim={ndim}]"
        if ndim not in (2, 3):
            ctx.oblige(f"{nm}/rejects-other-dimensions#p{pi}", [], z3.BoolVal(q.kind == "raise" and q.exc.name() == "AssertionError"), func=fn)
            continue
        if q.kind != "return":
            ctx.oblige(f"{nm}/no-exception#p{pi}", q.pc, z3.BoolVal(False), func=fn)
            continue
        kinds = [ev[1] for ev in q.events if ev[0] == "skeleton"]
        want = "skeletonize" if ndim == 2 else "skeletonize_3d"
        ctx.oblige(f"{nm}/dispatch({want} on both masks)#p{pi}", [], z3.BoolVal(kinds == [want, want]), func=fn)
        from pyvc import npmodel
        sk = {k[2]: f for k, f in npmodel._SKEL.items() if k[0] == want}
        X, Y = Rr.base(sp.x), P.base(sp.x)
        SX = [f for k, f in npmodel._SKEL.items() if k[0] == want and k[2] == X.sexpr()]
        SY = [f for k, f in npmodel._SKEL.items() if k[0] == want and k[2] == Y.sexpr()]
        if not SX or not SY:
            ctx.oblige(f"{nm}/skeleton-of-each-mask#p{pi}", [], z3.BoolVal(False), func=fn)
            continue
        sx, sy = SX[0](sp.x), SY[0](sp.x)
        cSX, cSY = card(sx, sp), card(sy, sp)
        cYSX, cXSY = card(z3.And(Y, sx), sp), card(z3.And(X, sy), sp)
        res = to_term(q.value, "real")
        tprec = z3.ToReal(cYSX) / z3.ToReal(cSX)
        tsens = z3.ToReal(cXSY) / z3.ToReal(cSY)
        defined = z3.And(cSX > 0, cSY > 0, cYSX + cXSY > 0)
        ctx.oblige(f"{nm}/post(harmonic mean of skeleton-coverage fractions)#p{pi}", q.pc,
                   z3.Implies(defined, res == 2 * tprec * tsens / (tprec + tsens)), func=fn, replay="c06.cldice", info={"ndim": ndim})


def build(ctx):
    ctx.trust("numpy element-wise ==, isin, logical_and/or, sum on masks (voxel-set theory, pyvc/npmodel.py)",
              "Venn-region (BAPA) reduction of mask cardinalities",
              "skimage.morphology.skeletonize / skeletonize_3d: uninterpreted functions of the input mask")
    for kind in ("DSC", "IOU", "RVD"):
        ctx.unit(f"inner[{kind}]", lambda kind=kind: unit_inner(ctx, kind))
        ctx.unit(f"instance-fn[{kind}]", lambda kind=kind: unit_instance_fn(ctx, kind))
        for mode in ("bool", "binary", "sel-int", "sel-list", "sel-set"):
            ctx.unit(f"Metric[{kind},{mode}]", lambda kind=kind, mode=mode: unit_metric(ctx, kind, mode))
        for dt in ("uint16", "uint64", "int32"):
            ctx.unit(f"Metric[{kind},sel-int,{dt}]", lambda kind=kind, dt=dt: unit_metric(ctx, kind, "sel-int", dt))
    ctx.unit("lemmas", lambda: unit_lemmas(ctx))
    for nd in (1, 2, 3, 4):
        ctx.unit(f"cldice[{nd}]", lambda nd=nd: unit_cldice(ctx, nd))
    ctx.add_bounded("c06-enum", "c06.bounded")


def concretise(ctx, o, r):
    if o.replay == "c06.cldice":
        return {"ndim": o.info.get("ndim")}
    if o.replay == "c06.longlists":
        return {"kind": o.info.get("kind", "DSC")}
    if o.replay != "c06.metric":
        return None
    ev = r.get("evals") or {}
    m = r.get("model") or {}
    regs = o.info.get("venn_regions") or []
    fns = o.info.get("vox_functions") or []
    vox = []
    for rn, wn in regs:
        try:
            n = model_int(ev.get(rn, "0"))
        except Exception:
            n = 0
        n = max(0, min(n, 6))
        vals = {f: ev.get(f"{f}@{wn}") for f in fns}
        for _ in range(n):
            vox.append(vals)
        if len(vox) > 40:
            break
    gi = lambda k: model_int(m.get(k, "0"))
    S_tab = m.get("S_pred")
    return {"kind": o.info["kind"], "mode": o.info["mode"], "dtype": o.info["dtype"], "inner": bool(o.info.get("inner")), "voxels": vox,
            "r": gi("r_lbl"), "p": gi("p_lbl"), "p2": gi("p2_lbl"), "S_model": str(S_tab)}
