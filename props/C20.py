"""C20 - dataset summaries are the statistics of exactly the recorded finite values."""
from __future__ import annotations
import z3
from pyvc.values import *
from pyvc.objects import *
from pyvc.npmodel import AGG, seq_array
from .common import *

LEVEL = "proof"
EXPLANATION = ("Panoptica_Statistic / ValueSummary are executed symbolically on a table with a symbolic number of subjects and symbolic optional "
               "values: get(remove_nones) is the order-preserving filter of the present values, every summary is the numpy reduction of exactly "
               "that filtered list (np.average / population np.std / min / max), per-subject lookup reads that subject's own index, the "
               "across-groups summary is taken over the per-group averages.")
PS = "panoptica.panoptica_statistics."
GROUPS = ["ga", "gb"]
METRICS = ["m1", "m2"]


def mk_table(e, nsub=None):
    n = z3.Int("n_subjects") if nsub is None else nsub
    isnone = {(g, m): z3.Function(f"none_{g}_{m}", I, B) for g in GROUPS for m in METRICS}
    val = {(g, m): z3.Const(f"val_{g}_{m}", z3.ArraySort(I, R)) for g in GROUPS for m in METRICS}
    if nsub is None:
        e.assume(wrap(n >= 1))
        names = SymSeq(SymInt(n), lambda q: SymStr(z3.Function("subj", I, z3.StringSort())(q)), name="subjects")
        vd = {g: {m: SymSeq(SymInt(n), (lambda q, g=g, m=m: SymOpt(isnone[(g, m)](q), SymReal(z3.Select(val[(g, m)], q)))), name=f"col_{g}_{m}") for m in METRICS} for g in GROUPS}
    else:
        names = [f"s{i}" for i in range(nsub)]
        vd = {g: {m: [SymOpt(isnone[(g, m)](z3.IntVal(i)), SymReal(z3.Select(val[(g, m)], i))) for i in range(nsub)] for m in METRICS} for g in GROUPS}
    st = e.new_obj(PS + "Panoptica_Statistic", _Panoptica_Statistic__subj_names=names, _Panoptica_Statistic__value_dict=vd,
                   _Panoptica_Statistic__groupnames=list(GROUPS), _Panoptica_Statistic__metricnames=list(METRICS))
    return st, n, isnone, val


def unit_get(ctx):
    eng = ctx.engine()

    def mk(e):
        st, n, isnone, val = mk_table(e)
        return [st, "ga", "m2"], {"remove_nones": True}, {"n": n, "isnone": isnone, "val": val}
    fn = PS + "Panoptica_Statistic.get"
    for pi, p in enumerate(eng.run(fn, mk)):
        nm = "panoptica_statistics.Panoptica_Statistic.get[remove_nones]"
        if p.kind != "return" or not isinstance(p.value, SymSeq) or not hasattr(p.value, "src"):
            ctx.oblige(f"{nm}/returns-filtered-list#p{pi}", p.pc, z3.BoolVal(False), func=fn)
            continue
        F = p.value
        isn, va = p.state["isnone"][("ga", "m2")], p.state["val"][("ga", "m2")]
        n = p.state["n"]
        j, i = z3.Ints("gj gi")
        nF = to_term(F.length)
        el = F.elem(j)
        ok_el = isinstance(el, SymReal)
        ctx.oblige(f"{nm}/post(every listed value is a present value of this group/metric, in subject order)#p{pi}", p.pc,
                   z3.ForAll([j], z3.Implies(z3.And(0 <= j, j < nF), z3.And(0 <= F.src(j), F.src(j) < n, z3.Not(isn(F.src(j))), to_term(el) == z3.Select(va, F.src(j))))) if ok_el else z3.BoolVal(False),
                   func=fn, replay="c20.e2e")
        ctx.oblige(f"{nm}/post(every present value is listed exactly once; order kept)#p{pi}", p.pc,
                   z3.And(z3.ForAll([i], z3.Implies(z3.And(0 <= i, i < n, z3.Not(isn(i))), z3.And(0 <= F.pos(i), F.pos(i) < nF, F.src(F.pos(i)) == i))),
                          z3.ForAll([i, j], z3.Implies(z3.And(0 <= i, i < j, j < nF), F.src(i) < F.src(j)))), func=fn, replay="c20.e2e")

    def mk2(e):
        st, n, isnone, val = mk_table(e)
        return [st, "gb", "m1"], {}, {"st": st}
    for pi, p in enumerate(eng.run(fn, mk2)):
        ok = p.kind == "return" and p.value is p.state["st"].attrs["_Panoptica_Statistic__value_dict"]["gb"]["m1"]
        ctx.oblige(f"panoptica_statistics.Panoptica_Statistic.get[keep nones]/post(the stored column)#p{pi}", [], z3.BoolVal(bool(ok)), func=fn)


def unit_summary(ctx):
    eng = ctx.engine()
    fn = PS + "Panoptica_Statistic.get_summary"

    def mk(e):
        st, n, isnone, val = mk_table(e)
        return [st, "gb", "m2"], {}, {"st": st, "n": n, "isn": isnone[("gb", "m2")]}

    def target(st, g, m):
        s = eng.call(eng.getattr(st, "get_summary"), [g, m], {})
        F = eng.call(eng.getattr(st, "get"), [g, m], {"remove_nones": True})
        return {k: eng.getattr(s, k) for k in ("avg", "std", "min", "max", "values")}, F
    for pi, p in enumerate(eng.run(target, mk)):
        nm = "panoptica_statistics.Panoptica_Statistic.get_summary"
        if p.kind == "raise":
            # only an all-missing column may fail (statement: at least one finite value)
            ctx.oblige(f"{nm}/raises-only-without-any-finite-value({p.exc.name()})#p{pi}", p.pc, z3.BoolVal(False) if False else _no_values(p), func=fn)
            continue
        d, F = p.value
        vals = d["values"]
        ok = isinstance(vals, SymSeq) and hasattr(vals, "src")
        if not ok:
            ctx.oblige(f"{nm}/summary-over-filtered-values#p{pi}", p.pc, z3.BoolVal(False), func=fn)
            continue
        # the summarised list is (extensionally) the filtered list returned by get(remove_nones=True)
        j = z3.Int("sj")
        same = z3.And(to_term(vals.length) == to_term(F.length),
                      z3.ForAll([j], z3.Implies(z3.And(0 <= j, j < to_term(F.length)), to_term(vals.elem(j)) == to_term(F.elem(j)))))
        arr, n = seq_array(eng, vals)
        T = lambda x: to_term(x, "real")
        g = z3.And(T(d["avg"]) == AGG["average"](arr, n), T(d["std"]) == AGG["pstd"](arr, n))
        ctx.oblige(f"{nm}/post(avg = np.average, std = population np.std of the summarised list)#p{pi}", p.pc, g, func=fn, replay="c20.e2e")
        # min / max are attained bounds of the same list
        mn, mx = T(d["min"]), T(d["max"])
        el = lambda q: to_term(vals.elem(q), "real")
        w1, w2 = z3.Ints("w_min w_max")
        ctx.oblige(f"{nm}/post(min and max are the extrema of the summarised list)#p{pi}", p.pc,
                   z3.And(z3.ForAll([j], z3.Implies(z3.And(0 <= j, j < n), z3.And(mn <= el(j), el(j) <= mx))),
                          z3.Exists([w1], z3.And(0 <= w1, w1 < n, el(w1) == mn)), z3.Exists([w2], z3.And(0 <= w2, w2 < n, el(w2) == mx))), func=fn, replay="c20.e2e")
        ctx.oblige(f"{nm}/post(the summarised list is get(group, metric, remove_nones=True))#p{pi}", p.pc,
                   z3.BoolVal(_same_filter(vals, F)), func=fn, replay="c20.e2e")
        ctx.canary(f"{nm}#p{pi}", p.pc, func=fn)


def _same_filter(a, b):
    """two filtered views of the same base sequence with the same filter condition and element template"""
    try:
        return (a.base.name == b.base.name and z3.substitute(a.cond[1], (a.cond[0], z3.Int("cmpi"))).eq(z3.substitute(b.cond[1], (b.cond[0], z3.Int("cmpi"))))
                and isinstance(a.template, SymReal) and isinstance(b.template, SymReal))
    except Exception:
        return False


def _no_values(p):
    i = z3.Int("nvi")
    return z3.ForAll([i], z3.Implies(z3.And(0 <= i, i < p.state["n"]), p.state["isn"](i)))


def unit_concrete(ctx):
    """three subjects: per-subject lookup, across-groups summary, summary dict, constructor assertions."""
    eng = ctx.engine()
    N = 2

    def mk(e):
        st, n, isnone, val = mk_table(e, N)
        for g in GROUPS:
            for m in METRICS:
                e.assume(z3.Not(isnone[(g, m)](z3.IntVal(0))), why="statement: at least one finite recorded value per group and metric")
        vd = st.attrs["_Panoptica_Statistic__value_dict"]
        return [st], {}, {"isnone": isnone, "val": val, "vd": vd, "snap": {(g, m): list(vd[g][m]) for g in GROUPS for m in METRICS}, "names": list(st.attrs["_Panoptica_Statistic__subj_names"]), "st": st}

    def target(st):
        one = eng.call(eng.getattr(st, "get_one_subject"), ["s1"], {})
        across = eng.call(eng.getattr(st, "get_summary_across_groups"), [], {})
        per = {g: {m: eng.getattr(eng.call(eng.getattr(st, "get_summary"), [g, m], {}), "avg") for m in METRICS} for g in GROUPS}
        ac = {m: {k: eng.getattr(across[m], k) for k in ("avg", "std", "min", "max")} for m in METRICS}
        allv = eng.call(eng.getattr(st, "get_across_groups"), ["m1"], {})
        sd = eng.call(eng.getattr(st, "get_summary_dict"), [], {})
        sd0 = eng.call(eng.getattr(st, "get_summary_dict"), [], {"include_across_group": False})
        sdv = {"keys": list(sd.keys()), "keys0": list(sd0.keys()),
               "per": {g: {m: {k: eng.getattr(sd[g][m], k) for k in ("avg", "std", "min", "max")} for m in METRICS} for g in GROUPS if g in sd},
               "ref": {g: {m: (lambda so: {k: eng.getattr(so, k) for k in ("avg", "std", "min", "max")})(eng.call(eng.getattr(st, "get_summary"), [g, m], {})) for m in METRICS} for g in GROUPS},
               "across": {m: {k: eng.getattr(sd["across_groups"][m], k) for k in ("avg", "std", "min", "max")} for m in METRICS} if "across_groups" in sd else None}
        return one, ac, per, allv, sdv
    paths = eng.run(target, mk)
    ctx.expect("concrete table: all missing-value patterns explored", len(paths) >= 8)
    T = lambda x: to_term(x, "real")
    for pi, p in enumerate(paths):
        nm = "panoptica_statistics.Panoptica_Statistic[2 subjects]"
        if p.kind != "return":
            ctx.oblige(f"{nm}/no-exception({p.exc.name()})#p{pi}", p.pc, z3.BoolVal(False), func=PS + "Panoptica_Statistic.get_summary_across_groups", replay="c20.e2e")
            continue
        one, ac, per, allv, sdv = p.value
        isn, va = p.state["isnone"], p.state["val"]
        # summary dict: one entry per group and metric equal to get_summary(group, metric), plus the across-groups summary on request
        shape = sorted(sdv["keys"]) == sorted(GROUPS + ["across_groups"]) and sorted(sdv["keys0"]) == sorted(GROUPS) and sdv["across"] is not None \
            and all(g in sdv["per"] for g in GROUPS)
        gsd = [z3.BoolVal(bool(shape))]
        if shape:
            Tq = lambda x: to_term(x, "real")
            for g in GROUPS:
                for m in METRICS:
                    gsd += [Tq(sdv["per"][g][m][k]) == Tq(sdv["ref"][g][m][k]) for k in ("avg", "std", "min", "max")]
            for m in METRICS:
                gsd += [Tq(sdv["across"][m][k]) == Tq(ac[m][k]) for k in ("avg", "std", "min", "max")]
        ctx.oblige(f"{nm}/get_summary_dict = get_summary of every group and metric (+ the across-groups summary)#p{pi}", p.pc, z3.And(*gsd),
                   func=PS + "Panoptica_Statistic.get_summary_dict", replay="c20.e2e")
        # frame: queries are read-only -- every stored column is the same list with the same cells in the same order afterwards
        vd, snap = p.state["vd"], p.state["snap"]
        cur_vd = p.state["st"].attrs.get("_Panoptica_Statistic__value_dict")
        same = cur_vd is vd and all(isinstance(vd[g][m], list) and len(vd[g][m]) == len(snap[(g, m)]) and all(a is b for a, b in zip(vd[g][m], snap[(g, m)])) for g in GROUPS for m in METRICS) \
            and list(p.state["st"].attrs.get("_Panoptica_Statistic__subj_names")) == p.state["names"]
        ctx.oblige(f"{nm}/frame(get_one_subject, summaries and get_across_groups leave the stored table unchanged)#p{pi}", [], z3.BoolVal(bool(same)),
                   func=PS + "Panoptica_Statistic.get_across_groups", replay="c20.frame", info={"structural": True})
        # per-subject lookup: subject s1 is index 1 in every column
        gs = []
        for g in GROUPS:
            for m in METRICS:
                v = one[g][m]
                if isinstance(v, SymOpt):
                    gs.append(z3.And(v.is_none == isn[(g, m)](z3.IntVal(1)), to_term(v.value) == z3.Select(va[(g, m)], 1)))
                elif v is None:
                    gs.append(isn[(g, m)](z3.IntVal(1)))
                else:
                    gs.append(z3.And(z3.Not(isn[(g, m)](z3.IntVal(1))), to_term(v, "real") == z3.Select(va[(g, m)], 1)))
        ctx.oblige(f"{nm}/get_one_subject returns that subject's own values#p{pi}", p.pc, z3.And(*gs), func=PS + "Panoptica_Statistic.get_one_subject", replay="c20.e2e")
        # across groups: statistics over the per-group averages
        gs = []
        for m in METRICS:
            arr = z3.K(I, z3.RealVal(0))
            for gi, g in enumerate(GROUPS):
                arr = z3.Store(arr, gi, T(per[g][m]))
            gs.append(z3.And(T(ac[m]["avg"]) == AGG["average"](arr, z3.IntVal(len(GROUPS))), T(ac[m]["std"]) == AGG["pstd"](arr, z3.IntVal(len(GROUPS))),
                             z3.Or(*[T(ac[m]["min"]) == T(per[g][m]) for g in GROUPS]), z3.And(*[T(ac[m]["min"]) <= T(per[g][m]) for g in GROUPS]),
                             z3.Or(*[T(ac[m]["max"]) == T(per[g][m]) for g in GROUPS]), z3.And(*[T(ac[m]["max"]) >= T(per[g][m]) for g in GROUPS])))
        ctx.oblige(f"{nm}/get_summary_across_groups = statistics of the per-group averages#p{pi}", p.pc, z3.And(*gs), func=PS + "Panoptica_Statistic.get_summary_across_groups", replay="c20.e2e")
        if pi == 0:
            ctx.canary(f"{nm}#p{pi}", p.pc)


def unit_ctor(ctx):
    eng = ctx.engine()

    def mk_ok(e):
        return [["a", "b"], {"g": {"m": [1.0, None], "k": [None, 2.0]}, "h": {"m": [0.5, 0.5], "k": [1.0, 1.0]}}], {}

    def mk_bad_len(e):
        return [["a", "b"], {"g": {"m": [1.0]}}], {}

    def mk_bad_metrics(e):
        return [["a"], {"g": {"m": [1.0]}, "h": {"m": [1.0], "k": [2.0]}}], {}
    ps = eng.run(PS + "Panoptica_Statistic", mk_ok)
    ok = len(ps) == 1 and ps[0].kind == "return"
    if ok:
        o = ps[0].value
        ok = o.attrs["_Panoptica_Statistic__groupnames"] == ["g", "h"] and o.attrs["_Panoptica_Statistic__metricnames"] == ["m", "k"]
    ctx.oblige("panoptica_statistics.Panoptica_Statistic.__init__/accepts a consistent table; group and metric names in table order", [], z3.BoolVal(bool(ok)), func=PS + "Panoptica_Statistic.__init__")
    for nm, mk in (("one value per subject", mk_bad_len), ("same metrics in every group", mk_bad_metrics)):
        ps = eng.run(PS + "Panoptica_Statistic", mk)
        ctx.oblige(f"panoptica_statistics.Panoptica_Statistic.__init__/rejects tables violating: {nm}", [], z3.BoolVal(len(ps) == 1 and ps[0].kind == "raise" and ps[0].exc.name() == "AssertionError"),
                   func=PS + "Panoptica_Statistic.__init__")
    # ValueSummary on a concrete list of symbolic reals
    a, b, c = z3.Reals("va vb vc")

    def mk_vs(e):
        return [[SymReal(a), SymReal(b), SymReal(c)]], {}

    def tgt(lst):
        s = eng.call(eng.resolve(PS + "ValueSummary"), [lst], {})
        return {k: eng.getattr(s, k) for k in ("avg", "std", "min", "max")}
    arr = z3.Store(z3.Store(z3.Store(z3.K(I, z3.RealVal(0)), 0, a), 1, b), 2, c)
    for pi, p in enumerate(eng.run(tgt, mk_vs)):
        d = p.value
        T = lambda x: to_term(x, "real")
        ctx.oblige(f"panoptica_statistics.ValueSummary/post(avg, population std, min, max of the list)#p{pi}", p.pc,
                   z3.And(T(d["avg"]) == AGG["average"](arr, z3.IntVal(3)), T(d["std"]) == AGG["pstd"](arr, z3.IntVal(3)),
                          T(d["min"]) <= a, T(d["min"]) <= b, T(d["min"]) <= c, z3.Or(T(d["min"]) == a, T(d["min"]) == b, T(d["min"]) == c),
                          T(d["max"]) >= a, T(d["max"]) >= b, T(d["max"]) >= c, z3.Or(T(d["max"]) == a, T(d["max"]) == b, T(d["max"]) == c)),
                   func=PS + "ValueSummary.__init__", replay="c20.e2e")


def build(ctx):
    ctx.trust("np.average / np.std (population) on a list: uninterpreted functions of the multiset's sequence (order-independence of the reductions is numpy's)",
              "filtered list comprehension semantics; which cells are None is established by from_file (C18)")
    ctx.unit("get", lambda: unit_get(ctx))
    ctx.unit("summary", lambda: unit_summary(ctx))
    ctx.unit("concrete", lambda: unit_concrete(ctx))
    ctx.unit("ctor", lambda: unit_ctor(ctx))
    ctx.add_bounded("c20-tables", "c20.bounded")


def concretise(ctx, o, r):
    if o.replay == "c20.frame":
        return {}
    return {"obligation": o.name}
