"""C07 - ASSD equals the mean of the two directed average surface distances."""
from __future__ import annotations
import z3
from pyvc.values import *
from pyvc.objects import *
from pyvc.npmodel import Space, VArr, base_array, card, Vox
from pyvc.scipymodel import nbr, has_nbr, dist2, RSQRT, VMEAN
from .common import *

LEVEL = "proof"
EXPLANATION = ("metrics/assd.py is executed symbolically for 1, 2 and 3 dimensions with symbolic extents and masks, on top of three ASSUMED scipy "
               "contracts (face structure, erosion with out-of-array = background, nearest-zero feature transform): the extracted border is the "
               "statement's border, the hand-rolled distance reconstruction gives sqrt of the minimal squared distance to the other border, each "
               "directed distance is the mean of exactly those values over exactly the border voxels of the other mask, and ASSD is the average of "
               "the two directions.  Symmetry, non-negativity and zero-iff-borders-coincide are lemmas over the mean contract.")
AS = "panoptica.metrics.assd."


def spec_border(sp, m_at, x):
    """statement: a foreground voxel with a background or out-of-array face neighbour"""
    alts = []
    for k in range(sp.ndim):
        for s in (-1, 1):
            alts.append(z3.Or(z3.Not(has_nbr(sp, k, s, x)), z3.Not(m_at(nbr(sp, k, s)(x)))))
    return z3.And(m_at(x), z3.Or(*alts))


def unit_assd(ctx, ndim, mode):
    eng = ctx.engine(feas_timeout_ms=800)
    r_lbl, p_lbl = z3.Ints("r_lbl p_lbl")

    def mk(e):
        e.__dict__["edt_calls"] = []
        e.__dict__["vmeans"] = []
        sp = Space("S", ndim=ndim)
        if mode == "masks":
            Rr = base_array(e, "Rm", "bool", sp)
            P = base_array(e, "Pm", "bool", sp)
            args = [Rr, P]
        else:
            Rr = base_array(e, "R", "uint16", sp)
            P = base_array(e, "P", "uint16", sp)
            args = [Rr, P, SymInt(r_lbl), SymInt(p_lbl)]
        sp.declare_coords(e)
        e.assume(z3.And(*[sp.extent(k) < 2 ** 31 for k in range(ndim)]), why="extents below 2^31 (int32 feature transform)")
        return args, {}, {"sp": sp, "R": Rr, "P": P}
    fn = AS + "_compute_instance_average_symmetric_surface_distance"
    snaps = []

    def target(*a):
        out = eng.call(eng.resolve(fn), list(a), {})
        snaps.append((list(eng.vmeans), list(eng.edt_calls)))
        return out
    paths = eng.run(target, mk)
    nm = f"metrics.assd[{ndim}-D,{mode}]"
    si = 0
    ctx.expect(f"{nm}: a returning path", any(p.kind == "return" for p in paths))
    for pi, p in enumerate(paths):
        for (snm, spc, sf, sinf) in p.side:
            if snm.startswith("no-overflow"):
                # machine-integer side condition; quantified contract facts are not needed to refute it, and the replay decides
                ctx.oblige(f"{nm}/{snm}#p{pi}", [h for h in spc if not z3.is_quantifier(h)], sf, func=AS + "_distance_transform_edt", kind="side", replay="c07.far",
                           info={"ndim": ndim, "prefer": [["(<= extent0_S 100000)"]]})
        if p.kind != "return":
            ctx.oblige(f"{nm}/no-exception({p.exc.name() if p.exc else p.kind})#p{pi}", p.pc, z3.BoolVal(False), func=fn, replay="c07.assd", info={"ndim": ndim})
            continue
        vm, edt = snaps[si]
        si += 1
        sp, Rr, P = p.state["sp"], p.state["R"], p.state["P"]
        x = sp.x
        if mode == "masks":
            mR = lambda q: Rr.base(q)
            mP = lambda q: P.base(q)
        else:
            mR = lambda q: Rr.base(q) == r_lbl
            mP = lambda q: P.base(q) == p_lbl
        bR = lambda q: spec_border(sp, mR, q)
        bP = lambda q: spec_border(sp, mP, q)
        ok = len(vm) == 2 and len(edt) == 2
        ctx.oblige(f"{nm}/structure(two directed means, two distance transforms)#p{pi}", [], z3.BoolVal(bool(ok)), func=fn, replay="c07.assd", info={"ndim": ndim})
        if not ok:
            continue
        # which mean is which direction: by its selection set
        info = {"ndim": ndim}
        dirs = []
        for m_, e_ in zip(vm, edt):
            dirs.append((m_, e_))
        # direction A: border voxels of the prediction, distances to the border of the reference; direction B: roles exchanged
        gA = z3.Or(*[z3.And(z3.ForAll([x], m_["cond"] == bP(x)), z3.ForAll([x], z3.substitute(e_["input"].nonzero_term(), (e_["input"].space.x, x)) == z3.Not(bR(x)))) for m_, e_ in dirs])
        gB = z3.Or(*[z3.And(z3.ForAll([x], m_["cond"] == bR(x)), z3.ForAll([x], z3.substitute(e_["input"].nonzero_term(), (e_["input"].space.x, x)) == z3.Not(bP(x)))) for m_, e_ in dirs])
        ctx.oblige(f"{nm}/post.border(the selected voxels are exactly the statement's border voxels; the distance transform's zero set is the other border) [pred->ref]#p{pi}",
                   p.pc, gA, func=fn, replay="c07.assd", info=info)
        ctx.oblige(f"{nm}/post.border [ref->pred]#p{pi}", p.pc, gB, func=fn, replay="c07.assd", info=info)
        # value at every voxel: non-negative, squared = squared distance to the nearest zero (= nearest border voxel of the other mask)
        for di, (m_, e_) in enumerate(dirs):
            val = m_["value"].term
            nzf = e_["nz"]
            y = z3.Const("v_y", Vox)
            isz = lambda q, e_=e_: z3.Not(z3.substitute(e_["input"].nonzero_term(), (e_["input"].space.x, q)))
            g = z3.And(val >= 0, val * val == dist2(sp, x, nzf(x)), isz(nzf(x)), z3.Implies(isz(y), dist2(sp, x, nzf(x)) <= dist2(sp, x, y)))
            ctx.oblige(f"{nm}/post.distance(each value is the Euclidean distance to the nearest voxel of the other border) [mean {di}]#p{pi}",
                       p.pc + [z3.ForAll([x], z3.Implies(x == x, z3.And(RSQRT(dist2(sp, x, nzf(x))) >= 0, RSQRT(dist2(sp, x, nzf(x))) * RSQRT(dist2(sp, x, nzf(x))) == dist2(sp, x, nzf(x)))))],
                       g, func=fn, replay="c07.assd", info=info)
        res = to_term(p.value, "real")
        ctx.oblige(f"{nm}/post.average(ASSD = (mean of direction 1 + mean of direction 2) / 2)#p{pi}", p.pc,
                   res == (vm[0]["result"].term + vm[1]["result"].term) / 2, func=fn, replay="c07.assd", info=info)
        ctx.oblige(f"{nm}/frame(caller arrays not written)#p{pi}", [], z3.BoolVal(not any(ev[0] == "arr-write" and ev[2] == "caller" for ev in p.events)), func=fn)
        if si == 1:
            ctx.canary(f"{nm}#p{pi}", p.pc, func=fn)


def unit_lemmas(ctx):
    """consequences of the statement's formula, over the contract of the mean (mean of values >= 0 over a non-empty set is >= 0, and 0 iff all are 0)"""
    VA = z3.ArraySort(Vox, R)
    SA = z3.ArraySort(Vox, B)
    f, g = z3.Consts("f_vals g_vals", VA)
    S1, S2 = z3.Consts("S_border1 S_border2", SA)
    v = z3.Const("v", Vox)
    mean_axioms = lambda ff, SS: [z3.Implies(z3.And(z3.Exists([v], SS[v]), z3.ForAll([v], z3.Implies(SS[v], ff[v] >= 0))),
                                             z3.And(VMEAN(ff, SS) >= 0, (VMEAN(ff, SS) == 0) == z3.ForAll([v], z3.Implies(SS[v], ff[v] == 0))))]
    hyps = mean_axioms(f, S1) + mean_axioms(g, S2) + [z3.Exists([v], S1[v]), z3.Exists([v], S2[v]),
                                                        z3.ForAll([v], z3.And(z3.Implies(S1[v], f[v] >= 0), z3.Implies(S2[v], g[v] >= 0)))]
    assd = (VMEAN(f, S1) + VMEAN(g, S2)) / 2
    assd_swapped = (VMEAN(g, S2) + VMEAN(f, S1)) / 2
    ctx.oblige("lemma.symmetric(exchanging the two masks exchanges the two directed means)", hyps, assd == assd_swapped, kind="lemma")
    ctx.oblige("lemma.non-negative", hyps, assd >= 0, kind="lemma")
    # f[v] = distance of border voxel v of mask 1 to border 2: zero iff v is in border 2 (dist 0 iff same voxel); so ASSD = 0 iff the borders coincide
    hz = hyps + [z3.ForAll([v], z3.Implies(S1[v], (f[v] == 0) == S2[v])), z3.ForAll([v], z3.Implies(S2[v], (g[v] == 0) == S1[v]))]
    ctx.oblige("lemma.zero-iff-the-two-borders-coincide", hz, (assd == 0) == z3.ForAll([v], S1[v] == S2[v]), kind="lemma")
    ctx.canary("lemma", hz)


def build(ctx):
    ctx.trust("ASSUMED: scipy.ndimage.generate_binary_structure(d, 1) = centre + 2d face neighbours",
              "ASSUMED: scipy.ndimage.binary_erosion(m, structure, iterations=1), border_value=0: x survives iff x and all its face neighbours are foreground; out-of-array = background",
              "ASSUMED: scipy euclidean_feature_transform(inp, None, ft): ft[:, x] = coordinates of a zero element of inp nearest to x",
              "np.sqrt as real square root; mean of a selection as an uninterpreted functional of (value function, selection set) with the usual sign properties",
              "int32 -> float64 conversion is exact for extents below 2^31")
    for nd in (1, 2, 3):
        ctx.unit(f"assd[{nd},masks]", lambda nd=nd: unit_assd(ctx, nd, "masks"))
    ctx.unit("assd[3,labels]", lambda: unit_assd(ctx, 3, "labels"))
    ctx.unit("lemmas", lambda: unit_lemmas(ctx))
    # "unaffected by embedding the masks in a larger or tighter array" through the evaluator rests on the crop contracts of C10
    include_stage(ctx, "C10", only=lambda mod, sub: [sub.unit(f"bbox[{nd}]", lambda nd=nd: mod.unit_bbox(sub, nd)) for nd in (1, 2, 3)]
                  + [sub.unit("evaluate_instance", lambda: mod.unit_evaluate_instance(sub))])
    # in the evaluator ASSD runs on the SAME per-instance masks after Dice and IoU: those must leave the masks untouched (frame obligations of C06)
    include_stage(ctx, "C06")
    ctx.add_bounded("c07-bruteforce", "c07.bounded")


def concretise(ctx, o, r):
    if (o.info or {}).get("stage"):
        return stage_concretise(ctx, o, r)
    return {"ndim": o.info.get("ndim")}
