"""C09 - results do not depend on label values, label order or integer dtype.

The spec (set of voxels per instance) uses labels only through equality, so it is renaming-invariant by
construction; what can break the equality for particular magnitudes / dtypes is machine arithmetic.  The
obligations here are the no-wrap / exactness conditions of every place where label values enter arithmetic."""
from __future__ import annotations
import z3
from pyvc.values import *
from pyvc.objects import *
from pyvc.npmodel import Space, VArr, VSel, base_array, card, Vox, dtype_range, DType, UINT_BITS
from pyvc.interp import PyRaise
from .common import *

LEVEL = "proof"
EXPLANATION = ("Machine-integer obligations on the real code: the pair encoding of _calc_overlapping_labels decodes exactly and completely "
               "for all labels in [1,2^24) in every unsigned dtype (numpy 1.26 promotion modelled), the lookup-table relabelling does not "
               "wrap, the paired crop sees a voxel as foreground iff either array is non-zero there, dtype/shape checks do not look at values.")
LABEL_BOUND = 2 ** 24
UDT = ["uint8", "uint16", "uint32", "uint64"]
NU = "panoptica.utils.numpy_utils."


def label_arrays(e, dtype, bound=True):
    sp = Space("S", ndim=None)
    Rr = base_array(e, "R", dtype, sp)
    P = base_array(e, "P", dtype, sp)
    if bound:
        v = z3.Const("v_bound", Vox)
        e.assume(z3.ForAll([v], z3.And(Rr.base(v) < LABEL_BOUND, P.base(v) < LABEL_BOUND)), why="quantifier: labels in [1, 2^24)")
    return sp, Rr, P


def unit_overlap(ctx, dtype):
    """_calc_overlapping_labels: each overlapping (ref,pred) label pair exactly once, nothing else."""
    eng = ctx.engine(feas_timeout_ms=1500)
    fn = FN + "_calc_overlapping_labels"

    def mk(e):
        sp, Rr, P = label_arrays(e, dtype)
        ref_labels = e.np.unique(VSel(Rr, Rr.term != 0))
        e.assume(wrap(to_term(ref_labels.length) > 0), why="pre: the reference has at least one instance")
        return [P, Rr, ref_labels], {}, {"sp": sp, "R": Rr, "P": P}
    paths = eng.run(fn, mk)
    nm = f"_functionals._calc_overlapping_labels[{dtype}]"
    info = {"dtype": dtype, "prefer": [["(<= size_S 4)"]]}
    rets = [q for q in paths if q.kind == "return"]
    ctx.expect(f"{nm}: a returning path exists", bool(rets))
    ctx.side_obligations(paths, nm, func=fn, replay="c09.overlap_layout", skip=lambda s: not s.startswith("layout-independence"), info=dict(info))  # decided by the mixed-layout replay
    for pi, q in enumerate(paths):
        sp, Rr, P = q.state["sp"], q.state["R"], q.state["P"]
        if q.kind != "return":
            ctx.oblige(f"{nm}/no-exception({q.exc.name()})#p{pi}", q.pc, z3.BoolVal(False), func=fn, replay="c09.overlap", info=info)
            continue
        ctx.oblige(f"{nm}/frame(the two input arrays are not written)#p{pi}", q.pc,
                   z3.And(z3.BoolVal(not any(ev[0] == "arr-write" and ev[2] == "caller" for ev in q.events)), Rr.term == Rr.base(sp.x), P.term == P.base(sp.x)),
                   func=fn, replay="c09.overlap_frame", info=dict(info, structural=True))
        F = q.value
        if not (isinstance(F, SymSeq) and hasattr(F, "src") and hasattr(F.base, "unique_of")):
            raise Unsupported("result is not a filtered comprehension over np.unique(...)")
        arr, cond, u, wit, idx, nU = F.base.unique_of
        nF = to_term(F.length)
        el = lambda t: F.elem(t)
        Rv, Pv = (lambda t: Rr.base(t)), (lambda t: P.base(t))
        ctx.canary(f"{nm}#p{pi}", q.pc, func=fn)
        # the divisor of the encoding: the comparison partner in the filter condition
        ci0, cterm = F.cond
        while z3.is_app(cterm) and cterm.decl().kind() in (z3.Z3_OP_AND, z3.Z3_OP_NOT) and cterm.num_args() == 1:
            cterm = cterm.arg(0)
        mt = None
        if z3.is_app(cterm) and cterm.num_args() == 2:
            for side in cterm.children():
                if not _mentions(side, ci0):
                    mt = side
        if mt is None:
            raise Unsupported("cannot identify the encoding divisor in the filter condition")
        real = z3.is_real(mt)
        lift = (lambda t: z3.ToReal(t)) if real else (lambda t: t)

        def euclid(a, qq, rr):
            """instance of the (separately proved) uniqueness of Euclidean division"""
            if real:
                return z3.Implies(z3.And(mt > 0, rr >= 0, lift(rr) < mt, a == lift(qq) * mt + lift(rr)),
                                  z3.And(z3.ToReal(z3.ToInt(a / mt)) == lift(qq), a - mt * z3.ToReal(z3.ToInt(a / mt)) == lift(rr)))
            return z3.Implies(z3.And(mt > 0, rr >= 0, rr < mt, a == qq * mt + rr), z3.And(a / mt == qq, a % mt == rr))
        j0, j1 = z3.Ints("oj0 oj1")
        inr = lambda j: z3.And(0 <= j, j < nF)
        rj, pj = el(j0)
        r_t, p_t = to_term(rj), to_term(pj)
        w0 = wit(F.src(j0))
        pyint = isinstance(rj, (int, SymInt)) and isinstance(pj, (int, SymInt)) and not getattr(rj, "np", False) and not getattr(pj, "np", False)
        ctx.oblige(f"{nm}/post.python-ints#p{pi}", [], z3.BoolVal(bool(pyint)), func=fn)
        Bd = min(dtype_range(dtype)[1], LABEL_BOUND - 1)

        def chain(tag, base, w, a_of_w, goal, final_steps=None):
            """lemma chain: each step is its own obligation proved from the previous ones"""
            hy = list(base)
            steps = [
                ("divisor-range", z3.And(mt >= 2, mt <= Bd + 1)),
                ("label-ranges", z3.And(Pv(w) >= 0, Pv(w) <= Bd, Rv(w) >= 0, Rv(w) <= Bd, z3.Implies(Rv(w) != 0, lift(Rv(w)) < mt))),
                ("product-bound", z3.And(lift(Pv(w)) * mt >= 0, lift(Pv(w)) * mt <= Bd * (Bd + 1))),
                ("no-wrap", a_of_w == z3.If(Rv(w) == 0, lift(z3.IntVal(0)), lift(Pv(w)) * mt + lift(Rv(w)))),
                ("decode", z3.Implies(Rv(w) != 0, z3.And(*euclid_concl(a_of_w, Pv(w), Rv(w))))),
                ("above-threshold", z3.Implies(z3.And(Rv(w) != 0, Pv(w) != 0), a_of_w > mt)),
            ]
            lem = []
            for sn, f in steps:
                extra = [euclid(a_of_w, Pv(w), Rv(w))] if sn == "decode" else []
                # the arithmetic steps need only the earlier (ground) lemmas: quantifier-free, decidable both ways
                hyps = (hy + lem) if sn in ("divisor-range", "label-ranges") else lem
                ctx.oblige(f"{nm}/{tag}.lemma.{sn}#p{pi}", hyps + extra, f, func=fn, kind="lemma", replay="c09.overlap", info=info)
                lem.append(f)
            hy = hy + lem
            if final_steps:
                for sn, f, use_pc in final_steps:
                    ctx.oblige(f"{nm}/{tag}.lemma.{sn}#p{pi}", (hy if use_pc else lem), f, func=fn, kind="lemma", replay="c09.overlap", info=info)
                    lem.append(f)
                    hy.append(f)
                ctx.oblige(f"{nm}/post.{tag}#p{pi}", lem, goal, func=fn, replay="c09.overlap", info=info)
            else:
                ctx.oblige(f"{nm}/post.{tag}#p{pi}", hy, goal, func=fn, replay="c09.overlap", info=info)

        def euclid_concl(a, qq, rr):
            if real:
                return [z3.ToReal(z3.ToInt(a / mt)) == lift(qq), a - mt * z3.ToReal(z3.ToInt(a / mt)) == lift(rr)]
            return [a / mt == qq, a % mt == rr]

        a0 = u(F.src(j0))
        base0 = q.pc + [inr(j0), a0 == arr.at(w0)]
        ctx.oblige(f"{nm}/sound.lemma.witness#p{pi}", q.pc + [inr(j0)], a0 == arr.at(w0), func=fn, kind="lemma")
        chain("sound(every listed pair overlaps in some voxel; labels non-zero)", base0, w0, arr.at(w0),
              z3.And(r_t > 0, p_t > 0, Rv(w0) == r_t, Pv(w0) == p_t))
        v0 = z3.Const("v0", Vox)
        jj = F.pos(idx(arr.at(v0)))
        rr, pp = el(jj)
        chain("complete(every overlapping pair is listed)", q.pc, v0, arr.at(v0),
              z3.Implies(z3.And(Rv(v0) != 0, Pv(v0) != 0), z3.And(0 <= jj, jj < nF, to_term(rr) == Rv(v0), to_term(pp) == Pv(v0))),
              final_steps=[("listed-index", z3.Implies(z3.And(Rv(v0) != 0, Pv(v0) != 0), z3.And(0 <= jj, jj < nF, u(F.src(jj)) == arr.at(v0))), True)])
        r2, p2 = el(j1)
        # exactly once: the unique values are strictly increasing and decode is a function of the value
        # (instances of the sound-lemma, proved above for an arbitrary index, at j0 and j1)
        w1 = wit(F.src(j1))
        sound_at = lambda jx, wx, rx, px: z3.And(to_term(rx) > 0, to_term(px) > 0, Rv(wx) == to_term(rx), Pv(wx) == to_term(px))
        no_wrap_at = lambda jx, wx: u(F.src(jx)) == z3.If(Rv(wx) == 0, lift(z3.IntVal(0)), lift(Pv(wx)) * mt + lift(Rv(wx)))
        incr = u(F.src(j0)) < u(F.src(j1))
        ctx.oblige(f"{nm}/exactly-once.lemma.strictly-increasing#p{pi}", q.pc + [inr(j0), inr(j1), j0 < j1], incr, func=fn, kind="lemma")
        ctx.oblige(f"{nm}/post.exactly-once(no pair listed twice)#p{pi}",
                   [inr(j0), inr(j1), j0 < j1, mt > 0, incr, sound_at(j0, w0, rj, pj), sound_at(j1, w1, r2, p2), no_wrap_at(j0, w0), no_wrap_at(j1, w1)],
                   z3.Or(r_t != to_term(r2), p_t != to_term(p2)), func=fn, replay="c09.overlap", info=info)
        frame = z3.BoolVal(not any(ev[0] == "arr-write" and ev[2] == "caller" for ev in q.events))
        ctx.oblige(f"{nm}/frame(caller arrays not written)#p{pi}", [], frame, func=fn)


def _mentions(t, c):
    if t.eq(c):
        return True
    return any(_mentions(ch, c) for ch in t.children()) if z3.is_app(t) else False


def unit_euclid(ctx):
    a, qq, rr, m = z3.Ints("ea eq er em")
    ctx.oblige("lemma.euclid-unique(int)", [m > 0, rr >= 0, rr < m, a == qq * m + rr], z3.And(a / m == qq, a % m == rr), kind="lemma")
    ar, mr = z3.Reals("ear emr")
    ctx.oblige("lemma.euclid-unique(float path, integral values)", [mr > 0, rr >= 0, z3.ToReal(rr) < mr, mr == z3.ToReal(m), ar == z3.ToReal(qq) * mr + z3.ToReal(rr)],
               z3.And(z3.ToReal(z3.ToInt(ar / mr)) == z3.ToReal(qq), ar - mr * z3.ToReal(z3.ToInt(ar / mr)) == z3.ToReal(rr)), kind="lemma")


def unit_paired_crop(ctx, dtype):
    """_get_paired_crop: the array handed to the bounding-box routine is non-zero exactly where either input is."""
    eng = ctx.engine()
    fn = FN + "_get_paired_crop"
    seen = {}

    def bbox_summary(e, f, args, kwargs):
        seen["img"] = args[0] if args else kwargs.get("img")
        seen["px"] = kwargs.get("px_dist", args[1] if len(args) > 1 else None)
        return "BBOX"
    eng.summaries[NU + "_get_bbox_nd"] = bbox_summary

    def mk(e):
        seen.clear()
        if dtype == "bool":
            sp = Space("S")
            Rr, P = base_array(e, "Rm", "bool", sp), base_array(e, "Pm", "bool", sp)
        else:
            sp, Rr, P = label_arrays(e, dtype)
        return [P, Rr], {}, {"sp": sp, "R": Rr, "P": P}
    for pi, q in enumerate(eng.run(fn, mk)):
        sp, Rr, P = q.state["sp"], q.state["R"], q.state["P"]
        nm = f"_functionals._get_paired_crop[{dtype}]"
        info = {"dtype": dtype, "prefer": [["(<= size_S 4)"]]}
        if q.kind != "return":
            ctx.oblige(f"{nm}/no-exception({q.exc.name()})#p{pi}", q.pc, z3.BoolVal(False), func=fn)
            continue
        img = seen.get("img")
        if not isinstance(img, VArr) or q.value != "BBOX":
            ctx.oblige(f"{nm}/delegates-to-bbox#p{pi}", [], z3.BoolVal(False), func=fn)
            continue
        fgR = Rr.nonzero_term()
        fgP = P.nonzero_term()
        anyfg = card(z3.Or(fgR, fgP), sp) > 0
        ctx.oblige(f"{nm}/post(box computed from the union of both foregrounds)#p{pi}", q.pc,
                   z3.Implies(anyfg, img.nonzero_term() == z3.Or(fgR, fgP)), func=fn, replay="c09.crop", info=info)
        ctx.oblige(f"{nm}/post(default padding forwarded; inputs not written)#p{pi}", [],
                   z3.BoolVal(seen.get("px") == 2 and not any(ev[0] == "arr-write" and ev[2] == "caller" for ev in q.events)), func=fn)


def unit_map_labels(ctx, dtype):
    """_map_labels(arr, m): fresh array with per-voxel value m'(arr[x]) (m' = m on its keys, identity elsewhere)."""
    eng = ctx.engine(feas_timeout_ms=1500)
    fn = FN + "_map_labels"
    dom = z3.Const("m_dom", z3.ArraySort(I, B))
    val = z3.Const("m_val", z3.ArraySort(I, I))
    q_ = z3.Int("mq")

    def mk(e):
        sp = Space("S")
        A = base_array(e, "A", dtype, sp)
        e.assume(wrap(sp.size > 0))
        m = SymMap(dom, val, name="label_map")
        # keys are labels of the array's dtype (>0), values are non-negative python ints below 2^40
        lo, hi = dtype_range(dtype)
        e.assume(z3.ForAll([q_], z3.Implies(dom[q_], z3.And(q_ > 0, q_ <= hi, val[q_] >= 0, val[q_] < 2 ** 40))), why="pre: keys are labels of the array, values non-negative")
        e.assume(z3.Exists([q_], dom[q_]), why="pre: non-empty map")
        return [A, m], {}, {"sp": sp, "A": A}
    paths = eng.run(fn, mk)
    nm = f"_functionals._map_labels[{dtype}]"
    info = {"dtype": dtype, "prefer": [["(<= size_S 3)"]]}
    ctx.expect(f"{nm}: returning path", any(p.kind == "return" for p in paths))
    for pi, p in enumerate(paths):
        sp, A = p.state["sp"], p.state["A"]
        if p.kind != "return":
            ctx.oblige(f"{nm}/no-exception({p.exc.name()})#p{pi}", p.pc, z3.BoolVal(False), func=fn, replay="c09.maplabels", info=info)
            continue
        out = p.value
        if not isinstance(out, VArr):
            ctx.oblige(f"{nm}/post(shape)#p{pi}", [], z3.BoolVal(False), func=fn)
            continue
        a = A.base(sp.x)
        spec = z3.If(dom[a], val[a], a)
        ctx.oblige(f"{nm}/post(per-voxel value = mapped label, identity off the map; no wrap-around)#p{pi}", p.pc, out.term == spec,
                   func=fn, replay="c09.maplabels", info=info)
        ctx.oblige(f"{nm}/post(fresh buffer, input not written)#p{pi}", [],
                   z3.BoolVal(out.buf != A.buf and not any(ev[0] == "arr-write" and ev[2] == "caller" for ev in p.events)), func=fn)
        # the relabelled array is never narrower than the input (callers align the reference map to its dtype, which must be a widening)
        ri, ro = dtype_range(dtype), dtype_range(out.dtype_name)
        ctx.oblige(f"{nm}/post(result dtype {out.dtype_name} holds every value of the input dtype {dtype})#p{pi}", p.pc,
                   z3.BoolVal(bool(ro is not None and ri is not None and ro[0] <= ri[0] and ri[1] <= ro[1])), func=fn, replay="c09.maplabels", info=dict(info, structural=True))
        ctx.canary(f"{nm}#p{pi}", p.pc, func=fn)


def unit_fitting_uint(ctx):
    eng = ctx.engine()
    fn = NU + "_get_smallest_fitting_uint"
    v = z3.Int("max_value")

    def mk(e):
        e.assume(wrap(v >= 0))
        return [SymInt(v)], {}
    for pi, p in enumerate(eng.run(fn, mk)):
        if p.kind != "return" or not isinstance(p.value, DType):
            ctx.oblige(f"numpy_utils._get_smallest_fitting_uint/returns-a-dtype#p{pi}", p.pc, z3.BoolVal(False), func=fn)
            continue
        hi = dtype_range(p.value.name)[1]
        smaller = [d for d in UDT if UINT_BITS[d] < UINT_BITS.get(p.value.name, 0)]
        g = z3.And(z3.BoolVal(p.value.name in UDT), z3.Or(v <= hi, z3.BoolVal(p.value.name == "uint64")),
                   *[v > dtype_range(d)[1] - (1 if d == "uint32" else 0) for d in smaller])
        ctx.oblige(f"numpy_utils._get_smallest_fitting_uint/post(unsigned dtype that holds the value)#p{pi}", p.pc, z3.Implies(v < 2 ** 64, g), func=fn)


def unit_integrity(ctx):
    """_check_array_integrity accepts exactly equal-shape, equal-dtype arrays of the required kind; no value-dependent branch."""
    eng = ctx.engine()
    fn = PP + "_check_array_integrity"
    kinds = {"uint_type": lambda d: d in UINT_BITS, "int_type": lambda d: d in UINT_BITS or d.startswith("int")}
    for kname, pred in kinds.items():
        for d1 in ("uint8", "uint16", "int32", "float64"):
            for d2 in ("uint8", "int32"):
                for same_shape in (True, False):
                    def mk(e, d1=d1, d2=d2, same_shape=same_shape, kname=kname):
                        sp1 = Space("S1")
                        sp2 = sp1 if same_shape else Space("S2")
                        a = base_array(e, "A1", d1, sp1)
                        b = base_array(e, "A2", d2, sp2)
                        return [a, b], {"dtype": e.load_module("panoptica.utils.processing_pair").ns[kname]}
                    paths = eng.run(fn, mk)
                    want_ok = same_shape and d1 == d2 and pred(d1)
                    ok = len(paths) == 1 and ((paths[0].kind == "return") == want_ok) and (want_ok or paths[0].exc.name() == "AssertionError")
                    ctx.oblige(f"processing_pair._check_array_integrity[{kname},{d1},{d2},{'same' if same_shape else 'other'}-shape]/accepts-iff-same-shape-dtype-kind; one path (no value-dependent branch)",
                               [], z3.BoolVal(bool(ok)), func=fn)


def build(ctx):
    ctx.trust("numpy 1.26.4 dtype promotion (array-array, array-scalar value-based, scalar-scalar) and modular integer casts as in pyvc/npmodel.py",
              "np.unique = strictly increasing sequence of the attained values; filtered list comprehension semantics",
              "float64 arithmetic exact for integers below 2^53 (uint64 input uses float arithmetic in numpy 1.26)")
    for dt in UDT:
        ctx.unit(f"overlap[{dt}]", lambda dt=dt: unit_overlap(ctx, dt))
        ctx.unit(f"paired_crop[{dt}]", lambda dt=dt: unit_paired_crop(ctx, dt))
        ctx.unit(f"map_labels[{dt}]", lambda dt=dt: unit_map_labels(ctx, dt))
    ctx.unit("paired_crop[bool]", lambda: unit_paired_crop(ctx, "bool"))
    ctx.unit("euclid", lambda: unit_euclid(ctx))
    ctx.unit("fitting_uint", lambda: unit_fitting_uint(ctx))
    ctx.unit("integrity", lambda: unit_integrity(ctx))
    # semantic input reaches these routines through the approximator, which re-types both maps: its value-preservation contract (C05)
    include_stage(ctx, "C05")
    ctx.add_bounded("c09-enum", "c09.bounded")


def concretise(ctx, o, r):
    if (o.info or {}).get("stage"):
        return stage_concretise(ctx, o, r)
    if o.replay in ("c09.overlap_layout", "c09.overlap_frame"):
        return {"dtype": o.info.get("dtype", "uint8")}
    ev = r.get("evals") or {}
    m = r.get("model") or {}
    return {"dtype": o.info.get("dtype"), "model": {k: v for k, v in m.items() if not k.startswith("region!")}, "evals": ev, "obligation": o.name}
