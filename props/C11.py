"""C11 - exchanging prediction and reference mirrors the result."""
from __future__ import annotations
import z3
from pyvc.values import *
from pyvc.objects import *
from pyvc.interp import PyRaise
from pyvc.npmodel import Space, VArr, base_array, card, Vox
from .common import *
from . import C03, C06

LEVEL = "proof"
EXPLANATION = ("Swap symmetry as lemmas over the stage contracts plus relational obligations on the real code.  (1) the real Metric.IOU/DSC/RVD "
               "are executed symbolically twice, on (ref, pred, r, p) and on (pred, ref, p, r): IoU and Dice are proved equal, RVD' * (1 + RVD) = -RVD; "
               "(2) the real PanopticaResult is constructed twice with the two instance counts exchanged and the same tp and lists: fp/fn and "
               "prec/rec are proved exchanged, rq, sq and pq equal; (3) lemmas over the contracts proved in C09/C03 (re-discharged here): the "
               "candidate relation transposes (overlap is symmetric), two best-first orders of the same candidate set with pairwise distinct scores "
               "coincide (induction step), and the one-to-one best-first selection is invariant under exchanging the roles of the two labels "
               "(induction step), hence the selected pair set transposes and tp is the same; ASSD symmetry is C07's lemma over its proved "
               "postcondition.  The many-to-one matcher and asymmetric metrics are outside the property.  Bounded: evaluate(pred, ref) against "
               "evaluate(ref, pred) through the real evaluator on enumerated and seeded inputs with uniquely determined matching.")
PR = "panoptica.panoptica_result."
EC = "panoptica.utils.edge_case_handling."
STAGE_MODULES = ["C05", "C09", "C03", "C04"]


def unit_metric_swap(ctx, kind, dtype):
    eng = ctx.engine()
    r, p = z3.Ints("r_lbl p_lbl")

    def mk(e):
        sp, Rr, P = C06.mk_arrays(e, "label", dtype)
        return [metric(e, kind), Rr, P], {}, {"sp": sp, "R": Rr, "P": P}

    def call(M, a, b, x, y):
        try:
            return ("ok", eng.call(eng.getattr(M, "__call__"), [a, b, x, y], {}))
        except PyRaise as ex:
            return ("raise", ex.exc.name())

    def target(M, Rr, P):
        return call(M, Rr, P, SymInt(r), SymInt(p)), call(M, P, Rr, SymInt(p), SymInt(r))
    fn = MM + "Metric.__call__"
    paths = eng.run(target, mk)
    nm = f"metrics.Metric.__call__[{kind},{dtype}] swapped arguments"
    info = {"kind": kind, "dtype": dtype, "mode": "sel-int", "prefer": [["(<= size_S 8)"]]}
    ctx.expect(f"{nm}: a path on which both calls return", any(q.kind == "return" and q.value[0][0] == "ok" and q.value[1][0] == "ok" for q in paths))
    for pi, q in enumerate(paths):
        if q.kind != "return":
            ctx.oblige(f"{nm}/no-exception#p{pi}", q.pc, z3.BoolVal(False), func=fn, replay="c11.metric", info=info)
            continue
        sp, Rr, P = q.state["sp"], q.state["R"], q.state["P"]
        X, Y = Rr.base(sp.x) == r, P.base(sp.x) == p
        cX, cY = card(X, sp), card(Y, sp)
        (k1, v1), (k2, v2) = q.value
        if k1 == "ok" and k2 == "ok":
            a, b = to_term(v1, "real"), to_term(v2, "real")
            if kind in ("IOU", "DSC"):
                goal = z3.Implies(cX + cY > 0, a == b)
                what = "same value in both directions"
            else:
                goal = z3.Implies(z3.And(cX > 0, cY > 0), b * (1 + a) == -a)
                what = "RVD of the exchanged pair is -r/(1+r)"
            ctx.oblige(f"{nm}/post({what})#p{pi}", q.pc, goal, func=fn, replay="c11.metric", info=info)
            if pi == 0:
                ctx.canary(f"{nm}#p{pi}", q.pc, func=fn)
        else:
            # an exception in one direction only where that direction's quotient is undefined (RVD with an empty reference side)
            allowed = z3.BoolVal(False)
            if kind == "RVD":
                allowed = z3.Or(cX == 0, cY == 0)
            ctx.oblige(f"{nm}/raises-only-where-undefined({k1},{k2})#p{pi}", q.pc, allowed, func=fn, replay="c11.metric", info=info)


def unit_result_swap(ctx):
    """two real PanopticaResult objects with the counts exchanged"""
    eng = ctx.engine()
    tp, a, b = z3.Ints("tp n_a n_b")
    METS = ["DSC", "IOU", "ASSD"]
    vals_arr = {m: z3.Const(f"vals_{m}", z3.ArraySort(I, R)) for m in METS}

    def mk(e):
        e.assume(wrap(z3.And(tp >= 0, tp <= a, tp <= b)))
        h = e.call(e.resolve(EC + "EdgeCaseHandler"), [], {})

        def res(npred, nref):
            lists = {metric(e, m): SymSeq(SymInt(tp), (lambda i, m=m: SymReal(z3.Select(vals_arr[m], i), np=True)), name=f"list_{m}") for m in METS}
            return e.call(e.resolve(PR + "PanopticaResult"), [], dict(reference_arr=None, prediction_arr=None, num_pred_instances=SymInt(npred),
                                                                      num_ref_instances=SymInt(nref), tp=SymInt(tp), list_metrics=lists, edge_case_handler=h))
        return [res(a, b), res(b, a)], {}
    names = ["tp", "fp", "fn", "prec", "rec", "rq", "sq", "sq_dsc", "sq_assd", "pq", "pq_dsc"]

    def target(r1, r2):
        out = []
        positive = eng.truth(wrap(tp > 0))  # sq/pq of an evaluation without true positives are edge-case values (C08), not part of this property
        for rr in (r1, r2):
            d = {}
            for n in (names if positive else names[:6]):
                try:
                    d[n] = eng.getattr(rr, n)
                except PyRaise as ex:
                    d[n] = ("raise", ex.exc.name())
            out.append(d)
        return out
    fn = PR + "PanopticaResult"
    paths = eng.run(target, mk)
    ctx.expect("result swap: tp>0 and tp==0 paths", len(paths) >= 2)
    for pi, q in enumerate(paths):
        nm = "panoptica_result.PanopticaResult[counts exchanged]"
        if q.kind != "return":
            ctx.oblige(f"{nm}/no-exception#p{pi}", q.pc, z3.BoolVal(False), func=fn)
            continue
        d1, d2 = q.value

        def eqv(x, y):
            if isinstance(x, tuple) or isinstance(y, tuple):
                return z3.BoolVal(x == y)
            if isinstance(x, float) and x != x:
                return z3.BoolVal(isinstance(y, float) and y != y)
            if isinstance(y, float) and y != y:
                return z3.BoolVal(False)
            return to_term(x, "real") == to_term(y, "real")
        goal = z3.And(eqv(d1["tp"], d2["tp"]), eqv(d1["fp"], d2["fn"]), eqv(d1["fn"], d2["fp"]), eqv(d1["prec"], d2["rec"]), eqv(d1["rec"], d2["prec"]),
                      eqv(d1["rq"], d2["rq"]), *[eqv(d1[k], d2[k]) for k in ("sq", "sq_dsc", "sq_assd", "pq", "pq_dsc") if k in d1])
        ctx.oblige(f"{nm}/post(fp and fn, prec and rec exchanged; tp, rq, sq, pq unchanged)#p{pi}", q.pc, goal, func=fn, replay="c11.result",
                   info={"prefer": [["(<= tp 2)", "(<= n_a 4)", "(<= n_b 4)"]]})
        if pi == 0:
            ctx.canary(f"{nm}#p{pi}", q.pc, func=fn)


def unit_lemmas(ctx):
    fnq = IM + "NaiveThresholdMatching._match_instances"
    for mname in ("IOU", "DSC", "ASSD"):
        # (a) two best-first orders of one candidate set with pairwise distinct scores coincide
        n = z3.Int("n")
        sa, sb = z3.Function("score_a", I, R), z3.Function("score_b", I, R)
        i, j, k = z3.Ints("li lj lk")
        inr = lambda x: z3.And(0 <= x, x < n)
        strictly = lambda s: z3.ForAll([i, j], z3.Implies(z3.And(inr(i), inr(j), i < j), z3.And(spec_better_eq(mname, s(i), s(j)), s(i) != s(j))))
        same_set = z3.And(z3.ForAll([i], z3.Implies(inr(i), z3.Exists([j], z3.And(inr(j), sa(i) == sb(j))))),
                          z3.ForAll([i], z3.Implies(inr(i), z3.Exists([j], z3.And(inr(j), sb(i) == sa(j))))))
        i0 = z3.Int("i0")
        hyp = [n >= 0, strictly(sa), strictly(sb), same_set, inr(i0), z3.ForAll([k], z3.Implies(z3.And(0 <= k, k < i0), sa(k) == sb(k)))]
        ctx.oblige(f"lemma.order-unique[{mname}]/induction-step(two best-first orders of the same distinct scores agree at position i)", hyp, sa(i0) == sb(i0),
                   func=FN + "_calc_matching_metric_of_overlapping_labels", kind="lemma")
        ctx.canary(f"lemma.order-unique[{mname}]", hyp, func=FN + "_calc_matching_metric_of_overlapping_labels")
        # (b) the one-to-one selection is invariant under exchanging the label roles
        mm = MMPairs(mname)
        thr = z3.Real("thr")
        beats = lambda s: spec_beats(mname, s, thr)
        sel, sel_t = z3.Function("sel", I, B), z3.Function("sel_t", I, B)

        class _T:  # the transposed candidate list: same scores, roles exchanged
            n, score, ref, pred = mm.n, mm.score, mm.pred, mm.ref
        base = mm.facts() + [C03._sel_def(mm, sel, beats, False, "o"), C03._sel_def(_T, sel_t, beats, False, "t")]
        step = z3.Implies(z3.And(0 <= i0, z3.ForAll([j], z3.Implies(z3.And(0 <= j, j < i0), sel(j) == sel_t(j)))), sel(i0) == sel_t(i0))
        ctx.oblige(f"lemma.selection-swap[{mname}]/induction-step(one-to-one best-first selection ignores which label is called reference)", base, step, func=fnq, kind="lemma")
        ctx.canary(f"lemma.selection-swap[{mname}]", base + [mm.n >= 2, sel(0), z3.Not(sel(1))], func=fnq)
        # (c) hence the final label maps are transposes of each other (C03's exit invariant for both runs)
        m1 = SymMap(z3.Const("dom_1", z3.ArraySort(I, B)), z3.Const("val_1", z3.ArraySort(I, I)))
        m2 = SymMap(z3.Const("dom_2", z3.ArraySort(I, B)), z3.Const("val_2", z3.ArraySort(I, I)))
        A1, B1 = C03._char(mm, sel, m1, mm.n)
        A2, B2 = C03._char(_T, sel_t, m2, mm.n)
        pq_, rq_ = z3.Ints("lp lr")
        same = z3.ForAll([j], z3.Implies(z3.And(0 <= j, j < mm.n), sel(j) == sel_t(j)))
        goal = z3.ForAll([pq_, rq_], z3.And(z3.Select(m1.dom, pq_), z3.Select(m1.val, pq_) == rq_) == z3.And(z3.Select(m2.dom, rq_), z3.Select(m2.val, rq_) == pq_))
        ctx.oblige(f"lemma.matching-transposes[{mname}](pred p is matched to ref r  iff  after the exchange r is matched to p)", base + [A1, B1, A2, B2, same], goal,
                   func=fnq, kind="lemma")
    # (d) the candidate relation itself: overlap is symmetric (C09's contract characterises the candidate set exactly by overlap)
    sp = Space("S")
    Pb, Rb = z3.Function("P", Vox, I), z3.Function("R", Vox, I)
    x = z3.Const("x", Vox)
    la, lb = z3.Ints("la lb")
    ov = lambda A, B_, u, v: z3.Exists([x], z3.And(A(x) == u, B_(x) == v))
    ctx.oblige("lemma.candidates-transpose((r,p) overlap for (ref,pred)  iff  (p,r) overlap for (pred,ref))", [], z3.ForAll([la, lb], ov(Rb, Pb, la, lb) == ov(Pb, Rb, lb, la)),
               func=FN + "_calc_overlapping_labels", kind="lemma")
    # (e) the RVD exchange formula is an involution on its domain (-1 < r): applying it twice gives r back
    rr = z3.Real("r")
    ctx.oblige("lemma.rvd-exchange-involution", [rr > -1], (lambda t: -t / (1 + t))(-rr / (1 + rr)) == rr, kind="lemma")


def build(ctx):
    for kind in ("IOU", "DSC", "RVD"):
        for dt in ("uint8", "uint32"):
            ctx.unit(f"metric-swap[{kind},{dt}]", lambda k=kind, d=dt: unit_metric_swap(ctx, k, d))
    ctx.unit("result-swap", lambda: unit_result_swap(ctx))
    ctx.unit("lemmas", lambda: unit_lemmas(ctx))
    for m in STAGE_MODULES:
        include_stage(ctx, m)
    from . import C07
    ctx.unit("stage C07: lemmas", lambda: C07.unit_lemmas(SubCtx(ctx, "C07")))
    ctx.trust("the composition (candidates -> order -> selection -> relabelling -> per-pair metrics -> counts) is argued over the contracts of C09/C03/C04/C02/C06/C07; "
              "the induction schema is applied outside the solver (base cases are vacuous: no earlier index)")
    ctx.add_bounded("c11-swap", "c11.bounded", exhaustive_1d=5 if ctx.tier == "quick" else 6, n_random=400 if ctx.tier == "quick" else 8000)


def concretise(ctx, o, r):
    if (o.info or {}).get("stage"):
        return stage_concretise(ctx, o, r)
    if o.replay == "c11.metric":
        return C06.concretise(ctx, o, r)
    if o.replay == "c11.result":
        m = r.get("model") or {}
        return {"tp": model_int(m.get("tp", "1")), "a": model_int(m.get("n_a", "1")), "b": model_int(m.get("n_b", "1"))}
    return None
