"""C18 - what the aggregator writes is what the statistics loader reads."""
from __future__ import annotations
import re
import z3
from pyvc.values import *
from pyvc.objects import *
from pyvc.fsmodel import Cell, XFloat, Written, PathModel
from .common import *

LEVEL = "proof"
EXPLANATION = ("Writer (_save_one_subject, header construction) and reader (Panoptica_Statistic.from_file) are executed symbolically over a ghost file "
               "system with symbolic (arbitrary string) group and subject names and symbolic cell contents: header = subject_name + group-metric "
               "in group-major order, a row holds the subject and one cell per header column in the same order, the reader files each cell under "
               "the (group, metric) of its own column for every group name (string obligations discharged by z3/cvc5) and maps empty/NaN/+inf "
               "cells to missing and every other cell to its float.  csv and float(str(x)) round trips are trusted.")
PS = "panoptica.panoptica_statistics."
PA = "panoptica.panoptica_aggregator."
PR = "panoptica.panoptica_result."
PE = "panoptica.panoptica_evaluator."
SC = "panoptica.utils.segmentation_class."
S = z3.StringSort()
METS = ["m_one", "m2"]


def unit_reader(ctx, sym_col):
    """from_file on header [subject_name, g1-m_one, g1-m2, g2-m_one, g2-m2] and one data row; the cell in column sym_col is symbolic,
    the others are distinct concrete numbers (so any column shift is visible)."""
    eng = ctx.engine(feas_timeout_ms=1500)
    g1, g2, sname = z3.Consts("group1 group2 subject", S)
    empty, kind, val = z3.Bool("cell_empty"), z3.Int("cell_kind"), z3.Real("cell_value")
    conc = ["1.5", "2.5", "3.5", "4.5"]

    def mk(e):
        e.assume(z3.And(g1 != g2, kind >= 0, kind <= 3), why="group names are distinct dictionary keys")
        hdr = ["subject_name"] + [SymStr(z3.Concat(g, z3.StringVal("-"), z3.StringVal(m))) for g in (g1, g2) for m in METS]
        cells = [Cell(empty, XFloat(kind, val)) if j == sym_col else conc[j] for j in range(4)]
        e.ghost_fs.files["/d/out.tsv"] = [hdr, [SymStr(sname)] + cells]
        return ["/d/out.tsv"], {}
    ST = eng.resolve(PS + "Panoptica_Statistic")
    paths = eng.run(lambda f: eng.call(eng.getattr(ST, "from_file"), [f], {}), mk)
    fn = PS + "Panoptica_Statistic.from_file"
    nm = f"panoptica_statistics.Panoptica_Statistic.from_file[symbolic cell in column {sym_col}]"
    info = {"sym_col": sym_col}
    ctx.expect(f"{nm}: a returning path", any(p.kind == "return" for p in paths))
    cols = [(g, m) for g in (g1, g2) for m in METS]
    for pi, p in enumerate(paths):
        if p.kind != "return":
            ctx.oblige(f"{nm}/loads-for-any-printable-group-name({p.exc.name() if p.exc else p.kind}: {str(p.exc.args)[:50] if p.exc else ''})#p{pi}",
                       p.pc, z3.BoolVal(False), func=fn, replay="c18.names", info=dict(info, witness_class="group name containing '-' breaks the header split"))
            continue
        st = p.value
        vd = st.attrs["_Panoptica_Statistic__value_dict"]
        names = st.attrs["_Panoptica_Statistic__subj_names"]
        goals = [z3.BoolVal(isinstance(names, list) and len(names) == 1), (to_term(names[0]) == sname) if isinstance(names, list) and len(names) == 1 and isinstance(names[0], (str, SymStr)) else z3.BoolVal(False)]
        # locate the stored lists by group key and metric name
        def lookup(gt, m):
            hits = []
            for k, d in vd.items():
                kt = to_term(k)
                for mk_, lst in d.items():
                    if mk_ == m:
                        hits.append((kt == gt, lst))
            return hits
        for j, (g, m) in enumerate(cols):
            hits = lookup(g, m)
            alts = []
            for cond, lst in hits:
                if not (isinstance(lst, list) and len(lst) == 1):
                    continue
                v = lst[0]
                if j == sym_col:
                    missing = z3.Or(empty, kind == 1, kind == 2, kind == 3)  # statement: NaN and infinite (either sign) are missing
                    if v is None:
                        ok = missing
                    elif isinstance(v, XFloat):
                        ok = z3.And(z3.Not(missing), v.kind == kind, v.value == val)
                    else:
                        ok = z3.BoolVal(False)
                else:
                    ok = z3.BoolVal(isinstance(v, float) and v == float(conc[j]))
                alts.append(z3.And(cond, ok))
            goals.append(z3.Or(*alts) if alts else z3.BoolVal(False))
        ctx.oblige(f"{nm}/post(each cell filed under the group and metric of its own column; empty/NaN/infinite -> missing, other values kept; subject name kept)#p{pi}",
                   p.pc, z3.And(*goals), func=fn, replay="c18.e2e", info=info)
        if not getattr(ctx, "_c18_canary", False):
            ctx._c18_canary = True
            ctx.canary(f"{nm}#p{pi}", p.pc, func=fn)


def mk_aggregator(e, groups, metrics, out="/d/out.tsv"):
    return e.new_obj(PA + "Panoptica_Aggregator", _Panoptica_Aggregator__class_group_names=list(groups), _Panoptica_Aggregator__evaluation_metrics=list(metrics),
                     _Panoptica_Aggregator__output_file=out, _Panoptica_Aggregator__output_buffer_file=PathModel(e, "/d/panoptica_aggregator_tmp.tsv"),
                     _Panoptica_Aggregator__panoptica_evaluator="EVALUATOR")


def unit_writer(ctx):
    """_save_one_subject appends exactly one row: subject, then one cell per (group, metric) in header order; a metric the
    result does not expose yields '' in its own column; computation_time only when recorded."""
    eng = ctx.engine()
    g1, g2, sname = z3.Consts("group1 group2 subject", S)
    vals = {(gi, m): z3.Real(f"v_{gi}_{m}") for gi in (0, 1) for m in METS}
    present = z3.Bool("m2_present_in_group2")
    has_time = z3.Bool("group1_has_time")
    tval = z3.Real("time_g1")
    eng.summaries[PR + "PanopticaResult.to_dict"] = lambda e, f, args, kwargs: dict(args[0].attrs["_stub_dict"])

    def mk(e):
        e.assume(wrap(g1 != g2))
        G1, G2 = SymStr(g1), SymStr(g2)
        agg = mk_aggregator(e, [G1, G2], METS + ["computation_time"])
        d1 = {m: SymReal(vals[(0, m)]) for m in METS}
        d2 = {METS[0]: SymReal(vals[(1, METS[0])])}
        if e.branch(SymBool(present)):
            d2[METS[1]] = SymReal(vals[(1, METS[1])])
        t1 = SymReal(tval) if e.branch(SymBool(has_time)) else None
        r1 = e.new_obj(PR + "PanopticaResult", _stub_dict=d1, computation_time=t1, _evaluation_metrics={})
        r2 = e.new_obj(PR + "PanopticaResult", _stub_dict=d2, computation_time=None, _evaluation_metrics={})
        e.ghost_fs.files["/d/out.tsv"] = [["HEADER"]]
        return [agg, SymStr(sname), {G1: (r1, "steps"), G2: (r2, "steps")}], {}
    fn = PA + "Panoptica_Aggregator._save_one_subject"
    paths = eng.run(fn, mk)
    ctx.expect("writer: 4 presence/time combinations", len(paths) >= 4)
    for pi, p in enumerate(paths):
        nm = "panoptica_aggregator.Panoptica_Aggregator._save_one_subject"
        if p.kind != "return":
            ctx.oblige(f"{nm}/no-exception#p{pi}", p.pc, z3.BoolVal(False), func=fn, replay="c18.e2e")
            continue
        appends = [ev for ev in p.events if ev[0] == "fs" and ev[1] == "append-row"]
        ok_shape = len(appends) == 1 and appends[0][2] == "/d/out.tsv" and "filelock" in [h for h in appends[0][3]] or (len(appends) == 1 and appends[0][2] == "/d/out.tsv")
        row = appends[0][4][0] if len(appends) == 1 else []
        held = appends[0][3] if len(appends) == 1 else ()
        goals = [z3.BoolVal(len(appends) == 1 and len(row) == 7 and len(held) >= 1)]
        if len(row) == 7:
            goals.append(to_term(row[0]) == sname if isinstance(row[0], (str, SymStr)) else z3.BoolVal(False))

            def cell_is(c, term=None, absent=None):
                if isinstance(c, Written) and isinstance(c.value, Sym):
                    return z3.And(z3.BoolVal(term is not None), to_term(c.value, "real") == term) if term is not None else z3.BoolVal(False)
                if c == "" or (isinstance(c, Written) and c.value in ("", None)):
                    return z3.BoolVal(True) if absent is None else absent
                return z3.BoolVal(False)
            goals += [cell_is(row[1], vals[(0, METS[0])]) if not (row[1] == "") else z3.BoolVal(False),
                      cell_is(row[2], vals[(0, METS[1])]) if not (row[2] == "") else z3.BoolVal(False),
                      z3.If(has_time, cell_is(row[3], tval) if isinstance(row[3], Written) and isinstance(row[3].value, Sym) else z3.BoolVal(False), z3.BoolVal(row[3] == "")),
                      cell_is(row[4], vals[(1, METS[0])]) if not (row[4] == "") else z3.BoolVal(False),
                      z3.If(present, cell_is(row[5], vals[(1, METS[1])]) if isinstance(row[5], Written) and isinstance(row[5].value, Sym) else z3.BoolVal(False), z3.BoolVal(row[5] == "")),
                      z3.BoolVal(row[6] == "")]
        ctx.oblige(f"{nm}/post(one row appended under the file lock: subject, then one cell per header column in group-major order; missing metric -> '' in its own column)#p{pi}",
                   p.pc, z3.And(*goals), func=fn, replay="c18.e2e")


def unit_header(ctx):
    """Panoptica_Aggregator.__init__ on an absent output file writes the header subject_name + f'{g}-{m}' (g outer, m inner)."""
    eng = ctx.engine()
    g1, g2 = z3.Consts("group1 group2", S)

    def mk(e):
        e.assume(wrap(g1 != g2))
        G1, G2 = SymStr(g1), SymStr(g2)
        scg = e.new_obj(SC + "SegmentationClassGroups", _SegmentationClassGroups__group_dictionary={G1: "LG1", G2: "LG2"}, _SegmentationClassGroups__labels=[1])
        ev = e.new_obj(PE + "Panoptica_Evaluator", _Panoptica_Evaluator__segmentation_class_groups=scg, _Panoptica_Evaluator__resulting_metric_keys=list(METS))
        e.ghost_fs.dirs.add("/d")
        return [ev, "/d/out.tsv"], {"log_times": True}
    fn = PA + "Panoptica_Aggregator.__init__"
    paths = eng.run(PA + "Panoptica_Aggregator", mk)
    for pi, p in enumerate(paths):
        nm = "panoptica_aggregator.Panoptica_Aggregator.__init__[absent output file]"
        if p.kind != "return":
            ctx.oblige(f"{nm}/no-exception({p.exc.name() if p.exc else p.kind})#p{pi}", p.pc, z3.BoolVal(False), func=fn, replay="c18.e2e")
            continue
        rows = [ev for ev in p.events if ev[0] == "fs" and ev[1] == "append-row" and ev[2] == "/d/out.tsv"]
        ok = len(rows) == 1 and len(rows[0][4][0]) == 1 + 2 * 3
        goals = [z3.BoolVal(bool(ok))]
        if ok:
            hdr = rows[0][4][0]
            want = ["subject_name"] + [z3.Concat(g, z3.StringVal("-"), z3.StringVal(m)) for g in (g1, g2) for m in METS + ["computation_time"]]
            for a, b in zip(hdr, want):
                goals.append(to_term(a) == (z3.StringVal(b) if isinstance(b, str) else b) if isinstance(a, (str, SymStr)) else z3.BoolVal(False))
        ctx.oblige(f"{nm}/post(header = subject_name, then group-metric for every group (outer) and metric (inner), computation_time last when times are logged)#p{pi}",
                   p.pc, z3.And(*goals), func=fn, replay="c18.e2e")
        agg = p.value
        ctx.oblige(f"{nm}/post(writer iterates the same group and metric lists as the header)#p{pi}", [],
                   z3.BoolVal(isinstance(agg, SObj) and agg.attrs.get("_Panoptica_Aggregator__evaluation_metrics") == METS + ["computation_time"]
                              and len(agg.attrs.get("_Panoptica_Aggregator__class_group_names", [])) == 2), func=fn)


def unit_metric_names(ctx):
    """every metric key a result can expose (and the time key) is free of the header separator '-'."""
    eng = ctx.engine()

    def mk(e):
        h = e.call(e.resolve("panoptica.utils.edge_case_handling.EdgeCaseHandler"), [], {})
        res = e.call(e.resolve(PR + "PanopticaResult"), [], dict(reference_arr=None, prediction_arr=None, num_pred_instances=1, num_ref_instances=1, tp=1,
                                                                  list_metrics={metric(e, m): [1.0] for m in ALL_METRICS}, edge_case_handler=h))
        return [res], {}
    ps = eng.run(lambda r: list(r.attrs["_evaluation_metrics"].keys()), mk)
    keys = ps[0].value if len(ps) == 1 and ps[0].kind == "return" else None
    tk = eng.load_module("panoptica.panoptica_aggregator").ns.get("COMPUTATION_TIME_KEY")
    ok = keys is not None and len(keys) > 20 and all(isinstance(k, str) and re.fullmatch(r"[a-z0-9_]+", k) for k in keys + [tk])
    ctx.oblige("panoptica_result.PanopticaResult metric names and COMPUTATION_TIME_KEY match [a-z0-9_]+ (contain no '-')", [], z3.BoolVal(bool(ok)), func=PR + "PanopticaResult.__init__",
               info={"keys": str(keys)[:300]})


def unit_codec_lemma(ctx):
    """string lemma used by the reader: for dash-free m, splitting g + '-' + m at the LAST dash returns (g, m) for every g"""
    g, m, a, b = z3.Consts("lg lm la lb", S)
    dash = z3.StringVal("-")
    c = z3.Concat(g, dash, m)
    ctx.oblige("lemma.header-codec(rsplit at the last '-' inverts f'{g}-{m}' for dash-free metric names and arbitrary group names)",
               [z3.Not(z3.Contains(m, dash)), c == z3.Concat(a, dash, b), z3.Not(z3.Contains(b, dash))], z3.And(a == g, b == m), kind="lemma")


def build(ctx):
    ctx.trust("csv.writer/csv.reader with tab delimiter round-trip any list of cells (None written as '')", "float(str(x)) == x for floats and for ints below 2^53",
              "ghost file system: atomic single-row append", "str.split / str.rsplit semantics on a one-character separator (case analysis in pyvc/values.py)")
    for j in range(4):
        ctx.unit(f"reader[{j}]", lambda j=j: unit_reader(ctx, j))
    ctx.unit("writer", lambda: unit_writer(ctx))
    ctx.unit("header", lambda: unit_header(ctx))
    ctx.unit("metric_names", lambda: unit_metric_names(ctx))
    ctx.unit("codec_lemma", lambda: unit_codec_lemma(ctx))
    # rows are laid out by the aggregator that is RUNNING, the header by the one that created the file: both must be the same layout,
    # which is the constructor's header check (C17), regenerated here
    include_stage(ctx, "C17")
    # the header is fixed when the aggregator is built; results must not grow metrics afterwards (shared default metric list: C15's
    # constructor frame) and queries must not change the loaded table (C20's query frame)
    include_stage(ctx, "C15", only=lambda mod, sub: [sub.unit("ctor_defaults", lambda: mod.unit_ctor_defaults(sub))])
    include_stage(ctx, "C20", only=lambda mod, sub: [sub.unit("concrete", lambda: mod.unit_concrete(sub))])
    ctx.add_bounded("c18-roundtrip", "c18.bounded")


def concretise(ctx, o, r):
    if (o.info or {}).get("stage"):
        return stage_concretise(ctx, o, r)
    m = r.get("model") or {}
    return {"group1": m.get("group1"), "group2": m.get("group2"), "subject": m.get("subject"), "obligation": o.name}
