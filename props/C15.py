"""C15 - evaluation is pure: no input mutation, no history, option or worker dependence."""
from __future__ import annotations
import z3
from pyvc.values import *
from pyvc.objects import *
from pyvc.interp import PyRaise
from pyvc.npmodel import Space, VArr, base_array, Vox
from .common import *

LEVEL = "proof"
EXPLANATION = ("Frame conditions and option independence from the effect trace of symbolic executions of Panoptica_Evaluator.evaluate / "
               "_evaluate_group / resulting_metric_keys with all logging/timing options symbolic (per call and constructor): no write to a "
               "caller buffer or to any pre-existing object, every local bound on every path, identical arguments handed to the pipeline "
               "whatever the options; mutable default arguments unchanged; the metric-key list handed out is not internal state. "
               "Worker-process distribution is the trusted starmap contract plus a bounded comparison with the real Pool.")
PE = "panoptica.panoptica_evaluator."
PR = "panoptica.panoptica_result."
SC = "panoptica.utils.segmentation_class."
LG = "panoptica.utils.label_group."
EC = "panoptica.utils.edge_case_handling."


def _defaults_snapshot(eng):
    """repr of every mutable default argument of the loaded panoptica modules"""
    out = {}
    for mn, m in eng.modules.items():
        for k, v in m.ns.items():
            fs = []
            if isinstance(v, FuncInfo):
                fs = [v]
            elif isinstance(v, ClassInfo) and v.module is m:
                fs = [a for a in v.attrs.values() if isinstance(a, FuncInfo)]
            for f in fs:
                for i, d in enumerate(f.defaults):
                    if isinstance(d, (list, dict, set)):
                        out[f"{f.qualname}#default{i}"] = _stable_repr(d)
    return out


def _stable_repr(d):
    if isinstance(d, dict):
        return "{" + ",".join(f"{_stable_repr(k)}:{_stable_repr(v)}" for k, v in d.items()) + "}"
    if isinstance(d, (list, tuple, set)):
        return "[" + ",".join(_stable_repr(x) for x in d) + "]"
    if isinstance(d, SObj):
        return f"<{d.cls.name} " + _stable_repr({k: v for k, v in sorted(d.attrs.items())}) + ">"
    return repr(d)


def unit_evaluate_options(ctx, input_type, grouped):
    eng = ctx.engine(feas_timeout_ms=600)
    rec = {}
    flags = {n: z3.Bool(n) for n in ("c_save", "c_log", "c_verbose", "result_all", "p_save", "p_log", "p_verbose")}
    nones = {n: z3.Bool(n + "_is_none") for n in ("p_save", "p_log", "p_verbose")}

    def pe_summary(e, f, args, kwargs):
        kw = dict(kwargs)
        if args:
            kw["input_pair"] = args[0]
        ip = kw["input_pair"]
        res = e.new_obj(PR + "PanopticaResult", computation_time=None)
        rec.setdefault("calls", []).append({"kw": kw, "cls": ip.cls.name, "pred": ip.attrs["_prediction_arr"], "ref": ip.attrs["_reference_arr"], "res": res})
        return (res, "STEPS")
    eng.summaries[PE + "panoptic_evaluate"] = pe_summary
    if grouped:
        eng.summaries[SC + "SegmentationClassGroups.has_defined_labels_for"] = lambda e, f, args, kwargs: True  # proved in C12
    snap0 = {}

    def mk(e):
        rec.clear()
        sp = Space("S")
        P = base_array(e, "P", "uint8", sp)
        Rr = base_array(e, "R", "uint8", sp)
        IT = e.resolve(PP + "InputType").members[input_type]
        groups = None
        if grouped:
            g = e.call(e.resolve(LG + "LabelGroup"), [[1, 2, 3]], {})
            g2 = e.call(e.resolve(LG + "LabelGroup"), [[4]], {"single_instance": True})
            groups = e.call(e.resolve(SC + "SegmentationClassGroups"), [{"a": g, "b": g2}], {})
        handler = e.call(e.resolve(EC + "EdgeCaseHandler"), [], {})
        ev = e.call(e.resolve(PE + "Panoptica_Evaluator"), [], dict(
            expected_input=IT, instance_approximator="APPROX", instance_matcher="MATCHER", edge_case_handler=handler, segmentation_class_groups=groups,
            decision_metric=None, decision_threshold=None,
            save_group_times=SymBool(flags["c_save"]), log_times=SymBool(flags["c_log"]), verbose=SymBool(flags["c_verbose"])))
        if not snap0:
            snap0.update(_defaults_snapshot(e))
        kw = dict(result_all=SymBool(flags["result_all"]),
                  save_group_times=SymOpt(nones["p_save"], SymBool(flags["p_save"])),
                  log_times=SymOpt(nones["p_log"], SymBool(flags["p_log"])),
                  verbose=SymOpt(nones["p_verbose"], SymBool(flags["p_verbose"])))
        return [ev, P, Rr], kw, {"sp": sp, "P": P, "R": Rr, "oid_limit": SObj._ids[0], "ev0": len(e.events), "ev": ev}
    snaps = []

    def target(ev, P, Rr, **kw):
        out = eng.call(eng.getattr(ev, "evaluate"), [P, Rr], kw)
        snaps.append(list(rec.get("calls", [])))
        return out
    paths = eng.run(target, mk)
    tag = f"{input_type},{'groups' if grouped else 'no-groups'}"
    nm = f"panoptica_evaluator.Panoptica_Evaluator.evaluate[{tag}; all option combinations]"
    fn = PE + "Panoptica_Evaluator._evaluate_group"
    info = {"input_type": input_type, "grouped": grouped}
    ctx.expect(f"{nm}: option combinations fork into several paths", len(paths) >= 4)
    si = 0
    ref_sig = None
    for pi, p in enumerate(paths):
        if p.kind != "return":
            ctx.oblige(f"{nm}/completes-for-every-option-combination({p.exc.name() if p.exc else p.kind}: {str(p.exc.args)[:40] if p.exc else ''})#p{pi}",
                       p.pc, z3.BoolVal(False), func=fn, replay="c15.options", info=info)
            continue
        calls = snaps[si]
        si += 1
        sp, P, Rr = p.state["sp"], p.state["P"], p.state["R"]
        evs = p.events[p.state["ev0"]:]
        writes = [ev for ev in evs if ev[0] == "setattr" and ev[1] <= p.state["oid_limit"] and ev[3] != "_Panoptica_Evaluator__resulting_metric_keys"]
        arrw = [ev for ev in evs if ev[0] == "arr-write" and ev[2] == "caller"]
        ctx.oblige(f"{nm}/frame(no pre-existing object written, caller arrays untouched)#p{pi}", p.pc,
                   z3.And(z3.BoolVal(not writes and not arrw), P.term == P.base(sp.x), Rr.term == Rr.base(sp.x)), func=fn, replay="c15.options",
                   info=dict(info, writes=str(writes[:3])))
        # option independence: what reaches the pipeline is the same whatever the flags
        sig = [(c["cls"], c["pred"].term.sexpr(), c["ref"].term.sexpr(),
                tuple(sorted((k, _stable_repr(v) if not isinstance(v, SObj) else v.cls.name) for k, v in c["kw"].items() if k not in ("input_pair", "log_times", "verbose", "verbose_calc", "result_all"))))
               for c in calls]
        if ref_sig is None:
            ref_sig = sig
        ctx.oblige(f"{nm}/option-independence(pipeline receives identical arrays and configuration)#p{pi}", [], z3.BoolVal(sig == ref_sig), func=fn,
                   replay="c15.options", info=info)
        # the flags only reach print/timing/calculate_all switches, with the documented precedence
        ok_flags = True
        for c in calls:
            ra = c["kw"].get("result_all")
            ok_flags = ok_flags and isinstance(ra, (bool, SymBool))
        ctx.oblige(f"{nm}/result_all forwarded#p{pi}", p.pc,
                   z3.And(*[to_term(c["kw"].get("result_all")) == flags["result_all"] for c in calls]) if ok_flags and calls else z3.BoolVal(bool(ok_flags)), func=fn)
        # computation_time is only set when the effective per-call/constructor flag asks for it
        eff_save = z3.If(nones["p_save"], flags["c_save"], flags["p_save"])
        timed = [ev for ev in evs if ev[0] == "setattr" and ev[3] == "computation_time"]
        ctx.oblige(f"{nm}/computation_time set iff group times are requested#p{pi}", p.pc,
                   eff_save == z3.BoolVal(len(timed) > 0), func=fn, replay="c15.options", info=info)
        if pi == 0:
            ctx.canary(f"{nm}#p{pi}", p.pc, func=fn)
    after = _defaults_snapshot(eng)
    changed = [k for k in snap0 if after.get(k) != snap0[k]]
    ctx.oblige(f"{nm}/mutable default arguments unchanged by use", [], z3.BoolVal(not changed), func=PE + "Panoptica_Evaluator.evaluate", info={"changed": str(changed)})


def unit_metric_keys(ctx):
    """resulting_metric_keys: value independent of history, and not an alias of internal state."""
    eng = ctx.engine()

    def pe_summary(e, f, args, kwargs):
        h = kwargs.get("edge_case_handler")
        mets = kwargs.get("instance_metrics")
        res = e.call(e.resolve(PR + "PanopticaResult"), [], dict(reference_arr=None, prediction_arr=None, num_pred_instances=1, num_ref_instances=1, tp=1,
                                                                  list_metrics={m: [1.0] for m in mets}, edge_case_handler=h, global_metrics=[]))
        return (res, "STEPS")
    eng.summaries[PE + "panoptic_evaluate"] = pe_summary

    def mk(e):
        ev = e.call(e.resolve(PE + "Panoptica_Evaluator"), [], dict(instance_metrics=[metric(e, "DSC"), metric(e, "IOU")], global_metrics=[]))
        return [ev], {}, {"ev": ev}

    def target(ev):
        k1 = eng.getattr(ev, "resulting_metric_keys")
        first = list(k1)
        k1.append("computation_time")  # what a client (the aggregator) does with the list it was handed
        k2 = eng.getattr(ev, "resulting_metric_keys")
        return first, list(k2), k1 is k2
    for pi, p in enumerate(eng.run(target, mk)):
        nm = "panoptica_evaluator.Panoptica_Evaluator.resulting_metric_keys"
        if p.kind != "return":
            ctx.oblige(f"{nm}/no-exception#p{pi}", p.pc, z3.BoolVal(False), func=PE + "Panoptica_Evaluator.resulting_metric_keys")
            continue
        first, second, same = p.value
        ctx.oblige(f"{nm}/post(advertised keys do not change through use: the list handed out is not internal state)#p{pi}", [],
                   z3.BoolVal(first == second and not same), func=PE + "Panoptica_Evaluator.resulting_metric_keys", replay="c15.keys",
                   info={"witness_class": "aggregator appends computation_time to the evaluator's cached metric-key list"})
        ctx.oblige(f"{nm}/post(keys are the metric names of a result)#p{pi}", [], z3.BoolVal(len(first) >= 3 and all(isinstance(k, str) for k in first)),
                   func=PE + "Panoptica_Evaluator.resulting_metric_keys")


def unit_ctor_defaults(ctx):
    """constructing evaluators / handlers / matchers never modifies a shared mutable default argument"""
    eng = ctx.engine()
    for dm in [None] + ALL_METRICS:
        def mk(e, dm=dm):
            return [], {}

        def target(dm=dm):
            eng.load_module("panoptica")
            before = _defaults_snapshot(eng)
            kw = {} if dm is None else {"decision_metric": metric(eng, dm), "decision_threshold": 0.5}
            ev = eng.call(eng.resolve(PE + "Panoptica_Evaluator"), [], kw)
            eng.call(eng.resolve(EC + "EdgeCaseHandler"), [], {})
            eng.call(eng.resolve(IM + "NaiveThresholdMatching"), [], {})
            after = _defaults_snapshot(eng)
            return [k for k in before if after.get(k) != before[k]]
        ps = eng.run(target, mk)
        ok = all(p.kind == "return" and p.value == [] for p in ps)
        ctx.oblige(f"panoptica_evaluator.Panoptica_Evaluator.__init__[decision_metric={dm}]/frame(shared mutable default arguments unchanged)", [], z3.BoolVal(bool(ok)),
                   func=PE + "Panoptica_Evaluator.__init__", replay="c15.ctor", info={"changed": str([p.value for p in ps if p.kind == "return"])[:200], "decision_metric": dm})


def unit_decorators(ctx):
    """citation_reminder / measure_time return func(*args, **kwargs) unchanged."""
    eng = ctx.engine()
    eng.models["rich.console.Console!obj"] = lambda *a, **k: type("C", (), {"rule": lambda *a, **k: None, "print": lambda *a, **k: None, "line": lambda *a, **k: None})()
    for dotted in ("panoptica.utils.citation_reminder.citation_reminder", "panoptica.utils.timing.measure_time"):
        def mk(e):
            return [], {}
        seen = {}

        def target():
            dec = eng.resolve(dotted)

            def inner(*a, **k):
                seen["args"] = (a, k)
                return "INNER-RESULT"
            w = eng.call(dec, [inner], {})
            return eng.call(w, [1, "x"], {"k": 3})
        ps = eng.run(target, mk)
        ok = len(ps) >= 1 and all(p.kind == "return" and p.value == "INNER-RESULT" for p in ps) and seen.get("args") == ((1, "x"), {"k": 3})
        ctx.oblige(f"{dotted.split('panoptica.')[1]}/post(returns func(*args, **kwargs))", [], z3.BoolVal(bool(ok)), func=dotted)


def build(ctx):
    ctx.trust("multiprocessing.Pool.starmap = order-preserving serial map evaluated in forked workers (nothing a worker writes is visible to the caller)",
              "print(...) has no effect on any observed value",
              "panoptic_evaluate summarised here; its own option independence is a C01 obligation")
    for it in ("SEMANTIC", "UNMATCHED_INSTANCE", "MATCHED_INSTANCE"):
        for grouped in (False, True):
            ctx.unit(f"options[{it},{grouped}]", lambda it=it, grouped=grouped: unit_evaluate_options(ctx, it, grouped))
    ctx.unit("metric_keys", lambda: unit_metric_keys(ctx))
    ctx.unit("ctor_defaults", lambda: unit_ctor_defaults(ctx))
    ctx.unit("decorators", lambda: unit_decorators(ctx))
    # below the summarised pipeline: the evaluation stage must not write into the configuration it is handed (frame unit of C02)
    include_stage(ctx, "C02", only=lambda mod, sub: [sub.unit("evaluate_matched_instance[frame]", lambda: mod.unit_eval_frame(sub))])
    ctx.add_bounded("c15-history", "c15.bounded")


def concretise(ctx, o, r):
    if (o.info or {}).get("stage"):
        return stage_concretise(ctx, o, r)
    if o.replay == "c15.ctor":
        return {"decision_metric": o.info.get("decision_metric")}
    m = r.get("model") or {}
    b = lambda k: m.get(k, "False") == "True"
    opt = lambda k: None if b(k + "_is_none") else b(k)
    return {"input_type": o.info.get("input_type", "MATCHED_INSTANCE"), "grouped": bool(o.info.get("grouped")),
            "ctor": {"save_group_times": b("c_save"), "log_times": b("c_log"), "verbose": b("c_verbose")},
            "call": {"result_all": b("result_all"), "save_group_times": opt("p_save"), "log_times": opt("p_log"), "verbose": opt("p_verbose")}}
