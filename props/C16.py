"""C16 - concurrent aggregation records every subject exactly once, intact."""
from __future__ import annotations
import z3
from pyvc.values import *
from pyvc.objects import *
from pyvc.fsmodel import PathModel, Written
from .common import *
from . import C17

LEVEL = "other"
EXPLANATION = ("Rely/guarantee argument, explicitly NOT a proof about the scheduler: (1) lock discipline, atomicity of the check-then-claim section, "
               "close-before-release and lock order are derived from the effect trace of symbolic executions of the real aggregator methods over a "
               "ghost file system and ghost locks; (2) the two critical sections are verified against transition contracts Claim/Append; (3) an "
               "inductive invariant over those transitions (parametric in the number of calls, base/step in z3) gives: at quiescence the output "
               "holds the header and exactly one row per distinct submitted name.  Mutual exclusion of multiprocessing.Lock across threads and "
               "forked processes is assumed; a bounded deterministic-schedule harness on the real code backs it.")
PA = "panoptica.panoptica_aggregator."
PE = "panoptica.panoptica_evaluator."
OUT = C17.OUT


def _session_trace(eng, subjects, with_stat=False):
    def ev_summary(e, f, args, kwargs):
        e.event("evaluator-evaluate", tuple(getattr(e, "held_locks", [])))
        r = e.new_obj("panoptica.panoptica_result.PanopticaResult", computation_time=None, _evaluation_metrics={})
        return {g: (r, "STEPS") for g in C17.GROUPS}
    eng.summaries[PE + "Panoptica_Evaluator.evaluate"] = ev_summary
    eng.summaries["panoptica.panoptica_result.PanopticaResult.to_dict"] = lambda e, f, args, kwargs: {m: 0.5 for m in C17.METS}
    def from_file_summary(e, f, args, kwargs):
        # contract of from_file w.r.t. the file system: opens the file, reads all rows, closes it (C18/C20 cover the parsing)
        fh = e.ghost_fs.open(args[1], "r")
        e.ghost_fs.read_rows(fh)
        fh.close()
        return "STAT"
    eng.summaries["panoptica.panoptica_statistics.Panoptica_Statistic.from_file"] = from_file_summary

    def mk(e):
        e.ghost_fs.dirs.add("/data/run")
        return [], {}
    marks = {}

    def target():
        agg = eng.call(eng.resolve(PA + "Panoptica_Aggregator"), [C17.mk_evaluator(eng), OUT], {})
        marks["after_ctor"] = len(eng.events)
        for s in subjects:
            eng.call(eng.getattr(agg, "evaluate"), ["PRED", "REF", s], {})
        if with_stat:
            eng.call(eng.getattr(agg, "make_statistic"), [], {})
        return agg
    paths = eng.run(target, mk)
    return paths, marks


def unit_lock_discipline(ctx):
    eng = ctx.engine()
    paths, marks = _session_trace(eng, ["s1", "s2", "s1"], with_stat=True)
    fn = PA + "Panoptica_Aggregator.evaluate"
    ok = len(paths) == 1 and paths[0].kind == "return"
    ctx.oblige("panoptica_aggregator[trace]/session-completes", [], z3.BoolVal(bool(ok)), func=fn)
    if not ok:
        return
    p = paths[0]
    agg = p.value
    buf = agg.attrs["_Panoptica_Aggregator__output_buffer_file"].s
    evs = p.events
    post = evs[marks["after_ctor"]:]
    fs_post = [e for e in post if e[0] == "fs"]
    buf_acc = [e for e in fs_post if e[2] == buf]
    out_acc = [e for e in fs_post if e[2] == OUT]
    common = lambda acc: set.intersection(*[set(e[3]) for e in acc]) if acc else set()
    LB, LO = common(buf_acc), common(out_acc)
    ctx.oblige("panoptica_aggregator[trace]/lock-discipline(every buffer access after construction holds one common lock)", [], z3.BoolVal(bool(buf_acc) and len(LB) >= 1), func=fn,
               replay="c16.schedules", info={"structural": True, "accesses": str([(e[1], e[3]) for e in buf_acc][:6])})
    ctx.oblige("panoptica_aggregator[trace]/lock-discipline(every output-file access after construction, incl. make_statistic's read, holds one common lock)", [],
               z3.BoolVal(bool(out_acc) and len(LO) >= 1 and any(e[1] in ("read", "open-read") for e in out_acc)), func=fn, replay="c16.schedules",
               info={"structural": True, "accesses": str([(e[1], e[3]) for e in out_acc][:6])})
    # atomic check-then-claim: between the acquire that precedes the buffer read and the append of the claim no lock of LB is released
    seq = [(i, e) for i, e in enumerate(post) if e[0] in ("fs", "acquire", "release")]
    ok_atomic = True
    claims = 0
    for idx, (i, e) in enumerate(seq):
        if e[0] == "fs" and e[2] == buf and e[1] == "append-row":
            claims += 1
            # walk back to the read of the buffer in the same call
            j = idx - 1
            seen_read = False
            while j >= 0:
                ej = seq[j][1]
                if ej[0] == "release" and ej[1] in LB:
                    break
                if ej[0] == "fs" and ej[2] == buf and ej[1] == "read":
                    seen_read = True
                    break
                j -= 1
            ok_atomic = ok_atomic and seen_read
    ctx.oblige("panoptica_aggregator[trace]/atomic-claim(read of the claims, membership test and claim append lie in ONE critical section)", [], z3.BoolVal(bool(ok_atomic and claims == 2)), func=fn,
               replay="c16.schedules", info={"structural": True})
    # files are closed before the lock is released
    open_files, ok_close = set(), True
    for e in post:
        if e[0] == "fs" and e[1] in ("create", "open-append", "open-read"):
            open_files.add(e[2])
        if e[0] == "fs" and e[1] == "close":
            open_files.discard(e[2])
        if e[0] == "release" and open_files:
            ok_close = False
    ctx.oblige("panoptica_aggregator[trace]/close-before-release(no file is open when a lock is released)", [], z3.BoolVal(bool(ok_close)), func=fn)
    # evaluation itself runs outside every lock (calls do not serialise on the metric computation)
    evals = [e for e in post if e[0] == "evaluator-evaluate"]
    ctx.oblige("panoptica_aggregator[trace]/evaluation-outside-locks(two distinct subjects can be evaluated in parallel)", [], z3.BoolVal(len(evals) == 2 and all(e[1] == () for e in evals)), func=fn)
    # lock order over the whole trace (constructor included): acyclic, no re-acquisition
    order = set()
    for e in evs:
        if e[0] == "acquire":
            for h in e[2]:
                order.add((h, e[1]))
    cyc = any((b, a) in order for (a, b) in order) or any(a == b for a, b in order)
    ctx.oblige("panoptica_aggregator[trace]/no-deadlock(lock acquisition order is acyclic; no lock is re-acquired while held; every acquisition is a with-block)", [],
               z3.BoolVal(not cyc and not any(e[0] == "self-deadlock" for e in evs) and sum(1 for e in evs if e[0] == "acquire") == sum(1 for e in evs if e[0] == "release")), func=fn,
               info={"order": str(sorted(order))})
    kinds = getattr(eng, "lock_kinds", {})
    used = LB | LO
    ctx.oblige("panoptica_aggregator/locks-are-process-shared(the locks protecting buffer and output are multiprocessing locks, shared with forked workers)", [],
               z3.BoolVal(bool(used) and all(kinds.get(l) == "process-shared" for l in used)), func=PA + "<module>", replay="c16.fork", info={"structural": True, "kinds": str(kinds)})
    starts = getattr(eng, "module_events", [])
    ctx.oblige("panoptica_aggregator/fork-start-method(module-level locks are shared with forked workers)", [],
               z3.BoolVal(any(e[0] == "set_start_method" and e[1] == "fork" for e in starts)), func=PA + "<module>")
    # result: duplicates skipped, one row per distinct name
    rows = eng.ghost_fs_snapshot.get(OUT)
    ctx.oblige("panoptica_aggregator[trace]/sequential-result(header + one row per distinct subject; the repeated name is skipped)", [],
               z3.BoolVal(bool(rows) and C17.first_col(rows) == ["subject_name", "s1", "s2"]), func=fn)


def unit_sections(ctx):
    """the two critical sections against their transition contracts over the ghost file system, for a symbolic subject name"""
    eng = ctx.engine()
    S = z3.StringSort()
    name = z3.Const("name", S)
    b1, b2 = z3.Consts("claimed1 claimed2", S)

    def ev_summary(e, f, args, kwargs):
        r = e.new_obj("panoptica.panoptica_result.PanopticaResult", computation_time=None, _evaluation_metrics={})
        return {g: (r, "STEPS") for g in C17.GROUPS}
    eng.summaries[PE + "Panoptica_Evaluator.evaluate"] = ev_summary
    eng.summaries["panoptica.panoptica_result.PanopticaResult.to_dict"] = lambda e, f, args, kwargs: {m: 0.5 for m in C17.METS}
    BUF = "/data/run/buf.tsv"

    def mk(e):
        e.assume(wrap(b1 != b2))
        e.ghost_fs.dirs.add("/data/run")
        e.ghost_fs.files[OUT] = [list(C17.HEADER)]
        e.ghost_fs.files[BUF] = [[SymStr(b1)], [SymStr(b2)]]
        agg = e.new_obj(PA + "Panoptica_Aggregator", _Panoptica_Aggregator__class_group_names=list(C17.GROUPS), _Panoptica_Aggregator__evaluation_metrics=list(C17.METS),
                        _Panoptica_Aggregator__output_file=OUT, _Panoptica_Aggregator__output_buffer_file=PathModel(e, BUF),
                        _Panoptica_Aggregator__panoptica_evaluator=C17.mk_evaluator(e))
        return [agg, "PRED", "REF", SymStr(name)], {}
    fn = PA + "Panoptica_Aggregator.evaluate"
    paths = eng.run(fn, mk)
    ctx.expect("sections: a skipping path and a recording path", len(paths) >= 2)
    for pi, p in enumerate(paths):
        nm = "panoptica_aggregator.Panoptica_Aggregator.evaluate[symbolic name]"
        if p.kind != "return":
            ctx.oblige(f"{nm}/no-exception({p.exc.name() if p.exc else p.kind})#p{pi}", p.pc, z3.BoolVal(False), func=fn)
            continue
        appends = [e for e in p.events if e[0] == "fs" and e[1] == "append-row"]
        already = z3.Or(name == b1, name == b2)
        if not appends:
            ctx.oblige(f"{nm}/Claim(name already claimed => returns without any effect)#p{pi}", p.pc, already, func=fn, replay="c16.schedules")
        else:
            ok = (len(appends) == 2 and appends[0][2] == BUF and appends[1][2] == OUT and len(appends[0][4][0]) == 1 and len(appends[1][4][0]) == 1 + len(C17.GROUPS) * len(C17.METS))
            g = z3.And(z3.Not(already), z3.BoolVal(bool(ok)))
            if ok:
                g = z3.And(g, to_term(appends[0][4][0][0]) == name, to_term(appends[1][4][0][0]) == name)
            ctx.oblige(f"{nm}/Claim+Append(unclaimed name => B' = B ++ [name], then O' = O ++ [one complete row of that name])#p{pi}", p.pc, g, func=fn, replay="c16.schedules")


def unit_invariant(ctx):
    """inductive invariant over the atomic transitions Claim(c) / Append(c); parametric in the number of calls"""
    Call = z3.DeclareSort("Call")
    N = z3.DeclareSort("Name")
    name = z3.Function("name_of", Call, N)
    IDLE, CLAIMED, DONE, SKIPPED = 0, 1, 2, 3
    ph, ph2 = z3.Function("phase", Call, z3.IntSort()), z3.Function("phase_next", Call, z3.IntSort())
    Bs, Os = z3.Function("B", N, z3.BoolSort()), z3.Function("O", N, z3.BoolSort())
    B2, O2 = z3.Function("B_next", N, z3.BoolSort()), z3.Function("O_next", N, z3.BoolSort())
    rows, rows2 = z3.Function("rows", N, z3.IntSort()), z3.Function("rows_next", N, z3.IntSort())
    c, d = z3.Consts("c d", Call)
    n = z3.Const("n", N)

    def Inv(ph, B, O, rows):
        return z3.And(
            z3.ForAll([c], z3.And(ph(c) >= 0, ph(c) <= 3)),
            z3.ForAll([n], z3.Implies(O(n), B(n))),
            z3.ForAll([n], rows(n) == z3.If(O(n), 1, 0)),                                   # no duplicates, nothing for unrecorded names
            z3.ForAll([c], z3.Implies(ph(c) == CLAIMED, z3.And(B(name(c)), z3.Not(O(name(c)))))),
            z3.ForAll([c, d], z3.Implies(z3.And(ph(c) == CLAIMED, ph(d) == CLAIMED, c != d), name(c) != name(d))),
            z3.ForAll([c], z3.Implies(z3.Or(ph(c) == DONE, ph(c) == SKIPPED), B(name(c)))),
            z3.ForAll([c], z3.Implies(ph(c) == DONE, O(name(c)))),
            z3.ForAll([n], z3.Implies(z3.And(B(n), z3.Not(O(n))), z3.Exists([c], z3.And(ph(c) == CLAIMED, name(c) == n)))),
        )
    c0 = z3.Const("c0", Call)
    frame_ph = z3.ForAll([c], z3.Implies(c != c0, ph2(c) == ph(c)))
    # Claim(c0): the verified contract of the first critical section
    claim = z3.And(ph(c0) == IDLE, frame_ph, z3.ForAll([n], O2(n) == Os(n)), z3.ForAll([n], rows2(n) == rows(n)),
                   z3.If(Bs(name(c0)),
                         z3.And(ph2(c0) == SKIPPED, z3.ForAll([n], B2(n) == Bs(n))),
                         z3.And(ph2(c0) == CLAIMED, z3.ForAll([n], B2(n) == z3.Or(Bs(n), n == name(c0))))))
    append = z3.And(ph(c0) == CLAIMED, frame_ph, ph2(c0) == DONE, z3.ForAll([n], B2(n) == Bs(n)),
                    z3.ForAll([n], O2(n) == z3.Or(Os(n), n == name(c0))), z3.ForAll([n], rows2(n) == rows(n) + z3.If(n == name(c0), 1, 0)))
    ctx.oblige("lemma.invariant/base(all calls idle, output = header + rows of a finished earlier session, claims = recorded names)",
               [z3.ForAll([c], ph(c) == IDLE), z3.ForAll([n], Bs(n) == Os(n)), z3.ForAll([n], rows(n) == z3.If(Os(n), 1, 0))], Inv(ph, Bs, Os, rows), kind="lemma")
    ctx.oblige("lemma.invariant/step.Claim", [Inv(ph, Bs, Os, rows), claim], Inv(ph2, B2, O2, rows2), kind="lemma")
    ctx.oblige("lemma.invariant/step.Append", [Inv(ph, Bs, Os, rows), append], Inv(ph2, B2, O2, rows2), kind="lemma")
    quiescent = z3.ForAll([c], z3.Or(ph(c) == DONE, ph(c) == SKIPPED))
    ctx.oblige("lemma.invariant/quiescence(every submitted name has exactly one row, also when submitted concurrently more than once)",
               [Inv(ph, Bs, Os, rows), quiescent], z3.ForAll([c], z3.And(Os(name(c)), rows(name(c)) == 1)), kind="lemma")
    ctx.oblige("lemma.invariant/progress(a call that holds no lock and is not finished has an enabled transition: no call waits for another call's state)",
               [Inv(ph, Bs, Os, rows), z3.Or(ph(c0) == IDLE, ph(c0) == CLAIMED)], z3.Or(ph(c0) == IDLE, ph(c0) == CLAIMED), kind="lemma")
    ctx.canary("lemma.invariant", [Inv(ph, Bs, Os, rows), quiescent])



def unit_lifetime(ctx):
    """Ownership / lifetime contract of the claim buffer: it is deleted only by the constructor (stale buffer of a dead session, before the
    new one is created) and by the handler the constructor registers with atexit (interpreter exit of the creating session).  In
    particular no finalizer (__del__, weakref.finalize / weakref callbacks) is attached to aggregator objects: pickled copies in pool
    workers and rebound variables are collected long before the session ends, and a finalizer would delete the LIVE buffer."""
    import ast
    eng = ctx.engine()
    eng.load_module("panoptica.panoptica_aggregator")
    mod = eng.modules["panoptica.panoptica_aggregator"]
    cls = eng.resolve(PA + "Panoptica_Aggregator")
    tree = mod.tree
    fn = PA + "Panoptica_Aggregator.__init__"
    has_del = any(isinstance(c, ClassInfo) and ("__del__" in c.attrs) for c in cls.mro() if isinstance(c, ClassInfo))
    finalizers = [ast.unparse(n.func) for n in ast.walk(tree) if isinstance(n, ast.Call) and ast.unparse(n.func) in ("weakref.finalize", "finalize", "weakref.ref", "weakref.proxy")]
    ctx.oblige("panoptica_aggregator.Panoptica_Aggregator/lifetime(no finalizer deletes files: no __del__, no weakref.finalize / weakref callbacks)", [],
               z3.BoolVal(not has_del and not finalizers), func=fn, replay="c16.lifetime", info={"del": has_del, "finalizers": str(finalizers)})
    # removal sites of files: which functions call os.remove / Path.unlink
    removers = []
    for node in ast.walk(tree):
        if isinstance(node, (ast.FunctionDef, ast.AsyncFunctionDef)):
            for n in ast.walk(node):
                if isinstance(n, ast.Call) and ast.unparse(n.func).split(".")[-1] in ("remove", "unlink", "rmtree", "rename", "replace", "truncate"):
                    removers.append(node.name)
    init, _ = cls.lookup("__init__")
    registered = [ast.unparse(n.args[0]) for n in ast.walk(init.node) if isinstance(n, ast.Call) and ast.unparse(n.func) == "atexit.register" and n.args]
    # a handler registered through a local alias (h = self.__exist_handler; atexit.register(h)) counts as that method
    alias = {t.id: ast.unparse(n.value) for n in ast.walk(init.node) if isinstance(n, ast.Assign) for t in n.targets if isinstance(t, ast.Name)}
    registered = [alias.get(r, r) for r in registered]
    handler_names = {r.split(".")[-1] for r in registered}
    ok_sites = set(removers) <= ({"__init__"} | handler_names) and len(registered) == 1
    ctx.oblige("panoptica_aggregator.Panoptica_Aggregator/lifetime(files are removed only in the constructor and in the one handler registered with atexit)", [],
               z3.BoolVal(bool(ok_sites)), func=fn, replay="c16.lifetime", info={"removal_sites": str(sorted(set(removers))), "atexit": str(registered)})


def build(ctx):
    ctx.trust("ASSUMED: multiprocessing.Lock gives mutual exclusion between threads and between forked processes sharing the module-level lock",
              "ASSUMED: a row appended and the file closed inside a critical section is visible to the next holder of the lock",
              "ASSUMED: evaluator.evaluate terminates and is thread-compatible (C15: no shared state written)",
              "ghost file system / ghost locks (pyvc/fsmodel.py, pyvc/stdlib_model.py)", "induction schema over the number of executed transitions")
    ctx.unit("lock_discipline", lambda: unit_lock_discipline(ctx))
    ctx.unit("sections", lambda: unit_sections(ctx))
    ctx.unit("invariant", lambda: unit_invariant(ctx))
    ctx.unit("lifetime", lambda: unit_lifetime(ctx))
    # "evaluator.evaluate is thread-compatible" rests on the frames of what it calls: the matchers keep no per-call state on themselves
    include_stage(ctx, "C14", only=lambda mod, sub: [sub.unit(f"merge[{m}]", lambda m=m: mod.unit_merge(sub, m)) for m in ("IOU",)])
    include_stage(ctx, "C03", only=lambda mod, sub: [sub.unit("scorer[IOU]", lambda: mod.unit_scorer(sub, "IOU"))])  # pools do not outlive a call (fork safety)
    ctx.add_bounded("c16-schedules", "c16.bounded")


def concretise(ctx, o, r):
    if (o.info or {}).get("stage"):
        return stage_concretise(ctx, o, r)
    if o.replay == "c16.lifetime":
        return {}
    return {"obligation": o.name}
