"""C13 - global binary metrics depend only on the two foregrounds."""
from __future__ import annotations
import z3
from pyvc.values import *
from pyvc.objects import *
from pyvc.npmodel import Space, VArr, base_array, card
from .common import *
from . import C08
from .C06 import set_goal

LEVEL = "proof"
EXPLANATION = ("PanopticaResult's constructor and _calc_global_bin_metric are executed symbolically on symbolic label arrays (any integer dtype) "
               "with the edge-case configuration as symbolic enum values; the reported global_bin_<m> is proved to be the metric of the two "
               "foregrounds (set formulas for Dice/IoU/RVD; exact argument identity for ASSD/clDice) or the handler value of the statement's scenario.")
PR = "panoptica.panoptica_result."
MD = "panoptica.metrics."


def unit_global(ctx, mname, dtype):
    eng = ctx.engine()
    cfg = C08.mk_cfg()
    std = z3.Int("cfg_std")
    calls = []

    def opaque_metric(tag):
        def s(e, f, args, kwargs):
            kw = dict(kwargs)
            names = ["ref_labels", "pred_labels", "ref_instance_idx", "pred_instance_idx"]
            for n_, a_ in zip(names, args):
                kw[n_] = a_
            calls.append((tag, kw))
            return e.fresh_real(tag, np=True)
        return s
    eng.summaries[MD + "assd._compute_instance_average_symmetric_surface_distance"] = opaque_metric("ASSD")
    eng.summaries[MD + "cldice._compute_centerline_dice"] = opaque_metric("clDSC")

    def mk(e):
        del calls[:]
        sp = Space("S", ndim=3)
        Rr = base_array(e, "R", dtype, sp)
        P = base_array(e, "P", dtype, sp)
        h = C08.mk_handler(e, [mname], {mname: cfg}, std)
        res = e.call(e.resolve(PR + "PanopticaResult"), [], dict(
            reference_arr=Rr, prediction_arr=P, num_pred_instances=SymInt(z3.Int("npred")), num_ref_instances=SymInt(z3.Int("nref")),
            tp=SymInt(z3.Int("tp")), list_metrics={}, edge_case_handler=h, global_metrics=[metric(e, mname)]))
        return [res], {}, {"sp": sp, "R": Rr, "P": P, "R0": Rr.term, "P0": P.term}

    def target(res):
        others = {}
        for o in ALL_METRICS:
            if o != mname:
                try:
                    others[o] = eng.getattr(res, f"global_bin_{o.lower()}")
                except PyRaise as ex:
                    others[o] = ("raise", ex.exc.name())
        return eng.getattr(res, f"global_bin_{mname.lower()}"), others
    from pyvc.interp import PyRaise
    paths = eng.run(target, mk)
    fn = PR + "PanopticaResult._calc_global_bin_metric"
    nm = f"panoptica_result.global_bin_{mname.lower()}[{dtype}]"
    info = {"metric": mname, "dtype": dtype, "prefer": [["(<= size_S 6)"]]}
    ctx.expect(f"{nm}: >= 4 paths (normal + three empty scenarios)", len(paths) >= 4)
    for pi, q in enumerate(paths):
        sp, Rr, P = q.state["sp"], q.state["R"], q.state["P"]
        FR, FP = Rr.base(sp.x) != 0, P.base(sp.x) != 0
        cR, cP = card(FR, sp), card(FP, sp)
        if q.kind != "return":
            ctx.oblige(f"{nm}/no-exception({q.exc.name()})#p{pi}", q.pc, z3.BoolVal(False), func=fn, replay="c13.global", info=info)
            continue
        val, others = q.value
        ok_others = all(isinstance(v, tuple) and v[0] == "raise" and v[1] == "MetricCouldNotBeComputedException" for v in others.values())
        ctx.oblige(f"{nm}/not-requested-metrics-are-not-set#p{pi}", [], z3.BoolVal(ok_others), func=fn)
        frame = z3.And(Rr.term == q.state["R0"], P.term == q.state["P0"],
                       z3.BoolVal(not any(ev[0] == "arr-write" and ev[2] == "caller" for ev in q.events)))
        ctx.oblige(f"{nm}/frame(caller arrays not written)#p{pi}", q.pc, frame, func=fn)
        iv = C08.idx_of_value(val) if not isinstance(val, Sym) else None
        empty_goal = lambda: z3.Or(z3.And(cP == 0, cR > 0, cfg["EMPTY_PRED"] == iv), z3.And(cR == 0, cP > 0, cfg["EMPTY_REF"] == iv),
                                   z3.And(cR == 0, cP == 0, cfg["NO_INSTANCES"] == iv)) if iv is not None else z3.BoolVal(False)
        if isinstance(val, Sym):
            if mname in ("DSC", "IOU", "RVD"):
                g = z3.And(cR > 0, cP > 0, set_goal(mname, val, FR, FP, sp))
            else:
                # ASSD / clDice: exactly one call, on exactly the two binarised arrays, without label selection
                ok = len(calls) >= 1 and calls[-1][0] == mname
                if ok:
                    kw = calls[-1][1]
                    ra, pa = kw.get("ref_labels"), kw.get("pred_labels")
                    ok = isinstance(ra, VArr) and isinstance(pa, VArr) and kw.get("ref_instance_idx") is None and kw.get("pred_instance_idx") is None
                if ok:
                    g = z3.And(cR > 0, cP > 0, (ra.term != 0) == FR, (pa.term != 0) == FP,
                               z3.Or(ra.term == 0, ra.term == 1), z3.Or(pa.term == 0, pa.term == 1))
                else:
                    g = z3.BoolVal(False)
            ctx.oblige(f"{nm}/post(metric of the two foregrounds)#p{pi}", q.pc, g, func=fn, replay="c13.global", info=info)
            if not getattr(ctx, "_c13_canary_" + mname + dtype, False):
                setattr(ctx, "_c13_canary_" + mname + dtype, True)
                ctx.canary(f"{nm}/normal#p{pi}", q.pc, func=fn)
        else:
            ctx.oblige(f"{nm}/post(empty side: handler value of the statement's scenario)#p{pi}", q.pc, empty_goal(), func=fn, replay="c13.global", info=info)


def build(ctx):
    ctx.trust("numpy element-wise ops / masked assignment / sum (voxel-set theory)", "Venn-region reduction of cardinalities",
              "ASSD and clDice bodies are covered by C07 / C06; here only their arguments are checked")
    for m in ALL_METRICS:
        for dt in (("uint8", "uint32", "int64") if m in ("DSC",) else ("uint8",)):
            ctx.unit(f"global[{m},{dt}]", lambda m=m, dt=dt: unit_global(ctx, m, dt))
    # the arrays handed to PanopticaResult are the matched pair's: relabelling must keep both foregrounds (C04), regenerated here
    include_stage(ctx, "C04")
    # which empty-side scenario value is used: the handler classes, and the early exit that hands the two arrays over (C08), regenerated here
    include_stage(ctx, "C08")
    ctx.add_bounded("c13-enum", "c13.bounded")


def concretise(ctx, o, r):
    if (o.info or {}).get("stage"):
        return stage_concretise(ctx, o, r)
    ev = r.get("evals") or {}
    m = r.get("model") or {}
    regs = o.info.get("venn_regions") or []
    vox = []
    for rn, wn in regs:
        try:
            n = max(0, min(model_int(ev.get(rn, "0")), 4))
        except Exception:
            n = 0
        for _ in range(n):
            vox.append({"R": ev.get(f"R@{wn}"), "P": ev.get(f"P@{wn}")})
    gi = lambda k: max(0, min(4, model_int(m.get(k, "0"))))
    return {"metric": o.info["metric"], "dtype": o.info["dtype"], "voxels": vox[:30],
            "cfg": {s: gi(f"cfg_{s}") for s in C08.SCENARIOS}, "std": gi("cfg_std")}
