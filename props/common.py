"""Shared helpers and shared callee contracts (summaries) for the property
modules."""
from __future__ import annotations
import z3
from pyvc.values import *
from pyvc.objects import *
from pyvc.interp import LoopSpec, PyRaise

I = z3.IntSort()
R = z3.RealSort()
B = z3.BoolSort()

MATCH_METRICS = ["IOU", "DSC", "ASSD"]
ALL_METRICS = ["DSC", "IOU", "ASSD", "clDSC", "RVD"]
# preferred direction per the property statements / metrics.md (spec side)
SPEC_DECREASING = {"IOU": False, "DSC": False, "ASSD": True, "clDSC": False, "RVD": True}

FN = "panoptica._functionals."
IM = "panoptica.instance_matcher."
MM = "panoptica.metrics.metrics."
PP = "panoptica.utils.processing_pair."
LM = "panoptica.utils.instancelabelmap.InstanceLabelMap"


def metric(eng, name):
    return eng.resolve(MM + "Metric").members[name]


def spec_beats(name, s, t):
    """Statement: meets the threshold in the metric's preferred direction,
    equality matches."""
    return (s <= t) if SPEC_DECREASING[name] else (s >= t)


def spec_better_eq(name, a, b):
    """a is at least as good as b."""
    return (a <= b) if SPEC_DECREASING[name] else (a >= b)


def spec_strictly_better(name, a, b):
    return (a < b) if SPEC_DECREASING[name] else (a > b)


class MMPairs:
    """Contract of _calc_matching_metric_of_overlapping_labels as seen by its
    callers: a sequence (score_i, (ref_i, pred_i)), i<n, of the candidate
    pairs, each exactly once, labels positive python ints, ordered best
    first.  (Proved against the body in C03/U5.)"""

    def __init__(self, metric_name, tag=""):
        self.n = z3.Int("n" + tag)
        self.score = z3.Function("score" + tag, I, R)
        self.ref = z3.Function("ref" + tag, I, I)
        self.pred = z3.Function("pred" + tag, I, I)
        self.metric_name = metric_name

    def facts(self):
        i, j = z3.Ints("ci cj")
        n, score, ref, pred = self.n, self.score, self.ref, self.pred
        inr = lambda x: z3.And(0 <= x, x < n)
        return [
            n >= 0,
            z3.ForAll([i], z3.Implies(inr(i), z3.And(ref(i) > 0, pred(i) > 0))),
            z3.ForAll([i, j], z3.Implies(z3.And(inr(i), inr(j), i != j), z3.Or(ref(i) != ref(j), pred(i) != pred(j)))),
            z3.ForAll([i, j], z3.Implies(z3.And(inr(i), inr(j), i < j), spec_better_eq(self.metric_name, score(i), score(j)))),
        ]

    def seq(self):
        return SymSeq(SymInt(self.n), lambda t: (SymReal(self.score(t), np=True), (wrap(self.ref(t)), wrap(self.pred(t)))), name="mm_pairs")

    def summary(self):
        def s(eng, f, args, kwargs):
            for fct in self.facts():
                eng.assume(fct, why="contract:_calc_matching_metric_of_overlapping_labels")
            eng.event("call", "_calc_matching_metric_of_overlapping_labels")
            return self.seq()
        return s


def labelmap_of(scope_or_obj):
    o = scope_or_obj
    return o.attrs["labelmap"]


def find_local(scope, pred):
    for k, v in scope.vars.items():
        if pred(v):
            return k, v
    return None, None


def local_labelmap(scope):
    """The local bound to an InstanceLabelMap (role-based lookup, robust to
    renaming)."""
    k, v = find_local(scope, lambda v: isinstance(v, SObj) and v.cls.name == "InstanceLabelMap")
    if v is None:
        raise Unsupported("no local holding an InstanceLabelMap")
    return v


def fresh_symmap(eng, name, vsort=None):
    return SymMap(eng.fresh(name + "_dom", z3.ArraySort(I, B)), eng.fresh(name + "_val", z3.ArraySort(I, vsort or I)), name=name)


def model_int(s):
    s = str(s).replace(" ", "")
    if s.startswith("(-"):
        s = "-" + s[2:-1]
    return int(s)


def model_real(s):
    from fractions import Fraction
    s = str(s).strip().rstrip("?")
    neg = False
    if s.startswith("(- "):
        neg = True
        s = s[3:-1]
    if s.startswith("-"):
        neg = not neg
        s = s[1:]
    if "/" in s:
        a, b = s.split("/")
        v = Fraction(int(a), int(b))
    else:
        v = Fraction(s)
    return -v if neg else v



class SubCtx:
    """view of the C01 context that prefixes the unit / obligation names of a stage module and drops its bounded stand-ins
    (they belong to the stage property's own check)"""

    def __init__(self, ctx, mod):
        self._ctx = ctx._ctx if isinstance(ctx, SubCtx) else ctx  # always the context of the property being checked
        self._mod = mod

    def __getattr__(self, k):
        return getattr(self._ctx, k)

    def unit(self, name, fn):
        seen = self._ctx.__dict__.setdefault("_stage_units", set())
        if (self._mod, name) in seen or self._mod == self._ctx.prop:
            return None  # already included through another stage (inclusion is transitive, every unit once)
        seen.add((self._mod, name))
        return self._ctx.unit(f"stage {self._mod}: {name}", fn)

    def oblige(self, name, hyps, goal, func=None, kind="post", replay=None, info=None, expect="valid"):
        info = dict(info or {})
        info.setdefault("stage", self._mod)
        return self._ctx.oblige(f"stage-{self._mod}:{name}", hyps, goal, func=func, kind=kind, replay=replay, info=info, expect=expect)

    def canary(self, *a, **k):
        from pyvc.framework import Ctx
        return Ctx.canary(self, *a, **k)

    def side_obligations(self, *a, **k):
        from pyvc.framework import Ctx
        return Ctx.side_obligations(self, *a, **k)

    def expect(self, desc, ok):
        return self._ctx.expect(f"stage {self._mod}: {desc}", ok)

    def add_bounded(self, *a, **k):
        return None


def stage_concretise(ctx, o, r):
    """counter-model concretiser of the stage module an included obligation came from"""
    import importlib, copy
    fn = getattr(importlib.import_module(f"props.{o.info['stage']}"), "concretise", None)
    if fn is None:
        return None
    o2 = copy.copy(o)
    o2.info = {k: v for k, v in o.info.items() if k != "stage"}  # the stage module sees its own obligation (no re-dispatch)
    return fn(ctx, o2, r)


def include_stage(ctx, mod_name, only=None):
    """regenerate the proof units of another property's module inside this check (obligation names are prefixed with the stage)"""
    import importlib
    root = ctx._ctx if isinstance(ctx, SubCtx) else ctx
    if mod_name == root.prop:
        return
    mod = importlib.import_module(f"props.{mod_name}")
    sub = SubCtx(ctx, mod_name)
    if only is None:
        mod.build(sub)
    else:
        only(mod, sub)
