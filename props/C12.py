"""C12 - class groups are evaluated independently and completely."""
from __future__ import annotations
import z3
from pyvc.values import *
from pyvc.objects import *
from pyvc.interp import LoopSpec
from pyvc.npmodel import Space, VArr, VSel, base_array, card, Vox
from .common import *

LEVEL = "proof"
EXPLANATION = ("Relational obligation by equal arguments: Panoptica_Evaluator.evaluate/_evaluate_group are executed symbolically (symbolic arrays, "
               "symbolic label sets per group) with panoptic_evaluate summarised; the arguments it receives for group g are proved equal to those "
               "of an ungrouped evaluation of (g(pred), g(ref)); label extraction/binarisation and the undefined-label check are proved against "
               "their per-voxel specs (loop invariant over np.unique).")
PE = "panoptica.panoptica_evaluator."
LG = "panoptica.utils.label_group."
SC = "panoptica.utils.segmentation_class."
S1 = z3.Function("S_plain", I, B)
S2 = z3.Function("S_merge", I, B)
s3 = z3.Int("s_single")
S_OTHER = z3.Function("S_other", I, B)


def mk_groups(e):
    """three groups of each kind with symbolic label sets (positive labels)."""
    t = z3.Int("gt")
    e.assume(z3.ForAll([t], z3.And(z3.Implies(S1(t), t > 0), z3.Implies(S2(t), t > 0))), why="LabelGroup labels are > 0 (constructor assertion)")
    e.assume(wrap(s3 > 0))
    g1 = e.new_obj(LG + "LabelGroup", _LabelGroup__value_labels=SymSet(lambda x: S1(x), name="labels_plain"), _LabelGroup__single_instance=False)
    g2 = e.new_obj(LG + "LabelMergeGroup", _LabelGroup__value_labels=SymSet(lambda x: S2(x), name="labels_merge"), _LabelGroup__single_instance=False)
    g3 = e.new_obj(LG + "LabelGroup", _LabelGroup__value_labels=[SymInt(s3)], _LabelGroup__single_instance=True)
    return {"single": g3, "plain": g1, "merge": g2}


def member_of(kind):
    return {"plain": (lambda x: S1(x)), "merge": (lambda x: S2(x)), "single": (lambda x: x == s3)}[kind]


def spec_restrict(kind, a):
    """statement: array restricted to the group's labels (binarised first for a merge group)."""
    m = member_of(kind)(a)
    if kind == "merge":
        return z3.If(m, z3.IntVal(1), z3.IntVal(0))
    return z3.If(m, a, z3.IntVal(0))


def unit_extract(ctx):
    eng = ctx.engine()
    for kind in ("plain", "merge", "single"):
        def mk(e, kind=kind):
            sp = Space("S")
            A = base_array(e, "A", "uint16", sp)
            g = mk_groups(e)[kind]
            return [g, A], {}, {"sp": sp, "A": A, "A0": A.term}
        for pi, p in enumerate(eng.run(lambda g, A: eng.call(g, [A], {}), mk)):
            nm = f"label_group.{'LabelMergeGroup' if kind == 'merge' else 'LabelGroup'}.__call__[{kind}]"
            if p.kind != "return" or not isinstance(p.value, VArr):
                ctx.oblige(f"{nm}/returns-array#p{pi}", p.pc, z3.BoolVal(False), func=LG + "LabelGroup.extract_label")
                continue
            sp, A = p.state["sp"], p.state["A"]
            ctx.oblige(f"{nm}/post(labels of the group kept, everything else 0{'; binarised' if kind == 'merge' else ''})#p{pi}", p.pc,
                       p.value.term == spec_restrict(kind, A.base(sp.x)), func=LG + "LabelGroup.extract_label", replay="c12.extract", info={"kind": kind})
            ctx.oblige(f"{nm}/frame(fresh array, caller's array untouched)#p{pi}", p.pc,
                       z3.And(z3.BoolVal(p.value.buf != A.buf and not any(ev[0] == "arr-write" and ev[2] == "caller" for ev in p.events)), A.term == p.state["A0"]),
                       func=LG + "LabelGroup.extract_label")
    def mk_any(e):
        sp = Space("S")
        A = base_array(e, "A", "uint8", sp)
        return [e.call(e.resolve(LG + "_LabelGroupAny"), [], {}), A], {}, {"sp": sp, "A": A}
    for pi, p in enumerate(eng.run(lambda g, A: eng.call(g, [A], {}), mk_any)):
        ok = p.kind == "return" and isinstance(p.value, VArr) and p.value.buf != p.state["A"].buf
        ctx.oblige(f"label_group._LabelGroupAny.__call__/post(fresh identical copy)#p{pi}", p.pc,
                   z3.And(z3.BoolVal(bool(ok)), p.value.term == p.state["A"].term) if ok else z3.BoolVal(False), func=LG + "_LabelGroupAny.__call__")


def unit_defined_labels(ctx, dtype="uint16"):
    """has_defined_labels_for(arr, raise_error=True) raises AssertionError iff some non-zero value of arr is in no group
    (for signed maps a negative value is a non-zero value that belongs to no group: group labels are positive)."""
    eng = ctx.engine(feas_timeout_ms=1000)
    QN = SC + "SegmentationClassGroups.has_defined_labels_for"
    defined = lambda x: z3.Or(S1(x), S2(x), x == s3)
    st = {}

    def havoc(e, scope, it):
        pass

    def inv(e, scope, k, it):
        j = z3.Int("dj")
        el = lambda q: to_term(it.elem(q))
        return [("checked-so-far-are-defined", z3.ForAll([j], z3.Implies(z3.And(0 <= j, j < k), defined(el(j)))))]
    eng.loop_specs[(QN, 0)] = LoopSpec(inv, havoc)

    def mk(e):
        sp = Space("S")
        A = base_array(e, "A", dtype, sp)
        groups = mk_groups(e)
        scg = e.new_obj(SC + "SegmentationClassGroups", _SegmentationClassGroups__group_dictionary=groups,
                        _SegmentationClassGroups__labels=SymSet(lambda x: defined(x), name="all_labels"))
        return [scg, A], {"raise_error": True}, {"sp": sp, "A": A}
    paths = eng.run(QN, mk)
    nm = f"segmentation_class.SegmentationClassGroups.has_defined_labels_for[{dtype}]"
    ctx.side_obligations(paths, nm, func=QN)
    ctx.expect(f"{nm}: a raising body path and a normal exit exist", any(p.kind == "raise" for p in paths) and any(p.kind == "return" for p in paths))
    v0 = z3.Const("v_any", Vox)
    for pi, p in enumerate(paths):
        sp, A = p.state["sp"], p.state["A"]
        a0 = A.base(v0)
        if p.kind == "raise":
            w = z3.Const("v_w", Vox)
            ctx.oblige(f"{nm}/raises-only-for-an-undefined-non-zero-label({p.exc.name()})#p{pi}", p.pc,
                       z3.And(z3.BoolVal(p.exc.name() == "AssertionError"), z3.Exists([w], z3.And(A.base(w) != 0, z3.Not(defined(A.base(w)))))), func=QN, replay="c12.undefined")
        elif p.kind == "return":
            ctx.oblige(f"{nm}/returns-True-only-if-every-non-zero-label-is-defined#p{pi}", p.pc,
                       z3.And(z3.BoolVal(p.value is True), z3.Implies(a0 != 0, defined(a0))), func=QN, replay="c12.undefined")
            ctx.canary(f"{nm}#p{pi}", p.pc, func=QN)


def unit_evaluate_args(ctx, input_type, grouped):
    """same run as unit_evaluate, but one path at a time so that the recorded panoptic_evaluate arguments belong to the path."""
    eng = ctx.engine(feas_timeout_ms=800)
    rec = {}

    def pe_summary(e, f, args, kwargs):
        kw = dict(kwargs)
        if args:
            kw["input_pair"] = args[0]
        ip = kw["input_pair"]
        rec.setdefault("calls", []).append({"kw": kw, "cls": ip.cls.name, "pred": ip.attrs["_prediction_arr"], "ref": ip.attrs["_reference_arr"],
                                            "n_pred": ip.attrs.get("n_prediction_instance"), "n_ref": ip.attrs.get("n_reference_instance")})
        return ("RESULT%d" % len(rec["calls"]), "STEPS%d" % len(rec["calls"]))
    eng.summaries[PE + "panoptic_evaluate"] = pe_summary

    def hdl(e, f, args, kwargs):
        rec.setdefault("checks", []).append((args[1], kwargs.get("raise_error", args[2] if len(args) > 2 else False), len(rec.get("calls", []))))
        return True
    if grouped:
        eng.summaries[SC + "SegmentationClassGroups.has_defined_labels_for"] = hdl
    cfg = {}

    def mk(e):
        rec.clear()
        sp = Space("S")
        P = base_array(e, "P", "uint16", sp)
        Rr = base_array(e, "R", "uint16", sp)
        IT = e.resolve(PP + "InputType").members[input_type]
        groups = None
        if grouped:
            gd = mk_groups(e)
            groups = e.new_obj(SC + "SegmentationClassGroups", _SegmentationClassGroups__group_dictionary=gd,
                               _SegmentationClassGroups__labels=SymSet(lambda x: z3.Or(S1(x), S2(x), x == s3), name="all_labels"))
        cfg.clear()
        cfg.update(approx="APPROX", matcher="MATCHER", handler=e.call(e.resolve("panoptica.utils.edge_case_handling.EdgeCaseHandler"), [], {}),
                   metrics=[metric(e, "DSC"), metric(e, "IOU")], gmetrics=[metric(e, "DSC")], dthr=SymReal(z3.Real("dthr")), dmetric=metric(e, "IOU"))
        ev = e.call(e.resolve(PE + "Panoptica_Evaluator"), [], dict(
            expected_input=IT, instance_approximator=cfg["approx"], instance_matcher=cfg["matcher"], edge_case_handler=cfg["handler"],
            segmentation_class_groups=groups, instance_metrics=cfg["metrics"], global_metrics=cfg["gmetrics"],
            decision_metric=cfg["dmetric"], decision_threshold=cfg["dthr"]))
        return [ev, P, Rr], {"verbose": False}, {"sp": sp, "P": P, "R": Rr, "rec": rec, "cfg": cfg, "oid_limit": SObj._ids[0], "ev0": len(e.events)}
    tag = f"{input_type},{'groups' if grouped else 'no-groups'}"
    nm = f"panoptica_evaluator.Panoptica_Evaluator.evaluate[{tag}]"
    fn = PE + "Panoptica_Evaluator._evaluate_group"
    want_cls = {"SEMANTIC": "SemanticPair", "UNMATCHED_INSTANCE": "UnmatchedInstancePair", "MATCHED_INSTANCE": "MatchedInstancePair"}[input_type]
    # engine.run re-executes make_args for every path and the summaries fill `rec` during that path; collect per path
    results = []
    orig_run = eng.run

    class Collector:
        pass
    paths = []
    work = [[]]
    # drive the engine path by path through its public run(): rec is cleared in mk and snapshotted right after each path
    snapshots = []
    _call = eng.call

    def target(ev, P, Rr, **kw):
        out = eng.call(eng.getattr(ev, "evaluate"), [P, Rr], kw)
        snapshots.append({"calls": list(rec.get("calls", [])), "checks": list(rec.get("checks", [])), "cfg": dict(cfg)})
        return out
    paths = eng.run(lambda ev, P, Rr, **kw: target(ev, P, Rr, **kw), mk)
    info = {"input_type": input_type, "grouped": grouped}
    si = 0
    for pi, p in enumerate(paths):
        if p.kind != "return":
            ctx.oblige(f"{nm}/no-exception({p.exc.name() if p.exc else p.kind})#p{pi}", p.pc, z3.BoolVal(False), func=fn, replay="c12.e2e", info=info)
            continue
        snap = snapshots[si]
        si += 1
        sp, P, Rr = p.state["sp"], p.state["P"], p.state["R"]
        kinds = ["single", "plain", "merge"] if grouped else ["ungrouped"]
        res = p.value
        ok_keys = isinstance(res, dict) and list(res.keys()) == kinds and len(snap["calls"]) == len(kinds)
        ok_vals = ok_keys and all(res[k] == ("RESULT%d" % (i + 1), "STEPS%d" % (i + 1)) for i, k in enumerate(kinds))
        ctx.oblige(f"{nm}/post(one entry per group, in order, holding that group's result)#p{pi}", [], z3.BoolVal(bool(ok_keys and ok_vals)), func=fn, replay="c12.e2e", info=info)
        if not ok_keys:
            continue
        ctx.canary(f"{nm}#p{pi}", p.pc, func=fn)
        c = snap["cfg"]
        if grouped:
            chk = snap["checks"]
            ok_chk = (len(chk) == 2 and chk[0][1] is True and chk[1][1] is True and all(x[2] == 0 for x in chk))
            terms = [x[0].term for x in chk] if len(chk) == 2 and all(isinstance(x[0], VArr) for x in chk) else None
            g = z3.And(z3.BoolVal(bool(ok_chk and terms is not None)),
                       z3.Or(z3.And(terms[0] == P.base(sp.x), terms[1] == Rr.base(sp.x)), z3.And(terms[1] == P.base(sp.x), terms[0] == Rr.base(sp.x)))) if terms else z3.BoolVal(False)
            ctx.oblige(f"{nm}/post(undefined-label check on BOTH arrays, raising, before any group is evaluated)#p{pi}", p.pc, g, func=PE + "Panoptica_Evaluator.evaluate", replay="c12.e2e", info=info)
        for gi, kind in enumerate(kinds):
            call = snap["calls"][gi]
            kw = call["kw"]
            single = kind == "single" and input_type != "MATCHED_INSTANCE"
            cls_want = "MatchedInstancePair" if single else want_cls
            spec_p = spec_restrict(kind, P.base(sp.x)) if grouped else P.base(sp.x)
            spec_r = spec_restrict(kind, Rr.base(sp.x)) if grouped else Rr.base(sp.x)
            static_ok = (call["cls"] == cls_want and kw.get("edge_case_handler") is c["handler"] and kw.get("instance_approximator") == "APPROX"
                         and kw.get("instance_matcher") == "MATCHER" and kw.get("instance_metrics") is c["metrics"] and kw.get("global_metrics") is c["gmetrics"]
                         and kw.get("decision_metric") is c["dmetric"] and kw.get("result_all") is True
                         and call["pred"].buf not in (P.buf, Rr.buf) and call["ref"].buf not in (P.buf, Rr.buf))
            thr = kw.get("decision_threshold")
            thr_ok = (to_term(thr, "real") == 0) if single else (to_term(thr, "real") == z3.Real("dthr")) if isinstance(thr, (Sym, int, float)) else z3.BoolVal(False)
            g = z3.And(z3.BoolVal(bool(static_ok)), call["pred"].term == spec_p, call["ref"].term == spec_r, thr_ok)
            ctx.oblige(f"{nm}/post[{kind}](panoptic_evaluate receives the pair restricted to the group and the evaluator's own configuration"
                       f"{'; single instance => already-matched pair, threshold 0' if single else ''})#p{pi}", p.pc, g, func=fn, replay="c12.e2e", info=info)
        frame = z3.And(P.term == P.base(sp.x), Rr.term == Rr.base(sp.x), z3.BoolVal(not any(ev[0] == "arr-write" and ev[2] == "caller" for ev in p.events)))
        ctx.oblige(f"{nm}/frame(caller arrays not written)#p{pi}", p.pc, frame, func=fn)
        writes = [ev for ev in p.events[p.state["ev0"]:] if ev[0] == "setattr" and ev[1] <= p.state["oid_limit"] and ev[3] != "_Panoptica_Evaluator__resulting_metric_keys"]
        ctx.oblige(f"{nm}/frame(no attribute of the evaluator or its components is written: one group cannot influence another or a later call)#p{pi}", [],
                   z3.BoolVal(not writes), func=fn, replay="c12.e2e", info=dict(info, writes=str(writes[:3])))


def unit_ctor(ctx):
    """SegmentationClassGroups / LabelGroup constructors on concrete definitions: labels = union, names lower-cased, bad definitions rejected."""
    eng = ctx.engine()

    def mk(e):
        LGc = e.resolve(LG + "LabelGroup")
        LMG = e.resolve(LG + "LabelMergeGroup")
        d = {"Vertebrae": e.call(LGc, [[1, 2, 3]], {}), "IVD": e.call(LMG, [[10, 11]], {}), "sacrum": ([26], True)}
        return [d], {}
    paths = eng.run(SC + "SegmentationClassGroups", mk)
    ok = len(paths) == 1 and paths[0].kind == "return"
    if ok:
        o = paths[0].value
        gd = o.attrs["_SegmentationClassGroups__group_dictionary"]
        ok = list(gd.keys()) == ["vertebrae", "ivd", "sacrum"] and sorted(o.attrs["_SegmentationClassGroups__labels"]) == [1, 2, 3, 10, 11, 26]
        ok = ok and gd["sacrum"].attrs["_LabelGroup__single_instance"] is True and gd["ivd"].cls.name == "LabelMergeGroup"
    ctx.oblige("segmentation_class.SegmentationClassGroups.__init__/post(labels = union of group labels; names lower-cased; tuple -> LabelGroup)", [], z3.BoolVal(bool(ok)), func=SC + "SegmentationClassGroups.__init__")
    # what a group was constructed with is what its accessors report (the evaluator reads label_group.single_instance / value_labels)
    for cls_name, labels in (("LabelGroup", [7]), ("LabelMergeGroup", [7]), ("LabelGroup", [1, 2]), ("LabelMergeGroup", [1, 2])):
        for flag in (False, True):
            if flag and len(labels) > 1:
                continue
            def mk3(e, cls_name=cls_name, labels=labels, flag=flag):
                return [], {}

            def t3(cls_name=cls_name, labels=labels, flag=flag):
                g = eng.call(eng.resolve(LG + cls_name), [list(labels)], {"single_instance": flag})
                return eng.getattr(g, "single_instance"), list(eng.getattr(g, "value_labels"))
            ps = eng.run(t3, mk3)
            ok3 = len(ps) == 1 and ps[0].kind == "return" and ps[0].value[0] is flag and sorted(ps[0].value[1]) == sorted(labels)
            ctx.oblige(f"label_group.{cls_name}.__init__[labels={labels}, single_instance={flag}]/post(the accessors report the constructor arguments)", [], z3.BoolVal(bool(ok3)),
                       func=LG + cls_name + ".__init__", replay="c12.ctor", info={"structural": True})
    for bad, why in (([], "empty"), ([0, 1], "non-positive"), ([1, 2], "single-instance with two labels")):
        def mk2(e, bad=bad, why=why):
            return [bad], {"single_instance": why.startswith("single")}
        ps = eng.run(LG + "LabelGroup", mk2)
        ctx.oblige(f"label_group.LabelGroup.__init__/rejects({why})", [], z3.BoolVal(len(ps) == 1 and ps[0].kind == "raise" and ps[0].exc.name() == "AssertionError"), func=LG + "LabelGroup.__init__")


def build(ctx):
    ctx.trust("np.isin / masked assignment / np.unique (voxel-set theory)", "panoptic_evaluate is summarised here (its pipeline is C01); purity of panoptic_evaluate is C15")
    ctx.unit("extract", lambda: unit_extract(ctx))
    ctx.unit("defined_labels", lambda: unit_defined_labels(ctx))
    ctx.unit("defined_labels[int16]", lambda: unit_defined_labels(ctx, "int16"))
    ctx.unit("ctor", lambda: unit_ctor(ctx))
    for it in ("SEMANTIC", "UNMATCHED_INSTANCE", "MATCHED_INSTANCE"):
        for grouped in (True, False):
            ctx.unit(f"evaluate[{it},{grouped}]", lambda it=it, grouped=grouped: unit_evaluate_args(ctx, it, grouped))
    ctx.add_bounded("c12-enum", "c12.bounded")


def concretise(ctx, o, r):
    if o.replay == "c12.ctor":
        return {}
    return {"obligation": o.name, "info": {k: v for k, v in o.info.items() if k in ("kind", "input_type", "grouped")}}
