"""C05 - instance approximation yields exactly the connected components."""
from __future__ import annotations
import z3
from pyvc.values import *
from pyvc.objects import *
from pyvc.npmodel import Space, VArr, base_array, card, Vox, dtype_range, DType, UINT_BITS
from .common import *

LEVEL = "proof"
EXPLANATION = ("The panoptica glue around the connected-components backends is executed symbolically (symbolic semantic maps of signed and "
               "unsigned dtypes, each backend choice, 1-3 dimensions): backend selection and default, the array handed to the backend is the "
               "semantic map itself, one call per side, counts = the backend's N, no wrap in the final cast, foreground unchanged, negative "
               "input rejected.  The backends themselves (cc3d full connectivity per label, scipy face connectivity) are ASSUMED contracts, "
               "conformance-tested bounded against a flood-fill specification.")
IA = "panoptica.instance_approximator."


def mk_semantic_pair(e, dtype, ndim):
    """a SemanticPair as its constructor leaves it (constructor contract: label tuples are the unique non-zero values;
    proved for the instanced pairs in C04); only emptiness and extrema of the label tuples are used by the approximator."""
    sp = Space("S", ndim=ndim)
    P = base_array(e, "P", dtype, sp)
    Rr = base_array(e, "R", dtype, sp)
    e.assume(wrap(sp.size > 0))
    lp, lr = z3.Int("n_pred_labels"), z3.Int("n_ref_labels")
    up, ur = z3.Function("pred_label", I, I), z3.Function("ref_label", I, I)
    wp, wr = z3.Function("pred_label_wit", I, Vox), z3.Function("ref_label_wit", I, Vox)
    i = z3.Int("li")
    v = z3.Const("lv", Vox)
    for (n, u, w, A) in ((lp, up, wp, P), (lr, ur, wr, Rr)):
        e.assume(z3.And(n >= 0, (n == 0) == (card(A.base(sp.x) != 0, sp) == 0),
                        z3.ForAll([i], z3.Implies(z3.And(0 <= i, i < n), z3.And(A.base(w(i)) == u(i), u(i) != 0)), patterns=[u(i)])),
                 why="SemanticPair constructor: label tuple = unique non-zero values")
    pair = e.new_obj(PP + "SemanticPair", _prediction_arr=P, _reference_arr=Rr, n_dim=ndim, dtype=None,
                     _pred_labels=SymSeq(SymInt(lp), lambda q: SymInt(up(q), True, dtype), name="pred_labels"),
                     _ref_labels=SymSeq(SymInt(lr), lambda q: SymInt(ur(q), True, dtype), name="ref_labels"),
                     crop=None, is_cropped=False, uncropped_shape=sp.shape)
    return sp, P, Rr, pair


def unit_approx(ctx, dtype, ndim, backend):
    """approximate_instances (the public entry): rejects negative labels, otherwise re-types both maps to the smallest
    fitting unsigned dtype without changing any value and hands the very same pair to _approximate_instances."""
    eng = ctx.engine(feas_timeout_ms=300)
    seen = {}

    def inner(e, f, args, kwargs):
        seen["pair"] = args[1]
        seen["pred"], seen["ref"] = args[1].attrs["_prediction_arr"], args[1].attrs["_reference_arr"]
        return "INSTANCE_PAIR"
    eng.summaries[IA + "ConnectedComponentsInstanceApproximator._approximate_instances"] = inner
    from pyvc.npmodel import VSel

    def mk(e):
        seen.clear()
        sp = Space("S", ndim=ndim)
        P = base_array(e, "P", dtype, sp)
        Rr = base_array(e, "R", dtype, sp)
        e.assume(wrap(sp.size > 0))
        pair = e.new_obj(PP + "SemanticPair", _prediction_arr=P, _reference_arr=Rr, n_dim=ndim, dtype=None,
                         _pred_labels=e.np.unique(VSel(P, P.term != 0)), _ref_labels=e.np.unique(VSel(Rr, Rr.term != 0)),
                         crop=None, is_cropped=False, uncropped_shape=sp.shape)
        CB = e.resolve("panoptica.utils.constants.CCABackend")
        ap = e.call(e.resolve(IA + "ConnectedComponentsInstanceApproximator"), [], {"cca_backend": None if backend is None else CB.members[backend]})
        return [ap, pair], {}, {"sp": sp, "P": P, "R": Rr, "pair": pair}
    fn = IA + "InstanceApproximator.approximate_instances"
    snaps = []

    def target(ap, pair):
        out = eng.call(eng.getattr(ap, "approximate_instances"), [pair], {})
        snaps.append(dict(seen))
        return out
    paths = eng.run(target, mk)
    tag = f"{dtype},{ndim}d"
    nm = f"instance_approximator.approximate_instances[{tag}]"
    signed = dtype.startswith("int")
    info = {"dtype": dtype, "ndim": ndim, "backend": backend}
    ctx.expect(f"{nm}: a returning path", any(p.kind == "return" for p in paths))
    v = z3.Const("v_neg", Vox)
    si = 0
    for pi, p in enumerate(paths):
        sp, P, Rr = p.state["sp"], p.state["P"], p.state["R"]
        if p.kind == "raise":
            ctx.oblige(f"{nm}/raises-only-for-negative-labels({p.exc.name()})#p{pi}", p.pc,
                       z3.And(z3.BoolVal(p.exc.name() == "AssertionError" and signed), z3.Exists([v], z3.Or(P.base(v) < 0, Rr.base(v) < 0))), func=fn, replay="c05.e2e", info=info)
            continue
        s_ = snaps[si]
        si += 1
        ok = p.value == "INSTANCE_PAIR" and s_.get("pair") is p.state["pair"]
        ctx.oblige(f"{nm}/post(delegates the same pair to _approximate_instances)#p{pi}", [], z3.BoolVal(bool(ok)), func=fn)
        if not ok:
            continue
        np_, nr_ = s_["pred"], s_["ref"]
        ctx.oblige(f"{nm}/post(no negative label on a returning path)#p{pi}", p.pc, z3.And(P.base(v) >= 0, Rr.base(v) >= 0), func=fn, replay="c05.e2e", info=info)
        ctx.oblige(f"{nm}/post(both maps re-typed to one unsigned dtype, every value unchanged; caller arrays not written)#p{pi}", p.pc,
                   z3.And(z3.BoolVal(np_.dtype_name in UINT_BITS and np_.dtype_name == nr_.dtype_name and not any(ev[0] == "arr-write" and ev[2] == "caller" for ev in p.events)),
                          np_.term == P.base(sp.x), nr_.term == Rr.base(sp.x)), func=fn, replay="c05.e2e", info=info)
        if si == 1:
            ctx.canary(f"{nm}#p{pi}", p.pc, func=fn)


def unit_glue(ctx, dtype, ndim, backend):
    """_approximate_instances: what is handed to the backend and what is taken from it."""
    eng = ctx.engine(feas_timeout_ms=300)
    rec = {}

    def cc_summary(e, f, args, kwargs):
        arr, be = args[0], args[1]
        k = len(rec.setdefault("calls", [])) + 1
        cc = z3.Function(f"ccs!{k}", Vox, I)
        N = z3.Int(f"ccsN!{k}")
        v = z3.Const(f"ccsv!{k}", Vox)
        e.assume(z3.And(N >= 1, z3.ForAll([v], z3.And((cc(v) != 0) == (arr.at(v) != 0), cc(v) >= 0, cc(v) <= N))), why="contract of _connected_components")
        out = VArr(cc(arr.space.x), "uint32", arr.space)
        rec["calls"].append({"arr": arr, "term": arr.term, "backend": be, "out": out, "N": N})
        return out, SymInt(N)
    eng.summaries[FN + "_connected_components"] = cc_summary

    def mk(e):
        rec.clear()
        sp, P, Rr, pair = mk_semantic_pair(e, dtype, ndim)
        CB = e.resolve("panoptica.utils.constants.CCABackend")
        be = None if backend is None else CB.members[backend]
        ap = e.call(e.resolve(IA + "ConnectedComponentsInstanceApproximator"), [], {"cca_backend": be})
        return [ap, pair], {}, {"sp": sp, "P": P, "R": Rr, "rec": rec, "oid_limit": SObj._ids[0], "ev0": len(e.events)}
    fn = IA + "ConnectedComponentsInstanceApproximator._approximate_instances"
    snaps = []

    def target(ap, pair):
        out = eng.call(eng.getattr(ap, "_approximate_instances"), [pair], {})
        snaps.append(list(rec.get("calls", [])))
        return out
    paths = eng.run(target, mk)
    tag = f"{dtype},{ndim}d,{backend or 'default'}"
    nm = f"instance_approximator._approximate_instances[{tag}]"
    want_backend = backend or ("cc3d" if ndim >= 3 else "scipy")
    si = 0
    ctx.expect(f"{nm}: four emptiness combinations", len([p for p in paths if p.kind == "return"]) >= 4)
    for pi, p in enumerate(paths):
        if p.kind != "return":
            ctx.oblige(f"{nm}/no-exception({p.exc.name() if p.exc else p.kind})#p{pi}", p.pc, z3.BoolVal(False), func=fn)
            continue
        calls = snaps[si]
        si += 1
        sp, P, Rr = p.state["sp"], p.state["P"], p.state["R"]
        pv, rv = P.base(sp.x), Rr.base(sp.x)
        out = p.value
        oP, oR = out.attrs["_prediction_arr"], out.attrs["_reference_arr"]
        nP, nR = out.attrs["n_prediction_instance"], out.attrs["n_reference_instance"]
        cP, cR = card(pv != 0, sp), card(rv != 0, sp)
        by_side = {"pred": [c for c in calls if c["arr"].buf == P.buf or z3.simplify(c["term"] == pv).__eq__(True) is True or c["term"].eq(pv)],
                   "ref": [c for c in calls if c["term"].eq(rv)]}
        by_side["pred"] = [c for c in calls if c["term"].eq(pv)]
        others = [c for c in calls if not c["term"].eq(pv) and not c["term"].eq(rv)]
        writes = [ev for ev in p.events[p.state["ev0"]:] if ev[0] == "setattr" and ev[1] <= p.state["oid_limit"]]
        ctx.oblige(f"{nm}/frame(the approximator and the input pair are not modified: no state carried to the next call)#p{pi}", [], z3.BoolVal(not writes), func=fn,
                   replay="c05.history", info={"writes": str(writes[:3])})
        ctx.oblige(f"{nm}/post(the backend receives the semantic maps themselves - not binarised, not mixed)#p{pi}", [], z3.BoolVal(not others and len(by_side["pred"]) <= 1 and len(by_side["ref"]) <= 1),
                   func=fn, replay="c05.e2e", info={"dtype": dtype, "ndim": ndim, "backend": backend})
        ctx.oblige(f"{nm}/post(backend choice: {want_backend}; default by dimensionality)#p{pi}", [],
                   z3.BoolVal(all(isinstance(c["backend"], EnumMember) and c["backend"]._name == want_backend for c in calls)), func=fn, replay="c05.e2e",
                   info={"dtype": dtype, "ndim": ndim, "backend": backend})
        for side, arr_v, cnt, o_arr, n_out in (("prediction", pv, cP, oP, nP), ("reference", rv, cR, oR, nR)):
            cs = by_side["pred" if side == "prediction" else "ref"]
            if cs:
                c = cs[0]
                g = z3.And(cnt > 0, to_term(n_out) == c["N"], o_arr.term == c["out"].term)
            else:
                g = z3.And(cnt == 0, to_term(n_out) == 0, o_arr.term == arr_v)
            ctx.oblige(f"{nm}/post({side}: empty => count 0 and unchanged; else its own backend call, count = N, labels kept without wrap)#p{pi}", p.pc, g, func=fn,
                       replay="c05.e2e", info={"dtype": dtype, "ndim": ndim, "backend": backend})
            if cs and o_arr.dtype_name in UINT_BITS and UINT_BITS[o_arr.dtype_name] < 32:  # the backend output is uint32
                # machine-integer lemma (quantifier-free part of the path condition suffices): the result dtype holds every label 1..N of this side
                ctx.oblige(f"{nm}/lemma({side}: the chosen result dtype {o_arr.dtype_name} holds the {side} label of every voxel)#p{pi}", p.pc,
                           cs[0]["out"].term <= 2 ** UINT_BITS[o_arr.dtype_name] - 1, func=fn, kind="lemma", replay="c05.many", info={"dtype": dtype, "ndim": ndim, "backend": backend})


def unit_cc_dispatch(ctx):
    """_connected_components dispatches on the backend enum and returns (labelled array, N)."""
    eng = ctx.engine()
    for be in ("cc3d", "scipy"):
        def mk(e, be=be):
            e.__dict__["cc_calls"] = []
            sp = Space("S", ndim=3)
            A = base_array(e, "A", "uint8", sp)
            return [A, e.resolve("panoptica.utils.constants.CCABackend").members[be]], {}, {"A": A}
        paths = eng.run(FN + "_connected_components", mk)
        ok = len(paths) == 1 and paths[0].kind == "return" and [ev[1] for ev in paths[0].events if ev[0] == "cc-call"] == [be]
        if ok:
            rec = eng.cc_calls[-1]
            ok = rec["input_term"].eq(paths[0].state["A"].term) and isinstance(paths[0].value, tuple) and paths[0].value[0] is rec["out"]
        ctx.oblige(f"_functionals._connected_components[{be}]/post(calls the {be} backend on the given array and returns its labelling and count)", [], z3.BoolVal(bool(ok)), func=FN + "_connected_components")

    def mk2(e):
        sp = Space("S", ndim=3)
        return [base_array(e, "A", "uint8", sp), "neither"], {}
    ps = eng.run(FN + "_connected_components", mk2)
    ctx.oblige("_functionals._connected_components/rejects-unknown-backend", [], z3.BoolVal(len(ps) == 1 and ps[0].kind == "raise" and ps[0].exc.name() == "NotImplementedError"), func=FN + "_connected_components")


def build(ctx):
    ctx.trust("ASSUMED (decisive): cc3d.connected_components(a, return_N=True) = labelling 1..N of the maximal sets of equal-valued non-zero voxels connected under the full (3^d-1) neighbourhood",
              "ASSUMED (decisive): scipy.ndimage.label(a) = labelling 1..N of the maximal sets of non-zero voxels connected under the face neighbourhood",
              "both conformance-tested BOUNDED against a flood-fill specification (replay/c05.py)")
    for dt, nd, be in (("uint8", 1, None), ("uint8", 2, None), ("uint8", 3, None), ("uint8", 3, "scipy"), ("uint16", 2, "cc3d"), ("uint32", 1, "cc3d")):
        ctx.unit(f"glue[{dt},{nd},{be}]", lambda dt=dt, nd=nd, be=be: unit_glue(ctx, dt, nd, be))
    for dt, nd, be in (("int16", 2, None), ("uint16", 3, None), ("int64", 1, None)):
        ctx.unit(f"approx[{dt},{nd},{be}]", lambda dt=dt, nd=nd, be=be: unit_approx(ctx, dt, nd, be))
    ctx.unit("cc_dispatch", lambda: unit_cc_dispatch(ctx))
    ctx.add_bounded("c05-backends", "c05.bounded")


def concretise(ctx, o, r):
    return {"dtype": o.info.get("dtype"), "ndim": o.info.get("ndim"), "backend": o.info.get("backend")}
