"""C02 - result bookkeeping: tp/fp/fn, per-TP lists and sq/rq/pq are mutually
consistent."""
from __future__ import annotations
import z3
from pyvc.values import *
from pyvc.objects import *
from pyvc.interp import LoopSpec, PyRaise
from pyvc.npmodel import AGG, seq_array
from .common import *

LEVEL = "proof"
EXPLANATION = ("The real calculators are run through PanopticaResult's lazy attribute protocol on symbolic counts and symbolic "
               "per-instance lists; evaluate_matched_instance is proved by loop invariant for symbolic instance lists, thresholds and "
               "each decision metric; range/ordering claims are lemmas (NRA + induction base/step) over the proved contracts.")
PR = "panoptica.panoptica_result."
IE = "panoptica.instance_evaluator."
EC = "panoptica.utils.edge_case_handling."
SQ_ATTR = {"IOU": "sq", "DSC": "sq_dsc", "ASSD": "sq_assd", "RVD": "sq_rvd", "clDSC": "sq_cldsc"}
PQ_ATTR = {"IOU": "pq", "DSC": "pq_dsc", "clDSC": "pq_cldsc"}


def unit_calculators(ctx):
    eng = ctx.engine()
    tp, npred, nref = z3.Ints("tp npred nref")
    vals_arr = {m: z3.Const(f"vals_{m}", z3.ArraySort(I, R)) for m in ALL_METRICS}
    vals = {m: (lambda i, m=m: z3.Select(vals_arr[m], i)) for m in ALL_METRICS}

    def mk(e):
        e.assume(wrap(z3.And(tp >= 0, tp <= npred, tp <= nref)))
        lists = {metric(e, m): SymSeq(SymInt(tp), (lambda i, m=m: SymReal(vals[m](i), np=True)), name=f"list_{m}") for m in ALL_METRICS}
        h = e.call(e.resolve(EC + "EdgeCaseHandler"), [], {})
        res = e.call(e.resolve(PR + "PanopticaResult"), [], dict(
            reference_arr=None, prediction_arr=None, num_pred_instances=SymInt(npred), num_ref_instances=SymInt(nref),
            tp=SymInt(tp), list_metrics=lists, edge_case_handler=h))
        return [res], {}, {"lists": lists}
    names = ["tp", "fp", "fn", "prec", "rec", "rq", "num_pred_instances", "num_ref_instances"]
    for m in ALL_METRICS:
        names += [SQ_ATTR[m], SQ_ATTR[m] + "_std"]
    names += list(PQ_ATTR.values())

    def target(res):
        out = {}
        for n in names:
            try:
                out[n] = eng.getattr(res, n)
            except PyRaise as ex:
                out[n] = ("raise", ex.exc.name())
        return out
    paths = eng.run(target, mk)
    fn = PR + "PanopticaResult"
    ctx.expect("calculators: tp>0 path and tp==0 scenario paths explored", len(paths) >= 4)
    npos = 0
    for pi, p in enumerate(paths):
        if p.kind != "return":
            ctx.oblige(f"panoptica_result.calculators/no-exception#p{pi}", p.pc, z3.BoolVal(False), func=fn)
            continue
        v = p.value
        T = lambda x: to_term(x, "real")
        isnum = lambda x: isinstance(x, (Sym, int, float)) and not (isinstance(x, float) and x != x)
        pos = z3.is_false(z3.simplify(z3.And(*p.pc, tp == 0))) or not eng_feasible(p.pc, tp == 0)
        sample = {"DSC": ("0.2", "0.6"), "IOU": ("0.1", "0.3"), "ASSD": ("1.0", "4.0"), "RVD": ("(- 0.5)", "0.25"), "clDSC": ("0.7", "0.9")}
        generic = ["(= tp 2)", "(<= npred 4)", "(<= nref 4)"] + [f"(= (select vals_{m_} {k_}) {sample[m_][k_]})" for m_ in ALL_METRICS for k_ in (0, 1)]
        info = {"prefer": [generic, ["(<= tp 3)", "(<= npred 4)", "(<= nref 4)"]]}
        nm = f"panoptica_result.calculators[{'tp>0' if pos else 'tp=0'}]"
        g = [to_term(v["tp"]) == tp, to_term(v["fp"]) == npred - tp, to_term(v["fn"]) == nref - tp,
             to_term(v["tp"]) + to_term(v["fp"]) == npred, to_term(v["tp"]) + to_term(v["fn"]) == nref]
        if pos:
            npos += 1
            ctx.canary(f"{nm}#p{pi}", p.pc, func=fn)
            den = z3.ToReal(tp) + z3.ToReal(npred - tp) / 2 + z3.ToReal(nref - tp) / 2
            if not all(isnum(v[k]) for k in ("rq", "prec", "rec")):
                g.append(z3.BoolVal(False))
            else:
                g += [T(v["rq"]) * den == z3.ToReal(tp), T(v["prec"]) * z3.ToReal(npred) == z3.ToReal(tp), T(v["rec"]) * z3.ToReal(nref) == z3.ToReal(tp)]
            ctx.oblige(f"{nm}/post(tp+fp=n_pred, tp+fn=n_ref, rq=tp/(tp+fp/2+fn/2), prec, rec)#p{pi}", p.pc, z3.And(*g), func=fn, replay="c02.result", info=info)
            for m in ALL_METRICS:
                arr, n = seq_array(eng, p.state["lists"][metric(eng, m)])
                sqv, sdv = v[SQ_ATTR[m]], v[SQ_ATTR[m] + "_std"]
                both = isinstance(sqv, Sym) and isinstance(sdv, Sym)
                ctx.oblige(f"{nm}/post({SQ_ATTR[m]}=mean of the {m} list)#p{pi}", p.pc, T(sqv) == AGG["average"](arr, n) if both else z3.BoolVal(False),
                           func=fn, replay="c02.result", info=dict(info, metric=m))
                ctx.oblige(f"{nm}/post({SQ_ATTR[m]}_std=population std of the {m} list)#p{pi}", p.pc, T(sdv) == AGG["pstd"](arr, n) if both else z3.BoolVal(False),
                           func=fn, replay="c02.result", info=dict(info, metric=m))
                if m in PQ_ATTR:
                    pv = v[PQ_ATTR[m]]
                    okp = isinstance(pv, Sym) and isinstance(sqv, Sym) and isnum(v["rq"])
                    ctx.oblige(f"{nm}/post({PQ_ATTR[m]}={SQ_ATTR[m]}*rq)#p{pi}", p.pc, T(pv) == T(sqv) * T(v["rq"]) if okp else z3.BoolVal(False),
                               func=fn, replay="c02.result", info=dict(info, metric=m))
        else:
            rqv = v["rq"]
            if isinstance(rqv, float) and rqv != rqv:
                g.append(npred + nref == 0)
            elif isnum(rqv):
                g += [T(rqv) == 0, npred + nref > 0]
            else:
                g.append(z3.BoolVal(False))
            ctx.oblige(f"{nm}/post(fp=n_pred, fn=n_ref, rq=0 unless nothing to find)#p{pi}", p.pc, z3.And(*g), func=fn, replay="c02.result", info=info)
    ctx.expect("calculators: a tp>0 path exists", npos >= 1)


def unit_to_dict(ctx):
    """calculate_all + to_dict: the exported dictionary holds exactly the metrics whose calculation does not raise, each with
    the value the lazy attribute protocol yields (which the calculators unit ties to the definitions)."""
    eng = ctx.engine()
    tp, npred, nref = z3.Ints("tp npred nref")
    vals_arr = {m: z3.Const(f"vals_{m}", z3.ArraySort(I, R)) for m in ALL_METRICS}

    def mk_res(e):
        lists = {metric(e, m): SymSeq(SymInt(tp), (lambda i, m=m: SymReal(z3.Select(vals_arr[m], i), np=True)), name=f"list_{m}") for m in ALL_METRICS}
        h = e.call(e.resolve(EC + "EdgeCaseHandler"), [], {})
        return e.call(e.resolve(PR + "PanopticaResult"), [], dict(
            reference_arr=None, prediction_arr=None, num_pred_instances=SymInt(npred), num_ref_instances=SymInt(nref),
            tp=SymInt(tp), list_metrics=lists, edge_case_handler=h))

    def mk(e):
        e.assume(wrap(z3.And(tp >= 0, tp <= npred, tp <= nref)))
        return [mk_res(e), mk_res(e)], {}, {}

    def target(res, twin):
        # twin: an identical result object read attribute by attribute (the lazy protocol's own answer)
        keys = list(eng.getattr(res, "_evaluation_metrics").keys())
        direct = {}
        for n in keys:
            try:
                direct[n] = eng.getattr(twin, n)
            except PyRaise as ex:
                direct[n] = ("raise", ex.exc.name())
        eng.call(eng.getattr(res, "calculate_all"), [], {})
        d = eng.call(eng.getattr(res, "to_dict"), [], {})
        return keys, direct, d
    paths = eng.run(target, mk)
    fn = PR + "PanopticaResult.to_dict"
    ctx.expect("to_dict: tp>0 and tp==0 paths explored", len(paths) >= 2)
    info = {"prefer": [["(= tp 2)", "(<= npred 4)", "(<= nref 4)"], ["(<= tp 3)", "(<= npred 4)", "(<= nref 4)"]]}
    nret = 0
    for pi, p in enumerate(paths):
        nm = "panoptica_result.PanopticaResult.calculate_all+to_dict"
        if p.kind != "return":
            ctx.oblige(f"{nm}/no-exception({p.exc.name() if p.exc else p.kind})#p{pi}", p.pc, z3.BoolVal(False), func=fn, replay="c02.todict", info=info)
            continue
        nret += 1
        keys, direct, d = p.value
        if not isinstance(d, dict):
            ctx.oblige(f"{nm}/returns a dict#p{pi}", p.pc, z3.BoolVal(False), func=fn, replay="c02.todict", info=info)
            continue
        if pi == 0:
            ctx.canary(f"{nm}#p{pi}", p.pc, func=fn)
        raising = [k for k in keys if isinstance(direct[k], tuple) and direct[k][:1] == ("raise",)]
        fine = [k for k in keys if k not in raising]
        g_keys = set(d.keys()) == set(fine)
        ctx.oblige(f"{nm}/post(keys = exactly the metrics whose calculation does not raise)#p{pi}", p.pc, z3.BoolVal(bool(g_keys)), func=fn, replay="c02.todict",
                   info=dict(info, missing=str(sorted(set(fine) - set(d.keys()))[:5]), extra=str(sorted(set(d.keys()) - set(fine))[:5])))
        g = []
        for k in fine:
            if k not in d:
                continue
            a, b = d[k], direct[k]
            if isinstance(a, Sym) or isinstance(b, Sym):
                try:
                    g.append(to_term(a, "real") == to_term(b, "real"))
                except Exception:
                    g.append(z3.BoolVal(False))
            elif isinstance(a, float) and a != a:
                g.append(z3.BoolVal(isinstance(b, float) and b != b))
            else:
                g.append(z3.BoolVal(bool(a is b or a == b)))
        ctx.oblige(f"{nm}/post(every exported value is the attribute's own value)#p{pi}", p.pc, z3.And(*g) if g else z3.BoolVal(True), func=fn, replay="c02.todict", info=info)
    ctx.expect("to_dict: a returning path", nret >= 1)


def eng_feasible(pc, extra):
    s = z3.Solver()
    s.set("timeout", 2000)
    s.add(*pc)
    s.add(extra)
    return s.check() != z3.unsat


def unit_lemmas(ctx):
    """Range / ordering consequences (statement's 'when tp > 0 ...')."""
    tp, npred, nref = z3.Ints("tp npred nref")
    rq = z3.ToReal(tp) / (z3.ToReal(tp) + z3.ToReal(npred - tp) / 2 + z3.ToReal(nref - tp) / 2)
    ctx.oblige("lemma.rq-range/0<rq<=1", [tp > 0, tp <= npred, tp <= nref], z3.And(rq > 0, rq <= 1), kind="lemma")
    ctx.canary("lemma.rq-range", [tp > 0, tp <= npred, tp <= nref])
    AR = z3.ArraySort(I, R)
    a, b = z3.Consts("la lb", AR)
    psum = z3.Function("psum", AR, I, R)
    k, i = z3.Ints("lk li")
    unit = lambda arr, kk: z3.ForAll([i], z3.Implies(z3.And(0 <= i, i < kk), z3.And(arr[i] >= 0, arr[i] <= 1)))
    dom = lambda kk: z3.ForAll([i], z3.Implies(z3.And(0 <= i, i < kk), a[i] <= b[i]))
    defs = [psum(a, 0) == 0, psum(b, 0) == 0, psum(a, k + 1) == psum(a, k) + a[k], psum(b, k + 1) == psum(b, k) + b[k]]
    # L3a: elements in [0,1] => 0 <= psum(a,k) <= k
    ctx.oblige("lemma.mean-range/base", defs, z3.And(psum(a, 0) >= 0, psum(a, 0) <= 0), kind="lemma")
    ctx.oblige("lemma.mean-range/step", defs + [k >= 0, unit(a, k + 1), z3.Implies(unit(a, k), z3.And(psum(a, k) >= 0, psum(a, k) <= z3.ToReal(k)))],
               z3.And(psum(a, k + 1) >= 0, psum(a, k + 1) <= z3.ToReal(k + 1)), kind="lemma")
    # L3b: pointwise a <= b => psum(a,k) <= psum(b,k)
    ctx.oblige("lemma.mean-monotone/base", defs, psum(a, 0) <= psum(b, 0), kind="lemma")
    ctx.oblige("lemma.mean-monotone/step", defs + [k >= 0, dom(k + 1), z3.Implies(dom(k), psum(a, k) <= psum(b, k))], psum(a, k + 1) <= psum(b, k + 1), kind="lemma")
    # conclusion: sq, sq_dsc, pq in [0,1], sq_dsc >= sq  (np.average contract: avg*n == sum of the elements)
    n = z3.Int("ln")
    avg_a, avg_b = AGG["average"](a, n), AGG["average"](b, n)
    hyps = [n > 0, avg_a * z3.ToReal(n) == psum(a, n), avg_b * z3.ToReal(n) == psum(b, n),
            psum(a, n) >= 0, psum(a, n) <= z3.ToReal(n), psum(b, n) >= 0, psum(b, n) <= z3.ToReal(n), psum(a, n) <= psum(b, n),
            tp == n, tp <= npred, tp <= nref]
    ctx.oblige("lemma.ranges/sq,sq_dsc,pq in [0,1] and sq_dsc>=sq", hyps,
               z3.And(avg_a >= 0, avg_a <= 1, avg_b >= 0, avg_b <= 1, avg_a <= avg_b, avg_a * rq >= 0, avg_a * rq <= 1, avg_b * rq <= 1), kind="lemma")
    ctx.canary("lemma.ranges", hyps)


def unit_eval_matched(ctx, decision, eval_names):
    """evaluate_matched_instance: every list has exactly tp entries, entry j of
    every list belongs to the same (j-th passing) instance, an instance is
    listed iff it meets the decision threshold."""
    eng = ctx.engine()
    n = z3.Int("n_matched")
    thr = z3.Real("decision_thr")
    val = {m: z3.Function(f"val_{m}", I, R) for m in eval_names}
    npred, nref = z3.Ints("npred nref")
    cnt = z3.Function("cnt", I, I)
    pidx = z3.Function("pidx", I, I)
    passes = (lambda i: z3.BoolVal(True)) if decision is None else (lambda i: spec_beats(decision, val[decision](i), thr))
    QN = IE + "evaluate_matched_instance"
    i, j = z3.Ints("ei ej")
    ghost = [cnt(0) == 0,
             z3.ForAll([i], z3.Implies(i >= 0, cnt(i + 1) == cnt(i) + z3.If(passes(i), 1, 0))),
             z3.ForAll([i], z3.Implies(i >= 0, z3.And(cnt(i) >= 0, cnt(i) <= i))),
             z3.ForAll([i], z3.Implies(z3.And(i >= 0, passes(i)), pidx(cnt(i)) == i))]
    ctx.trust("ghost definitions cnt (number of passing instances among the first i) and pidx (its inverse) by primitive recursion; "
              "0<=cnt(i)<=i is its standard consequence")

    def ei_summary(e, f, args, kwargs):
        # contract of _evaluate_instance for a matched label (both masks non-empty): key set == eval_metrics,
        # value = metric of that instance (function of the instance only)
        ref_idx = args[2]
        mets = args[3]
        e.event("call", "_evaluate_instance")
        return {m: SymReal(val[m._name](to_term(ref_idx) - 1), np=True) for m in mets}
    eng.summaries[IE + "_evaluate_instance"] = ei_summary

    def lists_of(scope):
        sd = scope.vars.get("score_dict")
        if not isinstance(sd, dict):
            k_, sd = find_local(scope, lambda v: isinstance(v, dict) and v and all(isinstance(k, EnumMember) for k in v))
        if not isinstance(sd, dict):
            raise Unsupported("no accumulator dict found")
        return sd

    def assigned_ints(scope, st_loop):
        import ast
        names = set()
        for nd in ast.walk(st_loop):
            if isinstance(nd, ast.Name) and isinstance(nd.ctx, ast.Store):
                names.add(nd.id)
            if isinstance(nd, ast.AugAssign) and isinstance(nd.target, ast.Name):
                names.add(nd.target.id)
        return [x for x in names if isinstance(scope.vars.get(x), (int, SymInt)) and not isinstance(scope.vars.get(x), bool)]

    state = {}

    def havoc(e, scope, it):
        sd = lists_of(scope)
        for m in list(sd):
            sd[m] = SymList(e.fresh(f"len_{m._name}", I), e.fresh(f"arr_{m._name}", z3.ArraySort(I, R)), name=f"list_{m._name}")
        f = scope.func
        loop = [x for x in __import__("ast").walk(f.node) if isinstance(x, __import__("ast").For)]
        loop.sort(key=lambda x: x.lineno)
        state["counters"] = assigned_ints(scope, loop[0]) if loop else []
        for x in state["counters"]:
            scope.vars[x] = e.fresh_int("ctr_" + x)

    def inv(e, scope, k, it):
        sd = lists_of(scope)
        out = []
        for m, L in sd.items():
            if not isinstance(L, SymList):
                L = SymList.from_concrete(L, name=f"list_{m._name}")
            out.append((f"len[{m._name}]", L.length == cnt(k)))
            out.append((f"aligned[{m._name}]", z3.ForAll([j], z3.Implies(z3.And(0 <= j, j < L.length),
                        z3.And(0 <= pidx(j), pidx(j) < k, passes(pidx(j)), z3.Select(L.arr, j) == val[m._name](pidx(j)))))))
        if "counters" not in state:
            import ast
            f = scope.func
            loop = sorted([x for x in ast.walk(f.node) if isinstance(x, ast.For)], key=lambda x: x.lineno)
            state["counters"] = assigned_ints(scope, loop[0]) if loop else []
        for x in state["counters"]:
            out.append((f"counter[{x}]", to_term(scope.vars[x]) == cnt(k)))
        return out

    eng.loop_specs[(QN, 0)] = LoopSpec(inv, havoc, axioms=lambda e, s, it: [(f"g{ix}", g) for ix, g in enumerate(ghost)])

    def mk(e):
        e.assume(wrap(z3.And(n >= 0, npred >= n, nref >= n)))
        # matched labels are 1..n (C09: label values are irrelevant); instance i has label i+1
        matched = SymSeq(SymInt(n), lambda t: SymInt(t + 1), name="matched_instances")
        pair = e.new_obj(PP + "MatchedInstancePair", _prediction_arr="PRED", _reference_arr="REF", matched_instances=matched,
                         n_prediction_instance=SymInt(npred), n_reference_instance=SymInt(nref))
        kw = dict(eval_metrics=[metric(e, m) for m in eval_names], decision_metric=(metric(e, decision) if decision else None),
                  decision_threshold=(SymReal(thr) if decision else None))
        return [pair], kw
    paths = eng.run(QN, mk)
    tag = f"{decision or 'none'}|{','.join(eval_names)}"
    fnm = "instance_evaluator.evaluate_matched_instance"
    info = {"decision": decision, "metrics": ",".join(eval_names), "prefer": ["(<= n_matched 3)"]}
    ctx.side_obligations(paths, f"{fnm}[{tag}]", func=QN, replay="c02.eval", info=info)
    exits = [p for p in paths if p.kind == "return"]
    ctx.expect(f"evaluate_matched_instance[{tag}]: one exit path", len(exits) == 1)
    ctx.expect(f"evaluate_matched_instance[{tag}]: loop body paths exist", any(p.kind == "end" for p in paths))
    for pi, p in enumerate(paths):
        if p.kind == "raise":
            ctx.oblige(f"{fnm}[{tag}]/no-exception({p.exc.name()})#p{pi}", p.pc, z3.BoolVal(False), func=QN, replay="c02.eval", info=info)
    for p in exits:
        ctx.canary(f"{fnm}[{tag}]/exit", p.pc, func=QN)
        r = p.value
        a = r.attrs
        lm = a.get("list_metrics")
        ok = isinstance(lm, dict) and sorted(k._name for k in lm) == sorted(set(eval_names)) and all(isinstance(v, SymList) for v in lm.values())
        if not ok:
            ctx.oblige(f"{fnm}[{tag}]/post(shape)", p.pc, z3.BoolVal(False), func=QN)
            continue
        tpv = to_term(a["tp"])
        g1 = z3.And(*[L.length == tpv for L in lm.values()])
        ctx.oblige(f"{fnm}[{tag}]/post(every per-instance list has exactly tp entries)", p.pc, g1, func=QN, replay="c02.eval", info=info)
        ctx.oblige(f"{fnm}[{tag}]/post(tp = number of instances meeting the decision threshold)", p.pc, tpv == cnt(n), func=QN, replay="c02.eval", info=info)
        g3 = z3.And(*[z3.ForAll([j], z3.Implies(z3.And(0 <= j, j < L.length), z3.And(0 <= pidx(j), pidx(j) < n, passes(pidx(j)),
                                                                                   z3.Select(L.arr, j) == val[m._name](pidx(j))))) for m, L in lm.items()])
        ctx.oblige(f"{fnm}[{tag}]/post(lists are index-aligned and hold exactly the passing instances)", p.pc, g3, func=QN, replay="c02.eval", info=info)
        g4 = z3.And(to_term(a["num_pred_instances"]) == npred, to_term(a["num_ref_instances"]) == nref, tpv <= npred, tpv <= nref,
                    z3.BoolVal(a.get("reference_arr") == "REF" and a.get("prediction_arr") == "PRED"))
        ctx.oblige(f"{fnm}[{tag}]/post(counts and arrays forwarded; tp<=min(n_pred,n_ref))", p.pc, g4, func=QN, replay="c02.eval", info=info)



def unit_eval_frame(ctx):
    """evaluate_matched_instance does not modify what it is given: the metric list (the evaluator's own configuration, possibly the
    shared default argument) is unchanged on every path, whether the decision metric is one of the evaluated metrics or not (then the
    call is rejected with an AssertionError), and no attribute of the pair is written."""
    eng = ctx.engine()
    QN = IE + "evaluate_matched_instance"

    def ei_summary(e, f, args, kwargs):
        return {m: SymReal(e.fresh("v", R), np=True) for m in args[3]}
    eng.summaries[IE + "_evaluate_instance"] = ei_summary
    for decision, names in (("ASSD", ["DSC", "IOU"]), ("IOU", ["DSC", "IOU"]), (None, ["DSC"])):
        def mk(e, decision=decision, names=names):
            # two matched instances, concretely: the frame does not depend on how many there are
            pair = e.new_obj(PP + "MatchedInstancePair", _prediction_arr="PRED", _reference_arr="REF", matched_instances=[1, 2],
                             n_prediction_instance=2, n_reference_instance=2)
            mets = [metric(e, m) for m in names]
            kw = dict(eval_metrics=mets, decision_metric=(metric(e, decision) if decision else None), decision_threshold=(0.5 if decision else None))
            return [pair], kw, {"mets": mets, "names": list(names), "pair": pair, "ev0": len(e.events)}
        paths = eng.run(QN, mk)
        tag = f"{decision or 'none'}|{','.join(names)}"
        nm = f"instance_evaluator.evaluate_matched_instance[{tag}]"
        ctx.expect(f"{nm}: at least one path", len(paths) >= 1)
        for pi, p in enumerate(paths):
            mets = p.state["mets"]
            same = [m._name for m in mets] == p.state["names"]
            writes = [ev for ev in p.events[p.state["ev0"]:] if ev[0] == "setattr" and ev[1] == p.state["pair"].oid]
            ctx.oblige(f"{nm}/frame(the metric list handed in is unchanged; the pair is not written)#p{pi}", [], z3.BoolVal(bool(same and not writes)), func=QN,
                       replay="c02.frame", info={"structural": True, "after": str([m._name for m in mets]), "decision": decision, "metrics": ",".join(names)})
            if decision is not None and decision not in names:
                ok = p.kind == "raise" and p.exc.name() == "AssertionError"
                ctx.oblige(f"{nm}/pre(a decision metric that is not evaluated per instance is rejected with an AssertionError)#p{pi}", [], z3.BoolVal(bool(ok)), func=QN,
                           replay="c02.frame", info={"structural": True, "decision": decision, "metrics": ",".join(names)})



def unit_matched_pair_ctor(ctx):
    """MatchedInstancePair.__init__: the matched instances are exactly the labels present in BOTH maps, the missed reference /
    prediction labels exactly those present in one map only (this is what tp, fp and fn count)."""
    from pyvc.npmodel import Space, base_array
    eng = ctx.engine()
    fn = PP + "MatchedInstancePair.__init__"

    def mk(e):
        sp = Space("S")
        P, Rr = base_array(e, "P", "uint8", sp), base_array(e, "R", "uint8", sp)
        return [P, Rr], {}, {}

    def target(P, Rr):
        return eng.call(eng.resolve(PP + "MatchedInstancePair"), [P, Rr], {})
    paths = eng.run(target, mk)
    ctx.expect("MatchedInstancePair.__init__: a returning path", any(p.kind == "return" for p in paths))
    t = z3.Int("lbl_ix")
    for pi, p in enumerate(paths):
        nm = "processing_pair.MatchedInstancePair.__init__"
        if p.kind != "return":
            ctx.oblige(f"{nm}/no-exception({p.exc.name() if p.exc else p.kind})#p{pi}", p.pc, z3.BoolVal(False), func=fn, replay="c02.matched_ctor")
            continue
        o = p.value
        pl, rl = o.attrs["_pred_labels"], o.attrs["_ref_labels"]
        ok = all(hasattr(x, "unique_of") for x in (pl, rl))
        _, _, up, _, idxp, npn = pl.unique_of if ok else (None,) * 6
        _, _, ur, _, idxr, nrn = rl.unique_of if ok else (None,) * 6
        in_ref = lambda v: z3.And(0 <= idxr(v), idxr(v) < nrn, ur(idxr(v)) == v)
        in_pred = lambda v: z3.And(0 <= idxp(v), idxp(v) < npn, up(idxp(v)) == v)
        for attr, base_labels, u_, n_, keep in (("matched_instances", pl, up, npn, lambda v: in_ref(v)), ("missed_prediction_labels", pl, up, npn, lambda v: z3.Not(in_ref(v))),
                                                ("missed_reference_labels", rl, ur, nrn, lambda v: z3.Not(in_pred(v)))):
            F = o.attrs.get(attr)
            good = ok and isinstance(F, SymSeq) and getattr(F, "base", None) is base_labels and getattr(F, "cond", None) is not None
            if not good:
                ctx.oblige(f"{nm}/post({attr} is a selection of the label list of its own map)#p{pi}", [], z3.BoolVal(False), func=fn, replay="c02.matched_ctor", info={"structural": True})
                continue
            iv, cond = F.cond
            kept = z3.substitute(cond, (iv, t))
            ctx.oblige(f"{nm}/post({attr}: a label is listed iff it is " + {"matched_instances": "present in both maps", "missed_prediction_labels": "a prediction label absent from the reference",
                       "missed_reference_labels": "a reference label absent from the prediction"}[attr] + f")#p{pi}", p.pc + [0 <= t, t < n_], kept == keep(u_(t)), func=fn, replay="c02.matched_ctor")
        if pi == 0:
            ctx.canary(f"{nm}#p{pi}", p.pc, func=fn)


def build(ctx):
    ctx.trust("np.average(list)*len == sum of the elements; np.std default = population standard deviation (uninterpreted np_pstd)",
              "contract of _evaluate_instance (dict with exactly the evaluated metrics, value a function of the instance) - proved in C06/C10 units",
              "induction schema over naturals applied outside the solver (base/step discharged)")
    ctx.unit("calculators", lambda: unit_calculators(ctx))
    ctx.unit("lemmas", lambda: unit_lemmas(ctx))
    ctx.unit("calculate_all+to_dict", lambda: unit_to_dict(ctx))
    for dec in (None, "IOU", "DSC", "ASSD"):
        ctx.unit(f"evaluate_matched_instance[{dec}]", lambda dec=dec: unit_eval_matched(ctx, dec, ["DSC", "IOU", "ASSD"]))
    ctx.unit("evaluate_matched_instance[RVD|all]", lambda: unit_eval_matched(ctx, "IOU", ["DSC", "IOU", "ASSD", "RVD"]))
    # a metric listed twice in the configuration is still ONE list with exactly tp entries
    ctx.unit("evaluate_matched_instance[duplicate metric]", lambda: unit_eval_matched(ctx, "IOU", ["DSC", "IOU", "DSC"]))
    ctx.unit("evaluate_matched_instance[frame]", lambda: unit_eval_frame(ctx))
    ctx.unit("MatchedInstancePair.__init__", lambda: unit_matched_pair_ctor(ctx))
    # tp/fp/fn count label-matched instances: "matched" means what the relabelling after matching made equal (C04), regenerated here
    include_stage(ctx, "C04")
    # the decision metric / threshold the evaluation receives is the configured one, per call and per group (C12), regenerated here
    include_stage(ctx, "C12")
    ctx.add_bounded("c02-enum", "c02.bounded")


def concretise(ctx, o, r):
    if (o.info or {}).get("stage"):
        return stage_concretise(ctx, o, r)
    m = r.get("model") or {}
    gi = lambda k, d=0: model_int(m.get(k, d))
    if o.replay == "c02.matched_ctor":
        return {}
    if o.replay == "c02.frame":
        return {"decision": o.info.get("decision"), "metrics": o.info.get("metrics")}
    if o.replay in ("c02.result", "c02.todict"):
        tp = max(0, min(gi("tp"), 6))
        lists = {}
        for mn in ALL_METRICS:
            tab = m.get(f"vals_{mn}")
            lists[mn] = [str(model_real(tab[i])) if isinstance(tab, list) else "0" for i in range(tp)]
        return {"tp": tp, "npred": max(tp, gi("npred")), "nref": max(tp, gi("nref")), "lists": lists}
    if o.replay == "c02.eval":
        n = max(0, min(gi("n_matched"), 6))
        mets = o.info["metrics"].split(",")
        vals = {}
        for mn in mets:
            tab = m.get(f"val_{mn}")
            vals[mn] = [str(model_real(tab[i])) if isinstance(tab, list) else "0" for i in range(n)]
        dec = o.info.get("decision")
        return {"n": n, "metrics": mets, "decision": None if dec in (None, "None") else dec, "thr": str(model_real(m.get("decision_thr", "0"))), "vals": vals}
    return None
