"""Executable specification of the whole evaluation (statement of C01 / metrics.md): connected components of the documented
connectivity, best-score-first one-to-one matching at the threshold, metric formulas on voxel sets, tp/fp/fn, sq/rq/pq.
Independent of panoptica's code (pure python + numpy indexing)."""
import math
import numpy as np
from . import metrics as SM


def instances_of(arr, input_type, backend):
    """dict label -> voxel set"""
    arr = np.asarray(arr)
    if input_type == "SEMANTIC":
        eff = backend or ("cc3d" if arr.ndim >= 3 else "scipy")
        comps = SM.components(arr, full_connectivity=(eff == "cc3d"), per_label=(eff == "cc3d"))
        return {i + 1: c for i, c in enumerate(comps)}
    return SM.instances(arr)


def candidates(P, Rr, metric, ndim):
    out = []
    for r, X in Rr.items():
        for p, Y in P.items():
            if X & Y:
                out.append((float(SM.metric(metric, X, Y, ndim)), r, p))
    out.sort(key=lambda t: t[0], reverse=not SM.DECREASING[metric])
    return out


TOL = 1e-9


def near(a, b):
    return abs(a - b) <= TOL * max(1.0, abs(a), abs(b))


def unique_scores(cands):
    """no two candidate scores equal -- up to floating-point noise: mathematically equal scores computed along different routes may
    differ in the last bits, and then the documented procedure does not determine the order (assumption A-FP)"""
    s = sorted(c[0] for c in cands)
    return all(not near(a, b) for a, b in zip(s, s[1:]))


def meets(metric, s, t):
    """score s meets threshold t; a score equal to the threshold up to floating-point noise meets it"""
    return near(s, t) or SM.beats(metric, s, t)


def evaluate(pred, ref, input_type, backend=None, matching_metric="IOU", matching_threshold=0.5, metrics=("DSC", "IOU", "ASSD", "RVD"),
             decision_metric=None, decision_threshold=None):
    """returns dict(num_pred, num_ref, tp, fp, fn, rq, lists{metric: sorted values}, sq{...}, pq{...}, unique: bool) or None where undefined"""
    pred, ref = np.asarray(pred), np.asarray(ref)
    nd = pred.ndim
    P, Rr = instances_of(pred, input_type, backend), instances_of(ref, input_type, backend)
    unique = True
    if input_type == "MATCHED_INSTANCE":
        pairs = [(l, l) for l in sorted(set(P) & set(Rr))]
    else:
        cands = candidates(P, Rr, matching_metric, nd)
        unique = unique_scores(cands)
        pairs, used_p, used_r = [], set(), set()
        for s, r, p in cands:
            if meets(matching_metric, s, matching_threshold) and p not in used_p and r not in used_r:
                pairs.append((r, p)); used_p.add(p); used_r.add(r)
    lists = {m: [] for m in metrics}
    tp = 0
    for r, p in pairs:
        vals = {m: SM.metric(m, Rr[r], P[p], nd) for m in metrics}
        if decision_metric is not None and not meets(decision_metric, float(vals[decision_metric]), decision_threshold):
            continue
        tp += 1
        for m in metrics:
            lists[m].append(float(vals[m]))
    n_pred, n_ref = len(P), len(Rr)
    fp, fn = n_pred - tp, n_ref - tp
    out = {"num_pred_instances": n_pred, "num_ref_instances": n_ref, "tp": tp, "fp": fp, "fn": fn, "lists": {m: sorted(v) for m, v in lists.items()}, "unique": unique}
    if tp > 0:
        rq = tp / (tp + fp / 2 + fn / 2)
        out["rq"] = rq
        out["sq"] = {m: sum(v) / len(v) for m, v in lists.items()}
        out["pq"] = {m: out["sq"][m] * rq for m in lists}
    return out
