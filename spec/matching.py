"""Statement-level oracle for C03/C14: checks the clauses of the property on
the label map a matcher produced for a best-first candidate list."""
from .metrics import beats, better_eq, DECREASING


def check_threshold_matcher(pairs, thr, metric, many, labelmap, exc=None):
    """pairs: [(score, ref, pred)] in the order the matcher saw them (best
    first).  labelmap: dict pred->ref.  Returns list of violated clauses."""
    bad = []
    if exc is not None:
        return [f"terminates-with-result(raised {exc})"]
    cand = {(r, p): s for s, r, p in pairs}
    # sound
    for p, r in labelmap.items():
        if (r, p) not in cand:
            bad.append(f"sound(pair ({r},{p}) is not an overlapping candidate)")
        elif not beats(metric, cand[(r, p)], thr):
            bad.append(f"sound(pair ({r},{p}) score {cand[(r,p)]} misses threshold {thr})")
    # one-to-one
    if not many:
        refs = list(labelmap.values())
        if len(refs) != len(set(refs)):
            bad.append("one-to-one(reference assigned to several predictions)")
    # maximal
    ran = set(labelmap.values())
    for s, r, p in pairs:
        if beats(metric, s, thr) and p not in labelmap and r not in ran:
            bad.append(f"maximal(pair ({r},{p}) meets the threshold and both partners are free)")
    # best-first: an eligible unassigned pair must be blocked by an earlier assigned pair
    for i, (s, r, p) in enumerate(pairs):
        if beats(metric, s, thr) and labelmap.get(p) != r:
            ok = False
            for (s2, r2, p2) in pairs[:i]:
                if labelmap.get(p2) == r2 and better_eq(metric, s2, s) and (p2 == p or (not many and r2 == r)):
                    ok = True
            # ties: an equally good pair may come later in the list and still legitimately win
            if not ok:
                for (s2, r2, p2) in pairs[i + 1:]:
                    if s2 == s and labelmap.get(p2) == r2 and (p2 == p or (not many and r2 == r)):
                        ok = True
            if not ok:
                bad.append(f"best-first(pair ({r},{p}) score {s} displaced by a worse or no pair)")
    return bad


def greedy(pairs, thr, metric, many):
    """Reference greedy best-first assignment (spec)."""
    lm = {}
    for s, r, p in pairs:
        if not beats(metric, s, thr):
            continue
        if p in lm:
            continue
        if not many and r in lm.values():
            continue
        lm[p] = r
    return lm
