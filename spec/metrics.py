"""Executable twins of the spec functions (set-theoretic definitions taken from
the property statements / metrics.md).  Pure numpy/python, exact where possible."""
from fractions import Fraction
import itertools, math
import numpy as np

DECREASING = {"IOU": False, "DSC": False, "ASSD": True, "clDSC": False, "RVD": True}


def vox(mask):
    return set(map(tuple, np.argwhere(np.asarray(mask) != 0)))


def dice(X, Y):
    if len(X) + len(Y) == 0:
        return None
    return Fraction(2 * len(X & Y), len(X) + len(Y))


def iou(X, Y):
    if len(X | Y) == 0:
        return None
    return Fraction(len(X & Y), len(X | Y))


def rvd(X_ref, Y_pred):
    if len(X_ref) == 0:
        return None
    return Fraction(len(Y_pred) - len(X_ref), len(X_ref))


def border(S, ndim):
    """foreground voxels with a background or out-of-array face neighbour
    (out-of-array counts as background)."""
    out = set()
    for v in S:
        for ax in range(ndim):
            for d in (-1, 1):
                w = list(v)
                w[ax] += d
                if tuple(w) not in S:
                    out.add(v)
    return out


def asd(A, Bs, ndim):
    """mean distance from each border voxel of A to the nearest border voxel of B."""
    bA, bB = border(A, ndim), border(Bs, ndim)
    if not bA or not bB:
        return None
    tot = 0.0
    for a in bA:
        tot += min(math.sqrt(sum((x - y) ** 2 for x, y in zip(a, b))) for b in bB)
    return tot / len(bA)


def assd(X, Y, ndim):
    a, b = asd(Y, X, ndim), asd(X, Y, ndim)
    if a is None or b is None:
        return None
    return (a + b) / 2


def metric(name, X_ref, Y_pred, ndim):
    if name == "IOU":
        return iou(X_ref, Y_pred)
    if name == "DSC":
        return dice(X_ref, Y_pred)
    if name == "RVD":
        return rvd(X_ref, Y_pred)
    if name == "ASSD":
        return assd(X_ref, Y_pred, ndim)
    raise KeyError(name)


def beats(name, s, t):
    return s <= t if DECREASING[name] else s >= t


def better_eq(name, a, b):
    return a <= b if DECREASING[name] else a >= b


def instances(arr):
    arr = np.asarray(arr)
    return {int(l): set(map(tuple, np.argwhere(arr == l))) for l in np.unique(arr) if l != 0}


def components(arr, full_connectivity, per_label):
    """Flood-fill connected components of the non-zero voxels.
    full_connectivity: 3^d-1 neighbourhood, else face neighbourhood.
    per_label: only voxels with equal value are joined (cc3d semantics)."""
    arr = np.asarray(arr)
    nd = arr.ndim
    fg = {tuple(i): int(arr[tuple(i)]) for i in np.argwhere(arr != 0)}
    if full_connectivity:
        offs = [o for o in itertools.product((-1, 0, 1), repeat=nd) if any(o)]
    else:
        offs = []
        for ax in range(nd):
            for d in (-1, 1):
                o = [0] * nd
                o[ax] = d
                offs.append(tuple(o))
    seen, comps = set(), []
    for v in sorted(fg):
        if v in seen:
            continue
        comp, stack = set(), [v]
        seen.add(v)
        while stack:
            c = stack.pop()
            comp.add(c)
            for o in offs:
                w = tuple(a + b for a, b in zip(c, o))
                if w in fg and w not in seen and (not per_label or fg[w] == fg[c]):
                    seen.add(w)
                    stack.append(w)
        comps.append(comp)
    return comps
