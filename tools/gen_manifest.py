#!/usr/bin/env python3
"""Regenerates MANIFEST.json from the table below (keeps it schema-valid)."""
import json, os
V = os.path.dirname(os.path.dirname(os.path.abspath(__file__)))
TRUST_COMMON = ("trusted: pyvc engine (AST->VC generator, /verif/pyvc) and its models of numpy 1.26.4 / stdlib (conformance-tested, bounded); "
                "z3 5.1 / cvc5 1.0.3; float arithmetic treated as real arithmetic; ")
CHECKS = {
 "C03": dict(cat="proof", design="DESIGN.md 3 C03",
   text="Deductive: loop-invariant proof of the real NaiveThresholdMatching._match_instances (symbolic candidate list of any length, symbolic threshold, per metric direction and many-to-one flag) with the statement's clauses as postconditions, InstanceLabelMap and score_beats_threshold against their abstract specs, threshold monotonicity by induction; counter-models are replayed on the real function. A bounded end-to-end enumeration (labelled bounded) backs the candidate-scorer contract.",
   note=TRUST_COMMON + "assumed contract of _calc_matching_metric_of_overlapping_labels (candidates, best-first order) until its own unit lands; Pool.starmap = serial map; sorted() stable; ghost definition by well-founded recursion; induction schema applied outside the solver.",
   tech="contract-based deductive verification: AST->z3 VCs with loop invariants, counter-model replay"),
 "C08": dict(cat="proof", design="DESIGN.md 3 C08",
   text="Deductive: the real EdgeCaseResult/MetricZeroTPEdgeCaseHandling/EdgeCaseHandler, _handle_zero_instances_cases and PanopticaResult (constructor, lazy attribute protocol, list-metric aggregation, fp/fn calculators) are executed symbolically with the handler configuration as symbolic enum values and symbolic non-negative counts; every path's result is proved equal to the statement's scenario function (one proof covers all 5^4 x 5 configurations per metric); no exception path is feasible. Counter-models are replayed on the real classes; a bounded run drives every scenario through the real evaluator for all three input types.",
   note=TRUST_COMMON + "np.average/np.std/np.sum/np.min/np.max on lists are uninterpreted functions (np.std default = population std); the three pipeline entry paths to the result constructor are covered by the bounded run and by C01's composition obligations.",
   tech="contract-based deductive verification: symbolic execution of the real classes with symbolic enum configuration, z3-discharged postconditions per path, counter-model replay"),
 "C02": dict(cat="proof", design="DESIGN.md 3 C02",
   text="Deductive: fp/fn/prec/rec/rq/sq*/pq* are evaluated through the real PanopticaResult (constructor, _add_metric binding table, __getattribute__ lazy protocol, Evaluation_List_Metric) on symbolic counts and symbolic per-instance lists and proved equal to the statement's formulas; evaluate_matched_instance is proved by loop invariant (ghost counting function) for symbolic instance lists, every decision metric and threshold: each list has exactly tp entries, tp is the number of instances meeting the threshold, lists are index-aligned; [0,1] ranges and sq_dsc>=sq are lemmas (NRA + induction). Counter-models are replayed; a bounded end-to-end run checks the same clauses on real results.",
   note=TRUST_COMMON + "assumed contract of _evaluate_instance (exactly the evaluated metrics per instance) and np.average*len == sum; per-instance IoU<=Dice and [0,1] are C06 lemmas; MatchedInstancePair's label-set counting is covered by C04/C09 units and the bounded run.",
   tech="contract-based deductive verification: symbolic execution of the real result classes, loop invariant with ghost functions, lemmas by induction in z3, counter-model replay"),
 "C14": dict(cat="proof", design="DESIGN.md 3 C14",
   text="Deductive: loop-invariant proof of the real MaximizeMergeMatching._match_instances over a symbolic best-first candidate list for IoU, Dice and ASSD: the label map is a partial map pred->ref whose entries are candidates; a reference is matched only through a single candidate meeting the threshold; the book-kept score of a reference is the combined score of exactly the predictions assigned to it and is never worse than the seeding candidate's; on every merge path the statement's condition (strictly better in the metric's preferred direction) is proved from the comparison the code made; new_combination_score scores preds(r)+{p} and leaves the map untouched. Counter-models are replayed on the real matcher with stubbed scorers; bounded end-to-end enumeration on 1-D fragments.",
   note=TRUST_COMMON + "assumed contracts: _calc_matching_metric_of_overlapping_labels (best-first candidates, score = metric of the single pair), Metric.__call__ with label selection = function of (ref label, set of pred labels) (C06).",
   tech="contract-based deductive verification: AST->z3 VCs with loop invariants over map/set abstractions, counter-model replay"),
 "C06": dict(cat="proof", design="DESIGN.md 3 C06",
   text="Deductive: Metric.DSC/IOU/RVD.__call__ -> _Metric.__call__ -> _compute_instance_* -> coefficient functions are executed symbolically on arrays in a voxel-set theory (per-voxel terms over symbolic base arrays, mask cardinalities by Venn-region/BAPA reduction) for symbolic reference label, prediction label / list / set of labels, several dtypes, with and without selection; the result is proved equal to the statement's set formula wherever the quotient is defined, caller arrays are proved unwritten; Dice=2IoU/(1+IoU), symmetry, [0,1], =1 iff identical are NRA lemmas; clDice: harmonic-mean glue and 2-D/3-D dispatch with the skeleton uninterpreted. Counter-models (region sizes + witness voxels) are turned into arrays and replayed.",
   note=TRUST_COMMON + "numpy element-wise semantics as modelled in pyvc/npmodel.py; skimage skeletonize uninterpreted; arrays have < 2^40 elements.",
   tech="contract-based deductive verification: symbolic execution in a voxel-set theory, Venn-region cardinality reduction, z3 (NRA), counter-model replay"),
 "C13": dict(cat="proof", design="DESIGN.md 3 C13",
   text="Deductive: PanopticaResult.__init__ (binarisation, global loop) and _calc_global_bin_metric are executed symbolically on symbolic label arrays with the edge-case configuration as symbolic enum values: global_bin_<m> is the set formula of the two foregrounds (Dice/IoU/RVD) or the metric called on exactly the two binarised arrays (ASSD/clDice), the statement's empty-side scenario value otherwise; metrics not requested are not set; caller arrays are not written. Counter-models replayed on the real class; bounded 2x2 enumeration.",
   note=TRUST_COMMON + "numpy model; ASSD/clDice bodies are C07/C06.",
   tech="contract-based deductive verification: symbolic execution with symbolic enum configuration and voxel-set theory, counter-model replay"),
 "C09": dict(cat="proof", design="DESIGN.md 3 C09",
   text="Deductive (machine integers): _calc_overlapping_labels is executed symbolically with numpy-1.26 promotion and modular casts for uint8/16/32/64 inputs and symbolic labels in [1,2^24): via a chain of lemma obligations (divisor range, label ranges, product bound, no wrap, Euclidean decode, above threshold) every listed pair is proved to overlap in a voxel, every overlapping pair to be listed, none twice; _map_labels is proved to return the per-voxel mapped label without wrap-around in a fresh buffer; _get_paired_crop hands the bounding-box routine an array that is non-zero exactly where either input is; _get_smallest_fitting_uint and _check_array_integrity are value-independent and correct. Refuted lemmas are replayed by searching an adversarial label family on the real functions; a bounded end-to-end run compares all metrics under injective relabelling/re-typing.",
   note=TRUST_COMMON + "numpy promotion table and np.unique contract (npmodel.py); uint64 input goes through float64 in numpy 1.26 (exact below 2^53, A-FP); renaming-invariance of the spec itself (labels used only through equality) is by construction and composes with C01.",
   tech="contract-based deductive verification: symbolic execution with machine-integer semantics, lemma chains in z3 (NIA), replay on adversarial label families"),
 "C04": dict(cat="proof", design="DESIGN.md 3 C04",
   text="Deductive: map_instance_labels is executed symbolically on symbolic instance maps of every unsigned dtype (constructed by the real UnmatchedInstancePair constructor) and a symbolic label map satisfying the matcher postcondition; the fresh-label loop is proved by invariant (domain, kept entries, counter, fresh labels); posts from the statement: reference map and caller arrays unchanged, foreground unchanged, matched prediction carries exactly its reference label, unmatched prediction gets a label above every reference label, same partition except predictions of one reference; _map_labels' precondition is discharged at the call site and its body is proved in C09; match_instances relabels a copy with the matcher's map. Refuted obligations are replayed by a family search on the real function; bounded end-to-end enumeration with three matchers.",
   note=TRUST_COMMON + "matcher postcondition (label map maps prediction labels to reference labels) from C03/C14; np.unique contract incl. spacing of distinct integers; labels below 2^24.",
   tech="contract-based deductive verification: symbolic execution with loop invariant over a map abstraction, call-site precondition obligations, z3"),
 "C12": dict(cat="proof", design="DESIGN.md 3 C12",
   text="Deductive, relational by equal arguments: Panoptica_Evaluator.evaluate and _evaluate_group are executed symbolically (symbolic arrays, one plain, one merge and one single-instance group with symbolic label sets, all three input types, and the ungrouped evaluator) with panoptic_evaluate summarised; its arguments for group g are proved to be the pair class of the input type (already-matched pair with threshold 0 for a single-instance group), arrays equal per voxel to g(pred), g(ref) in fresh buffers, and the evaluator's own configuration objects; the undefined-label check is proved to run, raising, on both arrays before any group; no attribute of the evaluator or its components is written. LabelGroup/LabelMergeGroup/_LabelGroupAny extraction and has_defined_labels_for (loop invariant over np.unique) are proved against per-voxel specs; constructors on concrete definitions. Bounded: grouped result vs ungrouped result on restricted arrays through the real evaluator.",
   note=TRUST_COMMON + "panoptic_evaluate summarised here (pipeline is C01, purity C15); numpy model.",
   tech="contract-based deductive verification: relational equal-argument obligations from symbolic execution, loop invariant, frame conditions from the effect trace"),
}
NA_REASON = "check not built yet (build in progress, see DESIGN.md section 7)"
def main():
    m = {"version": 1, "setup_cmd": "./check --selftest",
         "hooks": {"guard": "PANOPTICA_VERIF",
                   "enable": "no hook is placed in /repo; contracts, ghost state and wrappers are sidecars under /verif (the guard variable is only read by /verif's own run-time contract wrappers)",
                   "baseline_off_cmd": "cd /repo && /venv/bin/python -m pytest -ra -q -p no:cacheprovider --timeout=900 --continue-on-collection-errors",
                   "source_commits": [], "add_only": True},
         "engines": [{"name": "pyvc", "path": "pyvc/", "serves_properties": sorted(CHECKS),
                      "kind_free_text": "verification-condition generator: symbolic execution of the real Python AST of /repo (re-read every run) with sidecar contracts/loop invariants; z3 (python API) + cvc5 CLI back ends; replays and bounded stand-ins run the real code under /venv/bin/python"}],
         "checks": [], "notes": "see DESIGN.md; known findings in known_findings.json", "not_applicable": []}
    for i in range(1, 21):
        pid = "C%02d" % i
        c = CHECKS.get(pid)
        if c is None:
            m["not_applicable"].append({"property_id": pid, "reason": NA_REASON})
            continue
        m["checks"].append({"property_id": pid, "quick_cmd": f"./check {pid} --tier quick", "thorough_cmd": f"./check {pid} --tier thorough",
                            "evidence_file": f"evidence/{pid}.json", "replay_cmd_template": "./check replay {path}", "engine": "pyvc",
                            "level_claimed": {"category": c["cat"], "text": c["text"], "design_ref": c["design"]},
                            "level_note": c["note"], "technique": c["tech"]})
    json.dump(m, open(os.path.join(V, "MANIFEST.json"), "w"), indent=1)
main()
