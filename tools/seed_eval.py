#!/usr/bin/env python3
"""Evaluate seeded mutants.
  seed_eval.py import <src_dir> <PROP> <n>   copy /tmp/wt_X/_seeded/mN to /verif/seeded/<PROP>_mN (if patch applies to /repo)
  seed_eval.py run [<id> ...]                 apply each, run tests + demo + check(s), revert; update meta.json
"""
import sys, os, json, subprocess, shutil, glob
V = "/verif"
ENV = dict(os.environ, PANOPTICA_CITATION_REMINDER="false", PYVC_EVIDENCE_DIR="/tmp/pyvc_mutant_evidence")
TESTS = ["/venv/bin/python", "-m", "pytest", "-q", "-p", "no:cacheprovider", "unit_tests",
         "--deselect", "unit_tests/test_panoptic_aggregator.py::Test_Example_Scripts",
         "--deselect", "unit_tests/test_panoptic_evaluator.py::Test_Example_Scripts"]


import threading
GITLOCK = threading.Lock()


def sh(cmd, **kw):
    return subprocess.run(cmd, capture_output=True, text=True, env=ENV, **kw)


def clean():
    sh(["git", "-C", "/repo", "checkout", "--", "."])


def apply(patch):
    r = sh(["git", "-C", "/repo", "apply", "--check", patch])
    if r.returncode == 0:
        return sh(["git", "-C", "/repo", "apply", patch]).returncode == 0
    r = sh(["patch", "-p1", "--fuzz=3", "-d", "/repo", "-i", patch, "--no-backup-if-mismatch", "-s"])
    ok = r.returncode == 0
    for f in glob.glob("/repo/**/*.rej", recursive=True) + glob.glob("/repo/**/*.orig", recursive=True):
        os.unlink(f)
    if not ok:
        clean()
    return ok


def run_one(d):
    meta = json.load(open(os.path.join(d, "meta.json")))
    prop = meta["property"]
    res = {}
    clean()
    r = sh(["/venv/bin/python", os.path.join(d, "demo.py")], cwd="/tmp")
    res["demo_clean_exit"] = r.returncode
    if not apply(os.path.join(d, "patch.diff")):
        res["applies"] = False
        meta["ran"] = res
        json.dump(meta, open(os.path.join(d, "meta.json"), "w"), indent=1)
        return meta
    res["applies"] = True
    try:
        r = sh(["/venv/bin/python", os.path.join(d, "demo.py")], cwd="/tmp")
        res["demo_mutant_exit"] = r.returncode
        t = sh(TESTS, cwd="/repo")
        res["tests_tail"] = t.stdout.strip().splitlines()[-1] if t.stdout.strip() else t.stderr[-200:]
        props = [prop] + [p for p in meta.get("also_check", [])]
        res["checks"] = {}
        for p in props:
            c = sh([os.path.join(V, "check"), p])
            lines = [l for l in c.stdout.splitlines() if l.startswith(("VIOLATION", "UNDECIDED", "KNOWN", "["))]
            res["checks"][p] = {"exit": c.returncode, "lines": [l[:260] for l in lines[:6]]}
    finally:
        clean()
    meta["ran"] = res
    json.dump(meta, open(os.path.join(d, "meta.json"), "w"), indent=1)
    return meta


def prun_one(d):
    """evaluate one seeded change on its own scratch worktree (so that /repo stays clean and several can run at once)"""
    name = os.path.basename(d)
    meta = json.load(open(os.path.join(d, "meta.json")))
    prop = meta["property"]
    wt = f"/tmp/seed_wt_{name}"
    with GITLOCK:
        sh(["git", "-C", "/repo", "worktree", "remove", "--force", wt])
        r = sh(["git", "-C", "/repo", "worktree", "add", "--detach", wt, "HEAD"])
    res = {}
    env = dict(ENV, PYVC_REPO=wt, PYTHONPATH=wt, PYVC_EVIDENCE_DIR=f"/tmp/pyvc_mutant_evidence_{name}")
    run = lambda cmd, **kw: subprocess.run(cmd, capture_output=True, text=True, env=env, **kw)
    try:
        rc = run(["/venv/bin/python", os.path.join(d, "demo.py")], cwd="/tmp")
        res["demo_clean_exit"] = rc.returncode
        a = run(["git", "-C", wt, "apply", os.path.join(d, "patch.diff")])
        if a.returncode != 0:
            a = run(["patch", "-p1", "--fuzz=3", "-d", wt, "-i", os.path.join(d, "patch.diff"), "--no-backup-if-mismatch", "-s"])
        res["applies"] = a.returncode == 0
        if res["applies"]:
            rm = run(["/venv/bin/python", os.path.join(d, "demo.py")], cwd="/tmp")
            res["demo_mutant_exit"] = rm.returncode
            t = run(TESTS, cwd=wt)
            res["tests_tail"] = t.stdout.strip().splitlines()[-1] if t.stdout.strip() else t.stderr[-200:]
            res["checks"] = {}
            for p in [prop] + list(meta.get("also_check", [])):
                c = run([os.path.join(V, "check"), p])
                lines = [l for l in c.stdout.splitlines() if l.startswith(("VIOLATION", "UNDECIDED", "KNOWN", "["))]
                res["checks"][p] = {"exit": c.returncode, "lines": [l[:260] for l in lines[:6]]}
    finally:
        with GITLOCK:
            sh(["git", "-C", "/repo", "worktree", "remove", "--force", wt])
        shutil.rmtree(f"/tmp/pyvc_mutant_evidence_{name}", ignore_errors=True)
    meta["ran"] = res
    json.dump(meta, open(os.path.join(d, "meta.json"), "w"), indent=1)
    det = {p: c["exit"] for p, c in res.get("checks", {}).items()}
    print(name, "applies" if res.get("applies") else "DOES NOT APPLY", "demo clean/mut", res.get("demo_clean_exit"), res.get("demo_mutant_exit"), "|",
          (res.get("tests_tail") or "")[:45], "| detected:", det, flush=True)
    return meta


def main():
    if sys.argv[1] == "prun":
        from concurrent.futures import ThreadPoolExecutor
        ids = [a for a in sys.argv[2:] if not a.startswith("-j")]
        j = int(([a[2:] for a in sys.argv[2:] if a.startswith("-j")] or ["3"])[0])
        ids = ids or sorted(os.listdir(os.path.join(V, "seeded")))
        ds = [os.path.join(V, "seeded", i) for i in ids if os.path.exists(os.path.join(V, "seeded", i, "meta.json"))]
        with ThreadPoolExecutor(j) as tp:
            list(tp.map(prun_one, ds))
        sh(["git", "-C", "/repo", "worktree", "prune"])
        return
    if sys.argv[1] == "import":
        src, prop, n = sys.argv[2], sys.argv[3], sys.argv[4]
        dst = os.path.join(V, "seeded", f"{prop}_m{n}")
        os.makedirs(dst, exist_ok=True)
        for f in ("patch.diff", "demo.py", "meta.json"):
            shutil.copy(os.path.join(src, f), os.path.join(dst, f))
        print("imported", dst)
        return
    ids = sys.argv[2:] or sorted(os.listdir(os.path.join(V, "seeded")))
    for i in ids:
        d = os.path.join(V, "seeded", i)
        if not os.path.exists(os.path.join(d, "meta.json")):
            continue
        m = run_one(d)
        r = m["ran"]
        det = {p: c["exit"] for p, c in r.get("checks", {}).items()}
        print(i, "applies" if r.get("applies") else "NO-APPLY", "demo clean/mut", r.get("demo_clean_exit"), r.get("demo_mutant_exit"),
              "|", r.get("tests_tail", "")[:40], "| detected:", det)


main()
