#!/usr/bin/env python3
"""Evaluate seeded mutants.
  seed_eval.py import <src_dir> <PROP> <n>   copy /tmp/wt_X/_seeded/mN to /verif/seeded/<PROP>_mN (if patch applies to /repo)
  seed_eval.py run [<id> ...]                 apply each, run tests + demo + check(s), revert; update meta.json
"""
import sys, os, json, subprocess, shutil, glob
V = "/verif"
ENV = dict(os.environ, PANOPTICA_CITATION_REMINDER="false", PYVC_EVIDENCE_DIR="/tmp/pyvc_mutant_evidence")
TESTS = ["/venv/bin/python", "-m", "pytest", "-q", "-p", "no:cacheprovider", "unit_tests",
         "--deselect", "unit_tests/test_panoptic_aggregator.py::Test_Example_Scripts",
         "--deselect", "unit_tests/test_panoptic_evaluator.py::Test_Example_Scripts"]


def sh(cmd, **kw):
    return subprocess.run(cmd, capture_output=True, text=True, env=ENV, **kw)


def clean():
    sh(["git", "-C", "/repo", "checkout", "--", "."])


def apply(patch):
    r = sh(["git", "-C", "/repo", "apply", "--check", patch])
    if r.returncode == 0:
        return sh(["git", "-C", "/repo", "apply", patch]).returncode == 0
    r = sh(["patch", "-p1", "--fuzz=3", "-d", "/repo", "-i", patch, "--no-backup-if-mismatch", "-s"])
    ok = r.returncode == 0
    for f in glob.glob("/repo/**/*.rej", recursive=True) + glob.glob("/repo/**/*.orig", recursive=True):
        os.unlink(f)
    if not ok:
        clean()
    return ok


def run_one(d):
    meta = json.load(open(os.path.join(d, "meta.json")))
    prop = meta["property"]
    res = {}
    clean()
    r = sh(["/venv/bin/python", os.path.join(d, "demo.py")], cwd="/tmp")
    res["demo_clean_exit"] = r.returncode
    if not apply(os.path.join(d, "patch.diff")):
        res["applies"] = False
        meta["ran"] = res
        json.dump(meta, open(os.path.join(d, "meta.json"), "w"), indent=1)
        return meta
    res["applies"] = True
    try:
        r = sh(["/venv/bin/python", os.path.join(d, "demo.py")], cwd="/tmp")
        res["demo_mutant_exit"] = r.returncode
        t = sh(TESTS, cwd="/repo")
        res["tests_tail"] = t.stdout.strip().splitlines()[-1] if t.stdout.strip() else t.stderr[-200:]
        props = [prop] + [p for p in meta.get("also_check", [])]
        res["checks"] = {}
        for p in props:
            c = sh([os.path.join(V, "check"), p])
            lines = [l for l in c.stdout.splitlines() if l.startswith(("VIOLATION", "UNDECIDED", "KNOWN", "["))]
            res["checks"][p] = {"exit": c.returncode, "lines": [l[:260] for l in lines[:6]]}
    finally:
        clean()
    meta["ran"] = res
    json.dump(meta, open(os.path.join(d, "meta.json"), "w"), indent=1)
    return meta


def main():
    if sys.argv[1] == "import":
        src, prop, n = sys.argv[2], sys.argv[3], sys.argv[4]
        dst = os.path.join(V, "seeded", f"{prop}_m{n}")
        os.makedirs(dst, exist_ok=True)
        for f in ("patch.diff", "demo.py", "meta.json"):
            shutil.copy(os.path.join(src, f), os.path.join(dst, f))
        print("imported", dst)
        return
    ids = sys.argv[2:] or sorted(os.listdir(os.path.join(V, "seeded")))
    for i in ids:
        d = os.path.join(V, "seeded", i)
        if not os.path.exists(os.path.join(d, "meta.json")):
            continue
        m = run_one(d)
        r = m["ran"]
        det = {p: c["exit"] for p, c in r.get("checks", {}).items()}
        print(i, "applies" if r.get("applies") else "NO-APPLY", "demo clean/mut", r.get("demo_clean_exit"), r.get("demo_mutant_exit"),
              "|", r.get("tests_tail", "")[:40], "| detected:", det)


main()
