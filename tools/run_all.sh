#!/bin/bash
# run every registered check on the current tree (evidence is rewritten in /verif/evidence)
cd "$(dirname "$0")/.."
for p in $(python3 -c "import json;print(' '.join(c['property_id'] for c in json.load(open('MANIFEST.json'))['checks']))"); do
  ./check $p "$@" | grep -E "^\[|VIOLATION|UNDECIDED|KNOWN" | head -5
done
