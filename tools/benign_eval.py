#!/usr/bin/env python3
"""Harmless refactorings (renamed locals, reordered independent statements, algebraically equal expressions, extra temporaries)
applied one at a time to a scratch worktree: the unit tests must pass and the listed checks must stay free of VIOLATION lines.
  benign_eval.py [-jN] [index ...]"""
import sys, os, json, subprocess, shutil
from concurrent.futures import ThreadPoolExecutor
V = "/verif"
ENV = dict(os.environ, PANOPTICA_CITATION_REMINDER="false")
TESTS = ["/venv/bin/python", "-m", "pytest", "-q", "-p", "no:cacheprovider", "unit_tests",
         "--deselect", "unit_tests/test_panoptic_aggregator.py::Test_Example_Scripts", "--deselect", "unit_tests/test_panoptic_evaluator.py::Test_Example_Scripts"]
EDITS = [
    ("rename loop variables in the threshold matcher", "panoptica/instance_matcher.py",
     [("for matching_score, (ref_label, pred_label) in mm_pairs:\n            if labelmap.contains_pred(pred_label) or (\n                labelmap.contains_ref(ref_label) and not self._allow_many_to_one\n            ):",
       "for cand_score, (r_lab, p_lab) in mm_pairs:\n            if labelmap.contains_pred(p_lab) or (\n                labelmap.contains_ref(r_lab) and not self._allow_many_to_one\n            ):"),
      ("            if self._matching_metric.score_beats_threshold(\n                matching_score, self._matching_threshold\n            ):\n                # Match found, increment true positive count and collect IoU and Dice values\n                labelmap.add_labelmap_entry(pred_label, ref_label)",
       "            if self._matching_metric.score_beats_threshold(\n                cand_score, self._matching_threshold\n            ):\n                labelmap.add_labelmap_entry(p_lab, r_lab)")], ["C03", "C01"]),
    ("rename the score dictionary and the counter in evaluate_matched_instance", "panoptica/instance_evaluator.py",
     [("score_dict", "metric_lists")], ["C02"]),
    ("extra temporary in the pair encoding", "panoptica/_functionals.py",
     [("    max_ref = max(ref_labels) + 1\n", "    highest_ref = max(ref_labels)\n    max_ref = highest_ref + 1\n")], ["C09"]),
    ("int() moved inside the fresh-label start", "panoptica/instance_matcher.py",
     [("label_counter = int(max(ref_labels) + 1)", "label_counter = int(max(ref_labels)) + 1")], ["C04"]),
    ("temporary in fp, factored rq denominator", "panoptica/panoptica_result.py",
     [("    return res.num_pred_instances - res.tp\n", "    n_pred = res.num_pred_instances\n    return n_pred - res.tp\n"),
      ("    return res.tp / (res.tp + 0.5 * res.fp + 0.5 * res.fn)", "    return res.tp / (res.tp + 0.5 * (res.fp + res.fn))")], ["C02", "C08", "C11"]),
    ("reordered independent statements and an extra defensive copy in panoptic_evaluate", "panoptica/panoptica_evaluator.py",
     [("    # Setup IntermediateStepsData\n    intermediate_steps_data: IntermediateStepsData = IntermediateStepsData(input_pair)\n    # Crops away unecessary space of zeroes\n    input_pair.crop_data()\n",
       "    # Crops away unecessary space of zeroes\n    input_pair.crop_data()\n    # Setup IntermediateStepsData\n    intermediate_steps_data: IntermediateStepsData = IntermediateStepsData(input_pair)\n")], ["C01", "C15"]),
    ("threshold test written as a conditional expression", "panoptica/metrics/metrics.py",
     [("        return (self.increasing and matching_score >= matching_threshold) or (\n            self.decreasing and matching_score <= matching_threshold\n        )",
       "        if self.increasing:\n            return matching_threshold <= matching_score\n        return matching_score <= matching_threshold")], ["C03", "C02"]),
    ("Dice with a named denominator and the sums exchanged", "panoptica/metrics/dice.py",
     [("    dice = 2 * np.sum(intersection) / (reference_mask + prediction_mask)\n    return dice", "    denominator = prediction_mask + reference_mask\n    overlap = np.sum(intersection)\n    return (overlap + overlap) / denominator")], ["C06", "C11"]),
    ("bounding box: padding clamp written with conditionals", "panoptica/utils/numpy_utils.py",
     [("            max(out[i] - px_dist[i // 2], 0),", "            (out[i] - px_dist[i // 2]) if out[i] - px_dist[i // 2] > 0 else 0,")], ["C10"]),
    ("fresh labels by enumerate offset instead of a running counter", "panoptica/instance_matcher.py",
     [("    for p in missed_pred_labels:\n        pred_labelmap[p] = label_counter\n        label_counter += 1\n",
       "    for offset, p in enumerate(missed_pred_labels):\n        pred_labelmap[p] = label_counter + offset\n")], ["C04"]),
    ("statistics: the not-None filter written with a named predicate and an early variable", "panoptica/panoptica_statistics.py",
     [("        if not remove_nones:\n            return self.__value_dict[group][metric]\n        return [i for i in self.__value_dict[group][metric] if i is not None]",
       "        values = self.__value_dict[group][metric]\n        if remove_nones:\n            return [v for v in values if not (v is None)]\n        return values")], ["C20"]),
    ("aggregator: row cells through dict.get, group result bound to a clearer name", "panoptica/panoptica_aggregator.py",
     [('                    mvalue = result_dict[e] if e in result_dict else ""\n                    content.append(mvalue)', '                    content.append(result_dict.get(e, ""))')], ["C18", "C17", "C16"]),
    ("statistics: across-groups averages collected in a loop instead of a comprehension", "panoptica/panoptica_statistics.py",
     [("            value_list = [self.get_summary(g, m).avg for g in self.__groupnames]\n", "            value_list = []\n            for group in self.__groupnames:\n                value_list.append(self.get_summary(group, m).avg)\n")], ["C20"]),
    ("approximator: emptiness flags inlined into the conditional expressions", "panoptica/instance_approximator.py",
     [("        empty_prediction = len(semantic_pair._pred_labels) == 0\n        empty_reference = len(semantic_pair._ref_labels) == 0\n", "        empty_prediction = not len(semantic_pair._pred_labels) > 0\n        empty_reference = not len(semantic_pair._ref_labels) > 0\n")], ["C05", "C01"]),
    ("RVD written as a ratio minus one", "panoptica/metrics/relative_volume_difference.py",
     [("    rvd = (prediction_mask - reference_mask) / reference_mask\n    return rvd", "    ratio = prediction_mask / reference_mask\n    return ratio - 1.0")], ["C06", "C11"]),
    ("evaluator: keyword arguments of panoptic_evaluate reordered", "panoptica/panoptica_evaluator.py",
     [("            instance_metrics=self.__eval_metrics,\n            global_metrics=self.__global_metrics,\n", "            global_metrics=self.__global_metrics,\n            instance_metrics=self.__eval_metrics,\n")], ["C12", "C15", "C19"]),
    ("merge matcher: comparison operands exchanged (a < b as b > a)", "panoptica/instance_matcher.py",
     [("                    new_score < score_ref[ref_label]\n                    if self._matching_metric.decreasing\n                    else new_score > score_ref[ref_label]",
       "                    score_ref[ref_label] > new_score\n                    if self._matching_metric.decreasing\n                    else score_ref[ref_label] < new_score")], ["C14"]),
    ("scorer: pool closed explicitly in try/finally instead of a with block", "panoptica/_functionals.py",
     [("    with Pool() as pool:\n        mm_values = pool.starmap(matching_metric.value, instance_pairs)\n", "    pool = Pool()\n    try:\n        mm_values = pool.starmap(matching_metric.value, instance_pairs)\n    finally:\n        pool.close()\n        pool.join()\n")], ["C03", "C16", "C14"]),
    ("aggregator: exit handler registered through a small wrapper function", "panoptica/panoptica_aggregator.py",
     [("        atexit.register(self.__exist_handler)\n", "        handler = self.__exist_handler\n        atexit.register(handler)\n")], ["C16", "C17"]),
    ("merge matcher: score table renamed and created with dict()", "panoptica/instance_matcher.py",
     [("score_ref", "best_score_of_ref")], ["C14", "C16"]),
    ("label group: labels de-duplicated through dict.fromkeys before sorting", "panoptica/utils/label_group.py",
     [("        value_labels = sorted(set(value_labels))", "        value_labels = sorted(dict.fromkeys(value_labels))")], ["C12", "C19"]),
    ("matcher: dead assignment removed and comprehension without list()", "panoptica/instance_matcher.py",
     [("    ref_matched_labels = []\n    label_counter", "    label_counter"),
      ("    ref_matched_labels = list([r for r in ref_labels if r in pred_labelmap.values()])", "    ref_matched_labels = [r for r in ref_labels if r in pred_labelmap.values()]")], ["C04"]),
    ("calculate_all through the _calc helper", "panoptica/panoptica_result.py",
     [("            try:\n                v = getattr(self, k)\n            except Exception as e:\n                metric_errors[k] = e\n",
       "            failed, outcome = self._calc(k, v)\n            if failed:\n                metric_errors[k] = outcome\n")], ["C02"]),
    ("to_dict written as an explicit loop", "panoptica/panoptica_result.py",
     [("        return {\n            k: getattr(self, v.id)\n            for k, v in self._evaluation_metrics.items()\n            if (v._error == False and v._was_calculated)\n        }",
       "        exported = {}\n        for k, v in self._evaluation_metrics.items():\n            if not v._was_calculated or v._error:\n                continue\n            exported[k] = getattr(self, v.id)\n        return exported")], ["C02"]),
    ("pair copy through self.__class__ and named locals", "panoptica/utils/processing_pair.py",
     [("        return type(self)(\n            prediction_arr=self._prediction_arr,\n            reference_arr=self._reference_arr,\n        )  # type:ignore",
       "        pred, ref = self._prediction_arr, self._reference_arr\n        return self.__class__(prediction_arr=pred, reference_arr=ref)  # type:ignore")], ["C04"]),
    ("handler constructor stores a private copy of the table it is given", "panoptica/utils/edge_case_handling.py",
     [("        ] = listmetric_zeroTP_handling\n        self.__empty_list_std", "        ] = dict(listmetric_zeroTP_handling)\n        self.__empty_list_std")], ["C08"]),
    ("summary dict built with explicit loops", "panoptica/panoptica_statistics.py",
     [("        summary_dict = {\n            g: {m: self.get_summary(g, m) for m in self.__metricnames}\n            for g in self.__groupnames\n        }",
       "        summary_dict = {}\n        for g in self.__groupnames:\n            per_metric = {}\n            for m in self.__metricnames:\n                per_metric[m] = self.get_summary(g, m)\n            summary_dict[g] = per_metric")], ["C20"]),
]


import threading
GITLOCK = threading.Lock()


def sh(cmd, **kw):
    return subprocess.run(cmd, capture_output=True, text=True, **kw)


def run_one(i):
    title, path, repl, props = EDITS[i]
    if not props:
        return None
    wt = f"/tmp/benign_wt_{i}"
    with GITLOCK:
        sh(["git", "-C", "/repo", "worktree", "remove", "--force", wt])
        sh(["git", "-C", "/repo", "worktree", "add", "--detach", wt, "HEAD"])
    res = {"title": title, "checks": {}}
    try:
        p = os.path.join(wt, path)
        s = open(p).read()
        for old, new in repl:
            if old not in s:
                res["error"] = f"pattern not found: {old[:40]!r}"
                return res
            s = s.replace(old, new)
        open(p, "w").write(s)
        env = dict(ENV, PYVC_REPO=wt, PYTHONPATH=wt, PYVC_EVIDENCE_DIR=f"/tmp/pyvc_benign_{i}")
        t = subprocess.run(TESTS, capture_output=True, text=True, env=env, cwd=wt)
        res["tests"] = (t.stdout.strip().splitlines() or ["?"])[-1][:60]
        for pr in props:
            c = subprocess.run([os.path.join(V, "check"), pr], capture_output=True, text=True, env=env)
            lines = [l for l in c.stdout.splitlines() if l.startswith(("VIOLATION", "UNDECIDED", "["))]
            res["checks"][pr] = {"exit": c.returncode, "lines": [l[:200] for l in lines[:4]]}
    finally:
        with GITLOCK:
            sh(["git", "-C", "/repo", "worktree", "remove", "--force", wt])
        shutil.rmtree(f"/tmp/pyvc_benign_{i}", ignore_errors=True)
    ok = all(c["exit"] == 0 for c in res["checks"].values())
    print(("OK   " if ok else "ALARM"), title, "|", res.get("tests"), "|", {p: (c["exit"], c["lines"][0].split("obligations")[1][:40] if c["lines"] else "") for p, c in res["checks"].items()}, flush=True)
    if not ok:
        for p, c in res["checks"].items():
            for l in c["lines"]:
                print("      ", l)
    return res


if __name__ == "__main__":
    args = [a for a in sys.argv[1:] if not a.startswith("-j")]
    j = int(([a[2:] for a in sys.argv[1:] if a.startswith("-j")] or ["2"])[0])
    idx = [int(a) for a in args] or list(range(len(EDITS)))
    with ThreadPoolExecutor(j) as tp:
        out = [r for r in tp.map(run_one, idx) if r]
    sh(["git", "-C", "/repo", "worktree", "prune"])
    json.dump(out, open("/tmp/benign_results.json", "w"), indent=1)
