#!/usr/bin/env python3
"""Regenerates the table of seeded changes in DESIGN.md (between the SEEDED-TABLE markers) from seeded/*/meta.json."""
import json, os, re, glob
V = os.path.dirname(os.path.dirname(os.path.abspath(__file__)))
rows = []
for d in sorted(glob.glob(os.path.join(V, "seeded", "*"))):
    mp = os.path.join(d, "meta.json")
    if not os.path.exists(mp):
        continue
    m = json.load(open(mp))
    ran = m.get("ran", {})
    checks = ran.get("checks", {})
    det = [p for p, c in checks.items() if c.get("exit") == 1]
    how = []
    for p in det:
        ls = [l for l in checks[p].get("lines", []) if l.startswith("VIOLATION")]
        kinds = set()
        for l in ls:
            if "no-failing-input-found" in l:
                kinds.add("structural obligation")
            elif re.search(r"_c\d\d-|-enum|-sweep|bounded|conformance|_c\d+", os.path.basename(l.split("replay=")[1].split()[0])) and not re.search(r"_[0-9a-f]{10}\.json", l):
                kinds.add("bounded stand-in")
            else:
                kinds.add("refuted obligation + replay")
        how.append(f"{p}: {', '.join(sorted(kinds)) or 'violation'}")
    what = m.get("what", "").replace("|", "/").replace("\n", " ")
    if len(what) > 230:
        what = what[:227] + "..."
    rows.append(f"| {os.path.basename(d)} | {', '.join(m.get('files', []))} | {what} | {'; '.join(how) if det else '**missed**'} |")
table = "| id | file(s) | change | caught by |\n|---|---|---|---|\n" + "\n".join(rows)
p = os.path.join(V, "DESIGN.md")
s = open(p).read()
a, b = "<!-- SEEDED-TABLE-BEGIN -->", "<!-- SEEDED-TABLE-END -->"
if a in s:
    s = s[:s.index(a) + len(a)] + "\n" + table + "\n" + s[s.index(b):]
    open(p, "w").write(s)
    print("table updated:", len(rows), "rows")
else:
    print(table)
