#!/usr/bin/env python3
"""usage: try_mutant.py <repo-relative file> <old> <new> <PROP> [<PROP>...]
Applies a textual mutation to /repo, runs the checks, reverts (git checkout)."""
import sys, subprocess, os
os.environ["PYVC_EVIDENCE_DIR"] = "/tmp/pyvc_mutant_evidence"
f, old, new, props = sys.argv[1], sys.argv[2], sys.argv[3], sys.argv[4:]
p = "/repo/" + f
s = open(p).read()
assert s.count(old) >= 1, "pattern not found"
open(p, "w").write(s.replace(old, new, 1))
try:
    for pr in props:
        r = subprocess.run(["/verif/check", pr], capture_output=True, text=True)
        lines = [l for l in r.stdout.splitlines() if l.startswith(("VIOLATION", "UNDECIDED", "KNOWN", "["))]
        print(pr, "exit", r.returncode)
        for l in lines[:12]:
            print("   ", l[:300])
        if r.returncode not in (0, 1):
            print(r.stderr[-1500:])
finally:
    subprocess.run(["git", "-C", "/repo", "checkout", "--", f])
